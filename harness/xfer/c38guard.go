package main

import (
	"context"
	"fmt"
	"io"
	"runtime/debug"
	"strings"

	"github.com/jdillenkofer/pithos/internal/storage"
)

// panicGuard wraps the S3 client storage so that a panic inside one of its
// methods becomes an error value (kind "panic") instead of killing the check.
type panicGuard struct {
	storage.Storage
}

type panicError struct {
	API   string
	Value string
	Where string
}

func (p *panicError) Error() string {
	return fmt.Sprintf("panic in %s: %s (%s)", p.API, p.Value, p.Where)
}

func panicSite() string {
	for _, l := range strings.Split(string(debug.Stack()), "\n") {
		l = strings.TrimSpace(l)
		if strings.Contains(l, "/s3client/") && strings.Contains(l, ".go:") {
			if i := strings.Index(l, " +0x"); i > 0 {
				l = l[:i]
			}
			if j := strings.LastIndex(l, "/"); j >= 0 {
				l = l[j+1:]
			}
			return l
		}
	}
	return "?"
}

func guard0(api string, f func() error) (err error) {
	defer func() {
		if p := recover(); p != nil {
			err = &panicError{api, fmt.Sprint(p), panicSite()}
		}
	}()
	return f()
}

func guard1[T any](api string, f func() (T, error)) (t T, err error) {
	defer func() {
		if p := recover(); p != nil {
			err = &panicError{api, fmt.Sprint(p), panicSite()}
		}
	}()
	return f()
}

func (g *panicGuard) CreateBucket(ctx context.Context, b storage.BucketName) error {
	return guard0("CreateBucket", func() error { return g.Storage.CreateBucket(ctx, b) })
}
func (g *panicGuard) DeleteBucket(ctx context.Context, b storage.BucketName) error {
	return guard0("DeleteBucket", func() error { return g.Storage.DeleteBucket(ctx, b) })
}
func (g *panicGuard) ListBuckets(ctx context.Context) ([]storage.Bucket, error) {
	return guard1("ListBuckets", func() ([]storage.Bucket, error) { return g.Storage.ListBuckets(ctx) })
}
func (g *panicGuard) HeadBucket(ctx context.Context, b storage.BucketName) (*storage.Bucket, error) {
	return guard1("HeadBucket", func() (*storage.Bucket, error) { return g.Storage.HeadBucket(ctx, b) })
}
func (g *panicGuard) GetBucketVersioningConfiguration(ctx context.Context, b storage.BucketName) (*storage.BucketVersioningConfiguration, error) {
	return guard1("GetBucketVersioningConfiguration", func() (*storage.BucketVersioningConfiguration, error) {
		return g.Storage.GetBucketVersioningConfiguration(ctx, b)
	})
}
func (g *panicGuard) PutBucketVersioningConfiguration(ctx context.Context, b storage.BucketName, c *storage.BucketVersioningConfiguration) error {
	return guard0("PutBucketVersioningConfiguration", func() error { return g.Storage.PutBucketVersioningConfiguration(ctx, b, c) })
}
func (g *panicGuard) ListObjects(ctx context.Context, b storage.BucketName, o storage.ListObjectsOptions) (*storage.ListBucketResult, error) {
	return guard1("ListObjects", func() (*storage.ListBucketResult, error) { return g.Storage.ListObjects(ctx, b, o) })
}
func (g *panicGuard) ListObjectVersions(ctx context.Context, b storage.BucketName, o storage.ListObjectVersionsOptions) (*storage.ListObjectVersionsResult, error) {
	return guard1("ListObjectVersions", func() (*storage.ListObjectVersionsResult, error) { return g.Storage.ListObjectVersions(ctx, b, o) })
}
func (g *panicGuard) HeadObject(ctx context.Context, b storage.BucketName, k storage.ObjectKey, o *storage.HeadObjectOptions) (*storage.Object, error) {
	return guard1("HeadObject", func() (*storage.Object, error) { return g.Storage.HeadObject(ctx, b, k, o) })
}
func (g *panicGuard) GetObject(ctx context.Context, b storage.BucketName, k storage.ObjectKey, rs []storage.ByteRange, o *storage.GetObjectOptions) (obj *storage.Object, rds []io.ReadCloser, err error) {
	defer func() {
		if p := recover(); p != nil {
			obj, rds, err = nil, nil, &panicError{"GetObject", fmt.Sprint(p), panicSite()}
		}
	}()
	return g.Storage.GetObject(ctx, b, k, rs, o)
}
func (g *panicGuard) PutObject(ctx context.Context, b storage.BucketName, k storage.ObjectKey, ct *string, data io.Reader, ci *storage.ChecksumInput, o *storage.PutObjectOptions) (*storage.PutObjectResult, error) {
	return guard1("PutObject", func() (*storage.PutObjectResult, error) { return g.Storage.PutObject(ctx, b, k, ct, data, ci, o) })
}
func (g *panicGuard) CopyObject(ctx context.Context, sb storage.BucketName, sk storage.ObjectKey, db storage.BucketName, dk storage.ObjectKey, o *storage.CopyObjectOptions) (*storage.CopyObjectResult, error) {
	return guard1("CopyObject", func() (*storage.CopyObjectResult, error) { return g.Storage.CopyObject(ctx, sb, sk, db, dk, o) })
}
func (g *panicGuard) TransitionObjectStorageClass(ctx context.Context, b storage.BucketName, k storage.ObjectKey, cl string, o *storage.TransitionObjectStorageClassOptions) error {
	return guard0("TransitionObjectStorageClass", func() error { return g.Storage.TransitionObjectStorageClass(ctx, b, k, cl, o) })
}
func (g *panicGuard) DeleteObject(ctx context.Context, b storage.BucketName, k storage.ObjectKey, o *storage.DeleteObjectOptions) (*storage.DeleteObjectResult, error) {
	return guard1("DeleteObject", func() (*storage.DeleteObjectResult, error) { return g.Storage.DeleteObject(ctx, b, k, o) })
}
func (g *panicGuard) DeleteObjects(ctx context.Context, b storage.BucketName, es []storage.DeleteObjectsInputEntry) (*storage.DeleteObjectsResult, error) {
	return guard1("DeleteObjects", func() (*storage.DeleteObjectsResult, error) { return g.Storage.DeleteObjects(ctx, b, es) })
}
func (g *panicGuard) CreateMultipartUpload(ctx context.Context, b storage.BucketName, k storage.ObjectKey, ct *string, ck *string, o *storage.CreateMultipartUploadOptions) (*storage.InitiateMultipartUploadResult, error) {
	return guard1("CreateMultipartUpload", func() (*storage.InitiateMultipartUploadResult, error) {
		return g.Storage.CreateMultipartUpload(ctx, b, k, ct, ck, o)
	})
}
func (g *panicGuard) UploadPart(ctx context.Context, b storage.BucketName, k storage.ObjectKey, u storage.UploadId, n int32, data io.Reader, ci *storage.ChecksumInput) (*storage.UploadPartResult, error) {
	return guard1("UploadPart", func() (*storage.UploadPartResult, error) { return g.Storage.UploadPart(ctx, b, k, u, n, data, ci) })
}
func (g *panicGuard) UploadPartCopy(ctx context.Context, sb storage.BucketName, sk storage.ObjectKey, db storage.BucketName, dk storage.ObjectKey, u storage.UploadId, n int32, o *storage.UploadPartCopyOptions) (*storage.UploadPartCopyResult, error) {
	return guard1("UploadPartCopy", func() (*storage.UploadPartCopyResult, error) {
		return g.Storage.UploadPartCopy(ctx, sb, sk, db, dk, u, n, o)
	})
}
func (g *panicGuard) CompleteMultipartUpload(ctx context.Context, b storage.BucketName, k storage.ObjectKey, u storage.UploadId, ci *storage.ChecksumInput, o *storage.CompleteMultipartUploadOptions) (*storage.CompleteMultipartUploadResult, error) {
	return guard1("CompleteMultipartUpload", func() (*storage.CompleteMultipartUploadResult, error) {
		return g.Storage.CompleteMultipartUpload(ctx, b, k, u, ci, o)
	})
}
func (g *panicGuard) AbortMultipartUpload(ctx context.Context, b storage.BucketName, k storage.ObjectKey, u storage.UploadId) error {
	return guard0("AbortMultipartUpload", func() error { return g.Storage.AbortMultipartUpload(ctx, b, k, u) })
}
func (g *panicGuard) ListMultipartUploads(ctx context.Context, b storage.BucketName, o storage.ListMultipartUploadsOptions) (*storage.ListMultipartUploadsResult, error) {
	return guard1("ListMultipartUploads", func() (*storage.ListMultipartUploadsResult, error) { return g.Storage.ListMultipartUploads(ctx, b, o) })
}
func (g *panicGuard) ListParts(ctx context.Context, b storage.BucketName, k storage.ObjectKey, u storage.UploadId, o storage.ListPartsOptions) (*storage.ListPartsResult, error) {
	return guard1("ListParts", func() (*storage.ListPartsResult, error) { return g.Storage.ListParts(ctx, b, k, u, o) })
}
func (g *panicGuard) GetObjectTagging(ctx context.Context, b storage.BucketName, k storage.ObjectKey, o *storage.ObjectTaggingOptions) (map[string]string, error) {
	return guard1("GetObjectTagging", func() (map[string]string, error) { return g.Storage.GetObjectTagging(ctx, b, k, o) })
}
func (g *panicGuard) PutObjectTagging(ctx context.Context, b storage.BucketName, k storage.ObjectKey, t map[string]string, o *storage.ObjectTaggingOptions) error {
	return guard0("PutObjectTagging", func() error { return g.Storage.PutObjectTagging(ctx, b, k, t, o) })
}
func (g *panicGuard) DeleteObjectTagging(ctx context.Context, b storage.BucketName, k storage.ObjectKey, o *storage.ObjectTaggingOptions) error {
	return guard0("DeleteObjectTagging", func() error { return g.Storage.DeleteObjectTagging(ctx, b, k, o) })
}
