// Engine "xfer": monitors for the components that move or audit whole
// storages - C37 storage migration (migrator.MigrateStorage), C38 the S3
// client backend (s3client.NewStorage over a real HTTP server), C39 the
// integrity validator (integrity.Validator).
package main

import (
	"flag"
	"fmt"
	"os"
)

func main() {
	prop := flag.String("prop", "", "property id")
	tier := flag.String("tier", "", "quick|thorough")
	replay := flag.String("replay", "", "replay file")
	flag.Parse()
	switch *prop {
	case "C37":
		runC37(*tier, *replay)
	case "C38":
		runC38(*tier, *replay)
	case "C39":
		runC39(*tier, *replay)
	default:
		fmt.Fprintln(os.Stderr, "engine xfer: unknown property", *prop)
		os.Exit(3)
	}
}
