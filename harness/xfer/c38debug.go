package main

import (
	"context"
	"fmt"

	"github.com/jdillenkofer/pithos/internal/storage"
	"github.com/jdillenkofer/pithos/internal/verif/vkit"
	"github.com/jdillenkofer/pithos/internal/verif/vmodel"
)

func runC38Debug() {
	r := vkit.Begin("C38dbg", "exploration", "quick")
	ctx := context.Background()
	st, err := newC38Stacks(ctx, r)
	if err != nil {
		panic(err)
	}
	defer st.close(ctx)
	for _, op := range []*vmodel.Op{
		{Kind: vmodel.OpCreateBucket, Bucket: "dbg"},
		{Kind: vmodel.OpPut, Bucket: "dbg", Key: "dir/k3", Body: []byte("a")},
		{Kind: vmodel.OpPut, Bucket: "dbg", Key: "k1", Body: []byte("b")},
		{Kind: vmodel.OpPut, Bucket: "dbg", Key: "k2", Body: []byte("c")},
	} {
		fmt.Println(op, resText(vmodel.Exec(ctx, st.a, op)))
	}
	for _, mk := range []int32{1, 2, 3, 1000} {
		for _, s := range []storage.Storage{st.a, st.a0} {
			res, err := s.ListObjects(ctx, storage.MustNewBucketName("dbg"), storage.ListObjectsOptions{Delimiter: vkit.Ptr("/"), MaxKeys: mk})
			if err != nil {
				fmt.Println("err", err)
				continue
			}
			var ks []string
			for _, o := range res.Objects {
				ks = append(ks, o.Key.String())
			}
			fmt.Printf("max-keys=%d objects=%v prefixes=%v truncated=%v\n", mk, ks, res.CommonPrefixes, res.IsTruncated)
		}
	}
	for _, mk := range []int32{1, 2} {
		for _, s := range []storage.Storage{st.a, st.a0} {
			k, lines, pages := pagedVersions(ctx, s, "dbg", nil, vkit.Ptr("/"), mk)
			fmt.Println("versions delim max", mk, k, pages)
			for _, l := range lines {
				fmt.Println("    ", l)
			}
			k, lines, pages = pagedVersions(ctx, s, "dbg", nil, nil, mk)
			fmt.Println("versions nodelim max", mk, k, pages)
			for _, l := range lines {
				fmt.Println("    ", l)
			}
		}
	}
}
