package main

import (
	"bytes"
	"context"
	"fmt"
	"net"
	"net/http"
	"net/http/httptest"
	"sort"
	"strings"

	"github.com/aws/aws-sdk-go-v2/aws"
	awshttp "github.com/aws/aws-sdk-go-v2/aws/transport/http"
	awsconfig "github.com/aws/aws-sdk-go-v2/config"
	"github.com/aws/aws-sdk-go-v2/credentials"
	"github.com/aws/aws-sdk-go-v2/service/s3"

	"github.com/jdillenkofer/pithos/internal/http/server"
	"github.com/jdillenkofer/pithos/internal/http/server/authorization/lua"
	"github.com/jdillenkofer/pithos/internal/settings"
	"github.com/jdillenkofer/pithos/internal/storage"
	"github.com/jdillenkofer/pithos/internal/storage/metadatapart"
	"github.com/jdillenkofer/pithos/internal/storage/s3client"
	"github.com/jdillenkofer/pithos/internal/verif/vkit"
	"github.com/jdillenkofer/pithos/internal/verif/vmodel"
)

// C38 - the S3 client backend behaves like the storage it forwards to.
//
//	stack A : s3client.NewStorage(SDK client) -> HTTP (httptest, SigV4) -> SetupServer -> storage a0 ("sql")
//	stack B : an identical fresh storage b driven directly
//
// Every generated write is executed on A and on B; results are compared (ids
// through a bijection), then the touched keys are read directly from a0 and b
// (did the write arrive unchanged?) and through A and directly from a0 (does
// the read translation show what is stored?). Generated reads are executed
// through A and directly on a0.

type c38Stacks struct {
	envA, envB *vkit.Env
	a0, b, a   storage.Storage
	srv        *httptest.Server
}

func (st *c38Stacks) close(ctx context.Context) {
	if st.a != nil {
		_ = st.a.Stop(ctx)
	}
	if st.srv != nil {
		st.srv.Close()
	}
	if st.a0 != nil {
		_ = st.a0.Stop(ctx)
	}
	if st.b != nil {
		_ = st.b.Stop(ctx)
	}
	if st.envA != nil {
		st.envA.Close()
	}
	if st.envB != nil {
		st.envB.Close()
	}
}

const (
	c38Region    = "eu-central-1"
	c38AccessKey = "AKIDC38VERIF"
	c38Secret    = "c38-verif-secret-access-key"
	c38Endpoint  = "s3.localhost"
)

// newS3ClientOver starts an in-process pithos HTTP server (SetupServer, SigV4
// credentials, allow-all authorizer) in front of the given storage and returns an
// S3ClientStorage (behind a panic guard) that talks to it.
func newS3ClientOver(ctx context.Context, backing storage.Storage) (storage.Storage, *httptest.Server, error) {
	auth, err := lua.NewLuaAuthorizer("function authorizeRequest(request)\n  return true\nend\n")
	if err != nil {
		return nil, nil, err
	}
	creds := []settings.Credentials{{AccessKeyId: c38AccessKey, SecretAccessKey: c38Secret}}
	srv := httptest.NewServer(server.SetupServer(creds, c38Region, c38Endpoint, "s3-website.localhost", auth, backing))
	addr := srv.Listener.Addr().String()
	_, port, err := net.SplitHostPort(addr)
	if err != nil {
		srv.Close()
		return nil, nil, err
	}
	httpClient := awshttp.NewBuildableClient().WithTransportOptions(func(tr *http.Transport) {
		tr.DialContext = func(ctx context.Context, network, _ string) (net.Conn, error) {
			return (&net.Dialer{}).DialContext(ctx, network, addr)
		}
	})
	cfg, err := awsconfig.LoadDefaultConfig(ctx,
		awsconfig.WithRegion(c38Region),
		awsconfig.WithHTTPClient(httpClient),
		awsconfig.WithCredentialsProvider(credentials.NewStaticCredentialsProvider(c38AccessKey, c38Secret, "")),
	)
	if err != nil {
		srv.Close()
		return nil, nil, err
	}
	client := s3.NewFromConfig(cfg, func(o *s3.Options) {
		o.UsePathStyle = true
		o.BaseEndpoint = aws.String("http://" + c38Endpoint + ":" + port)
		o.RetryMaxAttempts = 1
	})
	inner, err := s3client.NewStorage(client)
	if err != nil {
		srv.Close()
		return nil, nil, err
	}
	a := &panicGuard{Storage: inner}
	if err = a.Start(ctx); err != nil {
		srv.Close()
		return nil, nil, err
	}
	return a, srv, nil
}

func newC38Stacks(ctx context.Context, r *vkit.Run) (*c38Stacks, error) {
	st := &c38Stacks{}
	var err error
	if st.envA, st.a0, err = openStore(r, "c38-a", "sql"); err != nil {
		return nil, err
	}
	if st.envB, st.b, err = openStore(r, "c38-b", "sql"); err != nil {
		st.close(ctx)
		return nil, err
	}
	if st.a, st.srv, err = newS3ClientOver(ctx, st.a0); err != nil {
		st.close(ctx)
		return nil, err
	}
	return st, nil
}

// ---------------------------------------------------------------------------

type c38Div struct {
	Sig    string `json:"signature"`
	What   string `json:"what"`
	Desync bool   `json:"state_desync,omitempty"`
	Mask   string `json:"mask,omitempty"`
}

type c38Step struct {
	N    int    `json:"n"`
	Op   string `json:"op"`
	ResA string `json:"via_s3client"`
	ResB string `json:"direct"`
}

type c38Witness struct {
	Index   int       `json:"history_index"`
	Profile string    `json:"profile"`
	Steps   int       `json:"steps"`
	Masks   []string  `json:"masks"`
	Tail    []c38Step `json:"last_steps"`
	Divs    []c38Div  `json:"divergences"`
}

// idMap is the bijection between the ids of stack B (which the model and the
// generated operations use) and the ids of stack A.
type idMap struct {
	b2a, a2b map[string]string
}

func newIDMap() *idMap {
	return &idMap{b2a: map[string]string{"null": "null", "": ""}, a2b: map[string]string{"null": "null", "": ""}}
}

func (m *idMap) toA(b string) string {
	if a, ok := m.b2a[b]; ok {
		return a
	}
	return b // unknown ids (deliberately bogus ones) travel unchanged
}

func (m *idMap) toAPtr(b *string) *string {
	if b == nil {
		return nil
	}
	a := m.toA(*b)
	return &a
}

func (m *idMap) known(b string) bool { _, ok := m.b2a[b]; return ok }

// learn pairs two fresh ids; it reports false when one side is already paired differently.
func (m *idMap) learn(a, b string) bool {
	if a == "" || b == "" {
		return a == b
	}
	if x, ok := m.b2a[b]; ok {
		return x == a
	}
	if _, ok := m.a2b[a]; ok {
		return false
	}
	m.b2a[b], m.a2b[a] = a, b
	return true
}

// ---------------------------------------------------------------------------
// masks: features of generated operations that are switched off after the
// monitor reported a state-desynchronising divergence for them, so that later
// histories can look past an already reported finding.

type maskSet map[string]bool

func (ms maskSet) list() []string { return sortedSet(ms) }

func maskFor(op vmodel.OpKind, field string) string {
	target := string(op)
	if op == vmodel.OpMpuComplete {
		target = string(vmodel.OpMpuCreate)
	}
	switch {
	case field == "tags":
		return target + ":tags"
	case strings.HasPrefix(field, "meta:"):
		return target + ":meta"
	case field == "content-type":
		return target + ":content-type"
	case field == "storage-class":
		return target + ":storage-class"
	}
	return string(op) + ":*"
}

// apply strips masked features; it returns false when the operation kind itself is masked.
func (ms maskSet) apply(op *vmodel.Op) bool {
	k := string(op.Kind)
	if ms[k+":*"] {
		return false
	}
	if ms[k+":tags"] {
		op.Tags = nil
		op.ReplaceTags = false
	}
	if ms[k+":meta"] {
		op.Meta = nil
		if op.Kind == vmodel.OpCopy {
			op.ReplaceMeta = false
			op.ContentType = nil
		}
	}
	if ms[k+":content-type"] && op.ContentType == nil && (op.Kind != vmodel.OpCopy || op.ReplaceMeta) {
		// the divergence is about requests WITHOUT a content type: always send one
		op.ContentType = vkit.Ptr("application/octet-stream")
	}
	if ms[k+":storage-class"] {
		op.Class = nil
	}
	if ms[k+":checksum"] {
		op.Checksum = nil
	}
	if ms[k+":conditional"] {
		op.IfMatch, op.IfNoneMatchStar, op.SrcIfMatch, op.SrcIfNone = nil, false, nil, nil
	}
	return true
}

// ---------------------------------------------------------------------------

type c38History struct {
	ctx    context.Context
	r      *vkit.Run
	st     *c38Stacks
	ids    *idMap
	ups    *idMap
	masks  maskSet
	prof   vmodel.Profile
	divs   []c38Div
	seen   map[string]bool
	steps  []c38Step
	desync bool
	abort  string
	// scripted histories (error matrix, key scenario) are not generated from the model
	scripted bool
	// key scenario: sigTag (class of the key in use) is appended to the signature of a
	// divergence unless the control key showed the same divergence (recordControl)
	sigTag        string
	recordControl bool
	controlSigs   map[string]bool
}

func (h *c38History) add(sig, what string, desync bool, mask string) {
	h.r.Count("divergences_observed", 1)
	if desync {
		h.desync = true
	}
	if h.recordControl && h.controlSigs != nil {
		h.controlSigs[sig] = true
	}
	if h.sigTag != "" {
		if h.controlSigs[sig] {
			h.r.Count("key_scenario_divergences_shared_with_the_control_key(not key specific)", 1)
			return
		}
		sig, mask = sig+":"+h.sigTag, ""
	}
	if h.seen[sig] {
		return
	}
	h.seen[sig] = true
	h.divs = append(h.divs, c38Div{Sig: sig, What: what, Desync: desync, Mask: mask})
}

func (h *c38History) translate(op *vmodel.Op) *vmodel.Op {
	o := *op
	o.VersionID = h.ids.toAPtr(op.VersionID)
	o.SrcVersionID = h.ids.toAPtr(op.SrcVersionID)
	if op.UploadID != "" {
		o.UploadID = h.ups.toA(op.UploadID)
	}
	if len(op.Entries) > 0 {
		o.Entries = make([]vmodel.DelEntry, len(op.Entries))
		for i, e := range op.Entries {
			o.Entries[i] = vmodel.DelEntry{Key: e.Key, VersionID: h.ids.toAPtr(e.VersionID), IfMatch: e.IfMatch}
		}
	}
	return &o
}

func resText(res *vmodel.Result) string {
	k := strictKind(res.Err)
	if k != "" {
		return "ERR " + k + " (" + errDetail(res.Err) + ")"
	}
	s := "ok"
	if res.VersionID != nil {
		s += " v=" + *res.VersionID
	}
	if res.ETag != "" {
		s += " etag=" + res.ETag
	}
	if res.Marker {
		s += " marker"
	}
	if res.UploadID != "" {
		s += " upload=" + res.UploadID
	}
	if res.Body != nil {
		s += fmt.Sprintf(" body=%dB", len(res.Body))
	}
	return s
}

func ptrStr(p *string) string {
	if p == nil {
		return "<nil>"
	}
	return *p
}

// cmpVersionID compares a version id returned by A with the one B returned and
// learns the pairing of fresh ids.
func (h *c38History) cmpVersionID(op *vmodel.Op, what string, a, b *string) {
	sig := fmt.Sprintf("s3client-diverges:%s:%s", op.Kind, what)
	// "no version id" and the null version are the same thing on the wire
	// (x-amz-version-id is omitted for the null version)
	if a != nil && *a == "null" {
		a = nil
	}
	if b != nil && *b == "null" {
		b = nil
	}
	switch {
	case a == nil && b == nil:
	case a == nil || b == nil:
		h.add(sig, fmt.Sprintf("%s: %s via S3 client %s, direct %s", op, what, ptrStr(a), ptrStr(b)), false, "")
	case !h.ids.learn(*a, *b):
		h.add(sig, fmt.Sprintf("%s: %s via S3 client %s does not correspond to direct %s (known pairing %s)", op, what, *a, *b, h.ids.toA(*b)), false, "")
	}
}

// learnFromListing pairs version ids that no result carried (in creation order).
func (h *c38History) learnFromListing(bucket, key string) {
	list := func(s storage.Storage) []string {
		prefix := key
		res, err := s.ListObjectVersions(h.ctx, storage.MustNewBucketName(bucket), storage.ListObjectVersionsOptions{Prefix: &prefix, MaxKeys: 1000})
		if err != nil {
			return nil
		}
		var ids []string
		for _, v := range res.Versions {
			if v.Key.String() == key && v.VersionID != "null" {
				ids = append(ids, v.VersionID)
			}
		}
		sort.Strings(ids)
		return ids
	}
	ia, ib := list(h.st.a0), list(h.st.b)
	var ua, ub []string
	for _, x := range ia {
		if _, ok := h.ids.a2b[x]; !ok {
			ua = append(ua, x)
		}
	}
	for _, x := range ib {
		if _, ok := h.ids.b2a[x]; !ok {
			ub = append(ub, x)
		}
	}
	if len(ua) == len(ub) {
		for i := range ua {
			if h.ids.learn(ua[i], ub[i]) {
				h.r.Count("version_ids_paired_from_listing", 1)
			}
		}
	}
}

func isRead(k vmodel.OpKind) bool {
	return k == vmodel.OpGet || k == vmodel.OpHead || k == vmodel.OpGetTags
}

func objFields(o *storage.Object) map[string]string {
	if o == nil {
		return nil
	}
	return map[string]string{
		"size": fmt.Sprint(o.Size), "etag": o.ETag, "content-type": fmt.Sprintf("%q", vkit.Deref(o.ContentType)),
		"storage-class": classOf(o.StorageClass), "tags": tagString(o.Tags), "version-id": vkit.Deref(o.VersionID),
		"delete-marker": fmt.Sprint(o.IsDeleteMarker), "last-modified": sec(o.LastModified), "meta": renderMeta(o.Metadata),
	}
}

// compareRead compares a generated read executed through the S3 client with
// the same read executed directly on the storage behind the server.
func (h *c38History) compareRead(op *vmodel.Op, ra, r0 *vmodel.Result) {
	ka, k0 := strictKind(ra.Err), strictKind(r0.Err)
	pre := fmt.Sprintf("s3client-diverges:%s:", op.Kind)
	if op.Range != nil {
		pre = fmt.Sprintf("s3client-diverges:%s-range:", op.Kind)
	}
	if ka != k0 {
		h.add(pre+"error-kind:"+orOK(k0)+"->"+orOK(ka), fmt.Sprintf("%s: via S3 client %s (%s), directly %s (%s)", op, orOK(ka), errDetail(ra.Err), orOK(k0), errDetail(r0.Err)), false, "")
		return
	}
	if ka != "" {
		h.r.Count("read_errors_agreeing:"+ka, 1)
		return
	}
	switch op.Kind {
	case vmodel.OpGetTags:
		if tagString(ra.Tags) != tagString(r0.Tags) {
			h.add(pre+"tags", fmt.Sprintf("%s: tags via S3 client %q, directly %q", op, tagString(ra.Tags), tagString(r0.Tags)), false, "")
		}
		return
	case vmodel.OpGet:
		if !bytes.Equal(ra.Body, r0.Body) {
			h.add(pre+"content", fmt.Sprintf("%s: body via S3 client %s, directly %s", op, vkit.Brief(ra.Body), vkit.Brief(r0.Body)), false, "")
		}
		if (ra.ReadErr == nil) != (r0.ReadErr == nil) {
			h.add(pre+"read-error", fmt.Sprintf("%s: body read error via S3 client %v, directly %v", op, ra.ReadErr, r0.ReadErr), false, "")
		}
	}
	fa, f0 := objFields(ra.Obj), objFields(r0.Obj)
	if fa["version-id"] != f0["version-id"] {
		// the returned object describes another version: every other field follows from that
		h.add(pre+"version-id", fmt.Sprintf("%s: version-id of the returned object via S3 client %s, directly %s", op, fa["version-id"], f0["version-id"]), false, "")
		return
	}
	for _, f := range vkit.SortedKeys(f0) {
		if f == "meta" {
			for _, mf := range metaDiffs(fa[f], f0[f]) {
				h.add(pre+mf, fmt.Sprintf("%s: metadata via S3 client %s, directly %s", op, fa[f], f0[f]), false, "")
			}
			continue
		}
		if fa[f] != f0[f] {
			h.add(pre+f, fmt.Sprintf("%s: %s via S3 client %s, directly %s", op, f, fa[f], f0[f]), false, "")
		}
	}
	h.r.Count("read_results_compared", 1)
}

// compareWriteResult compares what a write returned on both stacks.
func (h *c38History) compareWriteResult(op *vmodel.Op, ra, rb *vmodel.Result) {
	pre := fmt.Sprintf("s3client-diverges:%s:", op.Kind)
	cmp := func(field, a, b string) {
		if a != b {
			h.add(pre+field, fmt.Sprintf("%s: returned %s via S3 client %s, direct %s", op, field, a, b), false, "")
		}
	}
	switch op.Kind {
	case vmodel.OpPut:
		cmp("etag", ra.ETag, rb.ETag)
		h.cmpVersionID(op, "version-id", ra.VersionID, rb.VersionID)
	case vmodel.OpDelete:
		cmp("delete-marker", fmt.Sprint(ra.Marker), fmt.Sprint(rb.Marker))
		h.cmpVersionID(op, "version-id", ra.VersionID, rb.VersionID)
	case vmodel.OpCopy:
		cmp("etag", ra.ETag, rb.ETag)
		h.cmpVersionID(op, "version-id", ra.VersionID, rb.VersionID)
		h.cmpVersionID(op, "source-version-id", ra.SrcVerID, rb.SrcVerID)
	case vmodel.OpMpuCreate:
		if ra.UploadID == "" || rb.UploadID == "" || !h.ups.learn(ra.UploadID, rb.UploadID) {
			h.add(pre+"upload-id", fmt.Sprintf("%s: upload ids %q / %q cannot be paired", op, ra.UploadID, rb.UploadID), false, "")
		}
	case vmodel.OpMpuPart:
		cmp("etag", ra.ETag, rb.ETag)
	case vmodel.OpMpuPartCopy:
		cmp("etag", ra.ETag, rb.ETag)
		h.cmpVersionID(op, "source-version-id", ra.SrcVerID, rb.SrcVerID)
	case vmodel.OpMpuComplete:
		cmp("etag", ra.ETag, rb.ETag)
		h.cmpVersionID(op, "version-id", ra.VersionID, rb.VersionID)
	case vmodel.OpMultiDelete:
		render := func(es []storage.DeleteObjectsEntry, m func(*string) string) string {
			var l []string
			for _, e := range es {
				dm := "<nil>"
				if e.DeleteMarker != nil {
					dm = fmt.Sprint(*e.DeleteMarker)
				}
				l = append(l, fmt.Sprintf("%s v=%s deleted=%v marker=%s marker-version=%s code=%s", e.Key.String(), m(e.VersionID), e.Deleted, dm, m(e.DeleteMarkerVersionID), e.ErrCode))
			}
			sort.Strings(l)
			return strings.Join(l, "; ")
		}
		// learn marker ids first (entry order is the request order on the direct path)
		am := map[string]storage.DeleteObjectsEntry{}
		for _, e := range ra.Entries {
			am[e.Key.String()+"@"+ptrStr(e.VersionID)] = e
		}
		for _, e := range rb.Entries {
			if e.DeleteMarkerVersionID == nil {
				continue
			}
			if x, ok := am[e.Key.String()+"@"+ptrStr(h.ids.toAPtr(e.VersionID))]; ok && x.DeleteMarkerVersionID != nil {
				h.ids.learn(*x.DeleteMarkerVersionID, *e.DeleteMarkerVersionID)
			}
		}
		ta := render(ra.Entries, ptrStr)
		tb := render(rb.Entries, func(p *string) string { return ptrStr(h.ids.toAPtr(p)) })
		cmp("entries", ta, tb)
	}
	h.r.Count("write_results_compared", 1)
}

func touchedKeys(op *vmodel.Op) [][2]string {
	seen := map[[2]string]bool{}
	var l [][2]string
	add := func(b, k string) {
		if b == "" || k == "" || seen[[2]string{b, k}] {
			return
		}
		seen[[2]string{b, k}] = true
		l = append(l, [2]string{b, k})
	}
	switch op.Kind {
	case vmodel.OpMpuCreate, vmodel.OpMpuPart, vmodel.OpMpuPartCopy, vmodel.OpMpuAbort:
		return nil // uploads are compared through the upload listing
	}
	add(op.Bucket, op.Key)
	for _, e := range op.Entries {
		add(op.Bucket, e.Key)
	}
	return l
}

// afterWrite compares the state both writes left behind and how the S3 client shows it.
func (h *c38History) afterWrite(op *vmodel.Op, m *vmodel.Model) {
	mapB := func(b string) string { return h.ids.toA(b) }
	same := func(s string) string { return s }
	opname := string(op.Kind)
	for _, bk := range touchedKeys(op) {
		if m.Buckets[bk[0]] == nil {
			continue
		}
		h.learnFromListing(bk[0], bk[1])
		s0 := readKey(h.ctx, h.st.a0, bk[0], bk[1])
		sb := readKey(h.ctx, h.st.b, bk[0], bk[1])
		where := bk[0] + "/" + bk[1]
		seenField := map[string]bool{}
		wdiffs := cmpKeyState(where, s0, sb, mapB, false)
		if op.Kind == vmodel.OpTransition {
			// a transition that created a new version: every other difference follows from it
			for _, d := range wdiffs {
				if d.Field == "version-set" {
					wdiffs = []fdiff{d}
					break
				}
			}
		}
		for _, d := range wdiffs {
			if d.Field == "content-type" && op.ContentType != nil {
				d.Field = "content-type:explicit" // the request named a content type (unlike the SDK-default case)
			}
			if seenField[d.Field] {
				continue
			}
			seenField[d.Field] = true
			mask := maskFor(op.Kind, d.Field)
			h.add(fmt.Sprintf("s3client-diverges:%s:%s", opname, d.Field), fmt.Sprintf("after %s the storage behind the S3 client and the directly driven storage differ (%s): %s", op, d.API, d), true, mask)
		}
		h.r.Count("write_effects_compared(keys)", 1)
		sa := readKey(h.ctx, h.st.a, bk[0], bk[1])
		for _, d := range cmpKeyState(where, sa, s0, same, true) {
			h.add(fmt.Sprintf("s3client-diverges:%s:%s", d.API, d.Field), fmt.Sprintf("reading %s through the S3 client differs from reading the same storage directly: %s", where, d), false, "")
		}
		h.r.Count("read_views_compared(keys)", 1)
		h.r.Count("read_views_compared(versions)", int64(len(s0.Versions)))
	}
	switch op.Kind {
	case vmodel.OpMpuCreate, vmodel.OpMpuPart, vmodel.OpMpuPartCopy, vmodel.OpMpuAbort, vmodel.OpMpuComplete:
		if m.Buckets[op.Bucket] != nil {
			u0 := readUploads(h.ctx, h.st.a0, op.Bucket)
			ub := readUploads(h.ctx, h.st.b, op.Bucket)
			upMap := func(b string) string { return h.ups.toA(b) }
			for _, d := range cmpUploads(op.Bucket, u0, ub, upMap, false) {
				h.add(fmt.Sprintf("s3client-diverges:%s:uploads:%s", opname, d.Field), fmt.Sprintf("after %s the pending uploads differ: %s", op, d), true, maskFor(op.Kind, d.Field))
			}
			ua := readUploads(h.ctx, h.st.a, op.Bucket)
			for _, d := range cmpUploads(op.Bucket, ua, u0, same, true) {
				h.add(fmt.Sprintf("s3client-diverges:%s:%s", d.API, d.Field), fmt.Sprintf("listing the uploads of %s through the S3 client differs from the storage: %s", op.Bucket, d), false, "")
			}
			h.r.Count("upload_listings_compared", 1)
		}
	case vmodel.OpCreateBucket, vmodel.OpDeleteBucket, vmodel.OpVersioning:
		names := h.prof.Buckets
		b0 := readBuckets(h.ctx, h.st.a0, names)
		bb := readBuckets(h.ctx, h.st.b, names)
		for _, d := range cmpBuckets(b0, bb, names, false) {
			h.add(fmt.Sprintf("s3client-diverges:%s:%s", opname, d.Field), fmt.Sprintf("after %s the buckets differ: %s", op, d), true, maskFor(op.Kind, d.Field))
		}
		ba := readBuckets(h.ctx, h.st.a, names)
		for _, d := range cmpBuckets(ba, b0, names, true) {
			h.add(fmt.Sprintf("s3client-diverges:%s:%s", d.API, d.Field), fmt.Sprintf("bucket view through the S3 client differs from the storage: %s", d), false, "")
		}
		h.r.Count("bucket_views_compared", 1)
	}
}

// probes runs listing probes and a whole-state snapshot comparison.
func (h *c38History) probes(rng *vkit.Rand, m *vmodel.Model, final bool) {
	names := make([]string, 0, len(m.Buckets))
	for n := range m.Buckets {
		names = append(names, n)
	}
	sort.Strings(names)
	for _, bn := range names {
		prefixes := []*string{nil, vkit.Ptr("dir/"), vkit.Ptr("k"), vkit.Ptr("zz")}
		delims := []*string{nil, vkit.Ptr("/")}
		for i := 0; i < 3; i++ {
			p := listProbe{Prefix: vkit.Pick(rng, prefixes), Delimiter: vkit.Pick(rng, delims), MaxKeys: int32(vkit.Pick(rng, []int{1, 2, 1000}))}
			if rng.Chance(30) {
				p.StartAfter = vkit.Ptr(vkit.Pick(rng, h.prof.Keys))
			}
			for _, d := range cmpListObjects(h.ctx, h.st.a, h.st.a0, bn, p) {
				h.add(fmt.Sprintf("s3client-diverges:%s:%s", d.API, d.Field), "ListObjects through the S3 client differs from the storage: "+d.String(), false, "")
			}
			h.r.Count("list_objects_probes", 1)
		}
		page := int32(vkit.Pick(rng, []int{1, 2, 3}))
		for _, d := range cmpPagedVersions(h.ctx, h.st.a, h.st.a0, bn, vkit.Pick(rng, prefixes), vkit.Pick(rng, delims), page) {
			h.add(fmt.Sprintf("s3client-diverges:%s:%s", d.API, d.Field), "paged ListObjectVersions through the S3 client differs from the storage: "+d.String(), false, "")
		}
		h.r.Count("list_versions_paging_probes", 1)
	}
	h.rangeProbes(rng, m)
	if !final {
		return
	}
	// whole-state snapshots (task: snapshot of A through the client vs B, ids ignored)
	keep := map[string]bool{}
	for _, n := range h.prof.Buckets {
		keep[n] = true
	}
	snapA := restrictTo(vmodel.Snapshot(h.ctx, &uploadListFallback{Storage: h.st.a, direct: h.st.a0, r: h.r}, vmodel.SnapOptions{}), keep)
	if snapA.Err != "" {
		h.add("s3client-diverges:snapshot:"+strings.SplitN(snapA.Err, ":", 2)[0], "snapshot through the S3 client failed: "+snapA.Err, false, "")
		return
	}
	snap0 := restrictTo(vmodel.Snapshot(h.ctx, h.st.a0, vmodel.SnapOptions{}), keep)
	snapB := restrictTo(vmodel.Snapshot(h.ctx, h.st.b, vmodel.SnapOptions{}), keep)
	h.r.Count("snapshots_compared", 1)
	if d := vmodel.Diff(snap0, snapB, vmodel.DiffOptions{IgnoreIDs: true}); d != "" && !h.desync {
		h.add("s3client-diverges:final-state:"+vmodel.DiffField(d), "at the end of the history the storage behind the S3 client differs from the directly driven one: "+d, true, "")
	}
	// through the client vs the same storage: every field, ids equal
	for bi := range snap0.Buckets {
		x0 := &snap0.Buckets[bi]
		xa := findBucket(snapA, x0.Name)
		if xa == nil {
			h.add("s3client-diverges:list-buckets:bucket-set", "snapshot through the S3 client lacks bucket "+x0.Name, false, "")
			continue
		}
		if strings.Join(xa.Listed, "\n") != strings.Join(x0.Listed, "\n") {
			h.add("s3client-diverges:list-objects:objects", fmt.Sprintf("ListObjects of %s through the S3 client %v, directly %v", x0.Name, xa.Listed, x0.Listed), false, "")
		}
		am := map[string]vmodel.VersionSnap{}
		for _, v := range xa.Versions {
			am[v.Key+"@"+v.VersionID] = v
		}
		if len(xa.Versions) != len(x0.Versions) {
			h.add("s3client-diverges:list-versions:version-set", fmt.Sprintf("snapshot of %s: %d versions through the S3 client, %d directly", x0.Name, len(xa.Versions), len(x0.Versions)), false, "")
		}
		for _, v0 := range x0.Versions {
			va, ok := am[v0.Key+"@"+v0.VersionID]
			if !ok {
				continue
			}
			if va.ReadErr != v0.ReadErr {
				// an unreadable version through the client: the per-key comparison after
				// each write names the failing call; only classify here
				if strings.Contains(va.ReadErr, "head tags != GetObjectTagging") && !strings.Contains(va.ReadErr, "get:") {
					h.add("s3client-diverges:head:tags", fmt.Sprintf("snapshot through the S3 client: HeadObject tags differ from GetObjectTagging for %s/%s@%s", x0.Name, v0.Key, v0.VersionID), false, "")
				} else {
					h.r.Count("snapshot_versions_unreadable_through_client(covered by per-key comparison)", 1)
				}
				va.ReadErr, v0.ReadErr = "", ""
				va.ContentHash, v0.ContentHash = "", ""
				va.Tags, v0.Tags = "", ""
			}
			for _, d := range compareVersionFields(x0.Name, va, v0, true) {
				api := "head"
				switch d.Field {
				case "content":
					api = "get"
				case "size", "etag", "storage-class":
					api = "list-versions"
				}
				h.add(fmt.Sprintf("s3client-diverges:%s:%s", api, d.Field), "snapshot through the S3 client vs the storage: "+d.String(), false, "")
			}
			if va.IsLatest != v0.IsLatest || va.Marker != v0.Marker {
				h.add("s3client-diverges:list-versions:is-latest", fmt.Sprintf("snapshot %s/%s@%s latest/marker %v/%v vs %v/%v", x0.Name, v0.Key, v0.VersionID, va.IsLatest, va.Marker, v0.IsLatest, v0.Marker), false, "")
			}
			if sec(va.LastModified) != sec(v0.LastModified) {
				h.add("s3client-diverges:list-versions:last-modified", fmt.Sprintf("snapshot %s/%s@%s LastModified %s vs %s", x0.Name, v0.Key, v0.VersionID, sec(va.LastModified), sec(v0.LastModified)), false, "")
			}
			h.r.Count("snapshot_versions_compared", 1)
		}
		ua, u0 := fmt.Sprintf("%+v", xa.Uploads), fmt.Sprintf("%+v", x0.Uploads)
		if ua != u0 {
			h.add("s3client-diverges:list-uploads:snapshot", fmt.Sprintf("uploads of %s through the S3 client %s, directly %s", x0.Name, ua, u0), false, "")
		}
	}
}

// rangeProbes reads byte ranges (closed, open-ended, suffix, two ranges at once)
// of current objects through the S3 client and directly from its backing storage.
func (h *c38History) rangeProbes(rng *vkit.Rand, m *vmodel.Model) {
	type target struct {
		b, k string
		n    int64
	}
	var ts []target
	for _, bn := range vkit.SortedKeys(m.Buckets) {
		b := m.Buckets[bn]
		for _, k := range vkit.SortedKeys(b.Keys) {
			if cur := b.CurrentObject(k); cur != nil && len(cur.Content) >= 4 {
				ts = append(ts, target{bn, k, int64(len(cur.Content))})
			}
		}
	}
	read := func(s storage.Storage, t target, ranges []storage.ByteRange) (string, []string) {
		_, rds, err := s.GetObject(h.ctx, storage.MustNewBucketName(t.b), storage.MustNewObjectKey(t.k), ranges, nil)
		if err != nil {
			return strictKind(err) + " " + errDetail(err), nil
		}
		var out []string
		for _, rd := range rds {
			var buf bytes.Buffer
			_, rerr := buf.ReadFrom(rd)
			_ = rd.Close()
			e := ""
			if rerr != nil {
				e = " read error: " + rerr.Error()
			}
			out = append(out, vkit.Brief(buf.Bytes())+e)
		}
		return "", out
	}
	for i := 0; i < 2 && len(ts) > 0; i++ {
		t := ts[rng.Intn(len(ts))]
		st := int64(rng.Intn(int(t.n - 1)))
		en := st + 1 + int64(rng.Intn(int(t.n-st)))
		suffix := int64(1 + rng.Intn(int(t.n)))
		forms := []struct {
			name   string
			ranges []storage.ByteRange
		}{
			{"closed", []storage.ByteRange{{Start: &st, End: &en}}},
			{"open-ended", []storage.ByteRange{{Start: &st}}},
			{"suffix", []storage.ByteRange{{End: &suffix}}},
			{"two-ranges", []storage.ByteRange{{Start: &st, End: &en}, {End: &suffix}}},
			{"first-byte", []storage.ByteRange{{Start: vkit.Ptr(int64(0)), End: vkit.Ptr(int64(1))}}},
			{"last-byte", []storage.ByteRange{{Start: vkit.Ptr(t.n - 1), End: vkit.Ptr(t.n)}}},
		}
		for _, f := range forms {
			ka, ba := read(h.st.a, t, f.ranges)
			k0, b0 := read(h.st.a0, t, f.ranges)
			where := fmt.Sprintf("%s/%s (%dB) %s start=%d end=%d suffix=%d", t.b, t.k, t.n, f.name, st, en, suffix)
			switch {
			case (ka == "") != (k0 == "") || (ka != "" && strings.Fields(ka)[0] != strings.Fields(k0)[0]):
				h.add("s3client-diverges:get-range:error-kind:"+f.name, fmt.Sprintf("range read %s: via S3 client %q, directly %q", where, ka, k0), false, "")
			case strings.Join(ba, ",") != strings.Join(b0, ","):
				h.add("s3client-diverges:get-range:content:"+f.name, fmt.Sprintf("range read %s: via S3 client %v, directly %v", where, ba, b0), false, "")
			}
			h.r.Count("range_reads_compared:"+f.name, 1)
		}
	}
}

// uploadListFallback lets the whole-state snapshot through the S3 client go on
// when its ListMultipartUploads panics (reported separately): the listing is
// then taken from the backing storage.
type uploadListFallback struct {
	storage.Storage
	direct storage.Storage
	r      *vkit.Run
}

func (u *uploadListFallback) ListMultipartUploads(ctx context.Context, b storage.BucketName, o storage.ListMultipartUploadsOptions) (*storage.ListMultipartUploadsResult, error) {
	res, err := u.Storage.ListMultipartUploads(ctx, b, o)
	if err != nil && strictKind(err) == "panic" {
		u.r.Count("snapshot_upload_listings_taken_from_backing_storage(client panicked)", 1)
		return u.direct.ListMultipartUploads(ctx, b, o)
	}
	return res, err
}

// ListParts: vmodel.Snapshot asks for 10000 parts per page; the S3 protocol
// layer only accepts max-parts <= 1000 (400 otherwise), so the page size is
// clamped for the snapshot through the client.
func (u *uploadListFallback) ListParts(ctx context.Context, b storage.BucketName, k storage.ObjectKey, id storage.UploadId, o storage.ListPartsOptions) (*storage.ListPartsResult, error) {
	if o.MaxParts > 1000 {
		o.MaxParts = 1000
	}
	return u.Storage.ListParts(ctx, b, k, id, o)
}

// excluded operations (answered with ErrNotImplemented by design)
func (h *c38History) excludeByDesign(op *vmodel.Op) {
	if op.Kind == vmodel.OpCopy && op.Range != nil {
		op.Range = nil
		h.r.Count("excluded_by_design:copy-with-range(range stripped)", 1)
	}
	if op.Kind == vmodel.OpCopy && op.SrcBucket == op.Bucket && op.SrcKey == op.Key && !op.ReplaceMeta && op.Class == nil {
		// the S3 protocol layer rejects a self copy that changes nothing (InvalidRequest);
		// give it a storage class so that it is a legal request on both stacks
		op.Class = vkit.Ptr("STANDARD")
		h.r.Count("excluded_by_protocol:no-op-self-copy(storage class added)", 1)
	}
	if op.Kind == vmodel.OpTransition && op.VersionID != nil {
		op.VersionID = nil
		h.r.Count("excluded_by_design:transition-by-version-id(version id stripped)", 1)
	}
}

func runC38History(ctx context.Context, r *vkit.Run, st *c38Stacks, base *vkit.Rand, index, steps int, masks maskSet, fullTail bool) (*c38History, c38Witness) {
	rng := base.Fork(fmt.Sprintf("C38/history/%d", index))
	var prof vmodel.Profile
	if index%2 == 0 {
		prof = vmodel.GeneralProfile()
		prof.MaxBody = 300000
		prof.BigBodyPct = 1
	} else {
		prof = vmodel.MetaProfile()
	}
	prof.NoAppend = true
	delete(prof.Weights, vmodel.OpAppend)
	if index%3 == 1 {
		// every third history also works on keys that are rewritten on the way through
		// HTTP, including a pair that collides under a wrong unescaping
		prof.Keys = append(append([]string{}, prof.Keys...), "a+b", "a b", "p%20q+r s")
		prof.Name += "+special-keys"
	}
	for bi := range prof.Buckets {
		prof.Buckets[bi] = fmt.Sprintf("%s-%d", prof.Buckets[bi], index)
	}
	h := &c38History{ctx: ctx, r: r, st: st, ids: newIDMap(), ups: newIDMap(), masks: masks, prof: prof, seen: map[string]bool{}}
	m := vmodel.NewModel()
	g := vmodel.NewGen(rng.Fork("gen"), prof)
	prng := rng.Fork("probes")
	for step := 0; step < steps && !h.desync && h.abort == ""; step++ {
		var op *vmodel.Op
		for tries := 0; tries < 30; tries++ {
			op = g.Next(m)
			if masks.apply(op) {
				break
			}
			r.Count("ops_rerolled_because_masked", 1)
			op = nil
		}
		if op == nil {
			continue
		}
		if _, stop := h.step(step, op, m); stop {
			break
		}
		if !h.desync && h.abort == "" && (step+1)%20 == 0 {
			h.probes(prng, m, false)
		}
	}
	if !h.desync && h.abort == "" {
		h.probes(prng, m, true)
		r.Count("histories_completed", 1)
	}
	if h.abort != "" {
		r.Count("histories_aborted(model or storage disagreement outside C38)", 1)
		if r.SeenCount("abort_reasons") < 10 {
			r.Seen("abort_reasons", h.abort)
		}
	}
	tail := 14
	if fullTail {
		tail = 1 << 30
	}
	w := c38Witness{Index: index, Profile: prof.Name, Steps: steps, Masks: masks.list(), Tail: h.steps, Divs: h.divs}
	if len(w.Tail) > tail {
		w.Tail = w.Tail[len(w.Tail)-tail:]
	}
	c38Cleanup(ctx, st, prof.Buckets)
	return h, w
}

// step executes one operation on both stacks and compares; it returns the
// result of the directly driven storage and whether the history must end.
func (h *c38History) step(step int, op *vmodel.Op, m *vmodel.Model) (*vmodel.Result, bool) {
	ctx, st, r := h.ctx, h.st, h.r
	h.excludeByDesign(op)
	exp := m.Predict(op)
	opA := h.translate(op)
	r.Count("op:"+string(op.Kind), 1)
	r.Count("steps", 1)
	if isRead(op.Kind) {
		ra := vmodel.Exec(ctx, st.a, opA)
		r0 := vmodel.Exec(ctx, st.a0, opA)
		rb := vmodel.Exec(ctx, st.b, op)
		h.steps = append(h.steps, c38Step{N: step, Op: op.String(), ResA: resText(ra), ResB: resText(rb)})
		if k := strictKind(ra.Err); k != "" {
			r.Count("errkind_via_client:"+k, 1)
		}
		h.compareRead(op, ra, r0)
		if (strictKind(r0.Err) == "") != (strictKind(rb.Err) == "") {
			h.abort = fmt.Sprintf("step %d: direct reads of the two storages disagree (%s vs %s) although every write effect was compared", step, resText(r0), resText(rb))
			return rb, true
		}
		return rb, false
	}
	rb := vmodel.Exec(ctx, st.b, op)
	ra := vmodel.Exec(ctx, st.a, opA)
	ka, kb := strictKind(ra.Err), strictKind(rb.Err)
	h.steps = append(h.steps, c38Step{N: step, Op: op.String(), ResA: resText(ra), ResB: resText(rb)})
	if ka != "" {
		r.Count("errkind_via_client:"+ka, 1)
	}
	if kb != "" {
		r.Count("errkind_direct:"+kb, 1)
	}
	if ka != kb {
		desync := (ka == "") != (kb == "")
		mask := ""
		if desync {
			mask = failureMask(op)
		}
		h.add(fmt.Sprintf("s3client-diverges:%s:error-kind:%s->%s", op.Kind, orOK(kb), orOK(ka)), fmt.Sprintf("%s: via S3 client %s (%s), direct %s (%s)", op, orOK(ka), errDetail(ra.Err), orOK(kb), errDetail(rb.Err)), desync, mask)
		if desync {
			return rb, true
		}
	}
	if (exp.Kind == "") != (kb == "") {
		if h.scripted {
			// scripted error matrix: the storage decides, the model is only bookkeeping
			if kb == "" {
				r.Count("scripted_requests_succeeding_where_the_model_expects_failure(not applied)", 1)
			} else {
				r.Count("failing_writes_agreeing", 1)
			}
			return rb, false
		}
		h.abort = fmt.Sprintf("step %d: reference model and the directly driven storage disagree on %s (model %q, storage %q) - not a C38 matter", step, op, exp.Kind, kb)
		return rb, true
	}
	if kb != "" {
		r.Count("failing_writes_agreeing", 1)
		return rb, false
	}
	h.compareWriteResult(op, ra, rb)
	m.Apply(op, rb)
	h.afterWrite(op, m)
	return rb, h.desync
}

// failureMask names the feature to switch off when an operation succeeds on one
// stack and fails on the other.
func failureMask(op *vmodel.Op) string {
	k := string(op.Kind)
	switch {
	case op.Checksum != nil:
		return k + ":checksum"
	case op.IfMatch != nil || op.IfNoneMatchStar || op.SrcIfMatch != nil || op.SrcIfNone != nil:
		return k + ":conditional"
	}
	return k + ":*"
}

func c38Cleanup(ctx context.Context, st *c38Stacks, buckets []string) {
	for _, s := range []storage.Storage{st.a0, st.b} {
		for _, n := range buckets {
			bn := storage.MustNewBucketName(n)
			if ups, err := s.ListMultipartUploads(ctx, bn, storage.ListMultipartUploadsOptions{MaxUploads: 1000}); err == nil {
				for _, u := range ups.Uploads {
					_ = s.AbortMultipartUpload(ctx, bn, u.Key, u.UploadId)
				}
			}
			for page := 0; page < 100; page++ {
				res, err := s.ListObjectVersions(ctx, bn, storage.ListObjectVersionsOptions{MaxKeys: 1000})
				if err != nil || len(res.Versions) == 0 {
					break
				}
				for _, v := range res.Versions {
					id := v.VersionID
					_, _ = s.DeleteObject(ctx, bn, v.Key, &storage.DeleteObjectOptions{VersionID: &id})
				}
			}
			_ = s.DeleteBucket(ctx, bn)
		}
		_ = metadatapart.RunGCOnce(ctx, s)
	}
}

func runC38(tier, replay string) {
	r := vkit.Begin("C38", "exploration", tier)
	r.SetRule("every run first executes two scripted histories: the error matrix (every operation kind x every applicable failure cause) and the key scenario (21 keys of '+', space, '%', literal percent escapes, '?', '#', '&;=', outer/double spaces, non-ASCII, dot segments, '//' incl. pairs colliding under wrong/repeated unescaping, all present at once in an unversioned and a versioned bucket, each used addressed directly, as copy / copy-by-version / UploadPartCopy (whole, range, by version) / transition SOURCE, as copy and multipart DESTINATION, as multi-delete entry and listing prefix; a plain control key runs the same sequence first and only divergences the control key does not show get the key class appended to their signature). Then history = PRNG-generated operation sequence (vmodel generator, General and Meta profiles without append; buckets, versioning toggles, puts with content type/system headers/user metadata/tags/class/checksums/conditions, gets incl. ranges and version ids, heads, deletes, multi-deletes, copies with directives, multipart create/part/part-copy/complete/abort, tagging, transitions; ~20% resp. 3% deliberately failing; every third history additionally on the keys 'a+b', 'a b', 'p%20q+r s') executed step by step on A = s3client.NewStorage(SDK client, path style, SigV4) -> httptest HTTP server (SetupServer) -> metadata-part storage a0, and on B = identical fresh storage driven directly. Per write: results compared (error kind, ETag, version ids / upload ids through a learned bijection, delete-marker flags), then every touched key / upload list / bucket list is read directly from a0 and B (write effect) and through A and directly from a0 (read translation: ListObjectVersions, Head, Get, GetObjectTagging by key and by version id; LastModified to the second). Per generated read: A vs a0. Every 20 steps and at the end: ListObjects probes (prefix/delimiter/start-after/max-keys), paged ListObjectVersions; at the end vmodel snapshots of A, a0 and B. distinct = distinct (profile, op-kind bigram) pairs executed")
	r.Assume("error kind = classification by errors.Is/As against the error values exported by package storage (what a caller of storage.Storage can test for); everything else is one class 'other'")
	r.Assume("excluded by design (S3ClientStorage answers ErrNotImplemented): AppendObject (not generated), CopyObject with a byte range (range stripped), TransitionObjectStorageClass by version id (version id stripped); counts in evidence")
	r.Assume("SDK retries are switched off (RetryMaxAttempts=1) so that failing requests are not repeated; user metadata keys are generated lower-case; timestamps are compared to the second and only between A and its own backing storage")
	r.Assume("after a state-desynchronising divergence the history ends and the triggering request feature (e.g. tags on PutObject) is switched off for later histories of the run (evidence: masks) so that one finding does not hide the operations behind it")
	ctx := context.Background()
	st, err := newC38Stacks(ctx, r)
	if err != nil {
		r.Inconclusive("cannot build the two stacks: " + err.Error())
		r.Finish()
	}
	defer st.close(ctx)
	r.SetExtra("excluded_operations", []string{"append (ErrNotImplemented by design)", "copy with byte range (ErrNotImplemented by design)", "transition by version id (ErrNotImplemented by design)"})
	nh, steps := r.N(24, 300), r.N(50, 70)
	masks := maskSet{}
	const none = -100
	only := none
	if replay != "" {
		var w c38Witness
		seed, t := loadReplay(replay, &w)
		r.Seed, r.Tier = seed, t
		only, steps = w.Index, w.Steps
		for _, m := range w.Masks {
			masks[m] = true
		}
	}
	base := r.Rand()
	reported := map[string]bool{}
	examples := map[string]string{}
	for i := c38KeysIndex; i < nh || (only >= 0 && i <= only); i++ {
		if replay != "" && i != only {
			continue
		}
		cur := maskSet{}
		for k := range masks {
			cur[k] = true
		}
		var h *c38History
		var w c38Witness
		if i == c38MatrixIndex {
			h, w = runC38Matrix(ctx, r, st, cur)
		} else if i == c38KeysIndex {
			h, w = runC38Keys(ctx, r, st, cur)
		} else {
			h, w = runC38History(ctx, r, st, base, i, steps, cur, replay != "")
		}
		r.Eval("")
		prev := ""
		for _, s := range h.steps {
			k := strings.Fields(s.Op)[0]
			r.Distinct(w.Profile + "|" + prev + ">" + k)
			prev = k
		}
		for _, d := range h.divs {
			ww := w
			ww.Divs = []c38Div{d}
			r.Count("divergence:"+d.Sig, 1)
			if _, ok := examples[d.Sig]; !ok {
				examples[d.Sig] = d.What
			}
			if !reported[d.Sig] || replay != "" {
				reported[d.Sig] = true
				r.Violation(d.Sig, d.What, ww)
			}
			if d.Mask != "" && replay == "" {
				if !masks[d.Mask] {
					r.Seen("masks", d.Mask+" (because of "+d.Sig+")")
				}
				masks[d.Mask] = true
			}
		}
		if i < 2 && replay == "" {
			r.Sample(map[string]any{"history": i, "profile": w.Profile, "last_steps": firstN(w.Tail, 8)})
		}
	}
	finishReplay(r, replay)
	r.SetExtra("divergence_examples", examples)
	if replay == "" {
		if r.Counter("steps") == 0 || r.Counter("write_results_compared") == 0 || r.Counter("read_views_compared(keys)") == 0 {
			r.Inconclusive("no operation compared")
		}
		if r.Counter("histories_completed") == 0 {
			r.Inconclusive("no history ran to its end (every history stopped at a state-desynchronising divergence)")
		}
	}
	r.Finish()
}
