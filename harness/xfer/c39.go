package main

import (
	"bytes"
	"context"
	"crypto/sha256"
	"encoding/hex"
	"fmt"
	"io"
	"os"
	"path/filepath"
	"reflect"
	"sort"
	"strings"

	"github.com/prometheus/client_golang/prometheus"

	"github.com/jdillenkofer/pithos/internal/config"
	"github.com/jdillenkofer/pithos/internal/dependencyinjection"
	"github.com/jdillenkofer/pithos/internal/storage"
	storageconfig "github.com/jdillenkofer/pithos/internal/storage/config"
	"github.com/jdillenkofer/pithos/internal/storage/database"
	"github.com/jdillenkofer/pithos/internal/storage/integrity"
	"github.com/jdillenkofer/pithos/internal/storage/metadatapart"
	"github.com/jdillenkofer/pithos/internal/storage/metadatapart/partstore"
	"github.com/jdillenkofer/pithos/internal/verif/vkit"
	"github.com/jdillenkofer/pithos/internal/verif/vmodel"
)

// C39 - the integrity validator flags exactly the corrupted objects.

// exposedStorage is the harness shim that lets integrity.Validator find a part
// store: findPartStore looks for a struct field implementing PartStore, which
// no storage type of the repository has (the metadata-part storage holds a
// *NamedPartStores). Only used when ValidateAll fails on the plain storage.
type exposedStorage struct {
	storage.Storage
	partStore partstore.PartStore
}

type c39Case struct {
	Index       int    `json:"index"`
	Spec        string `json:"spec"`
	Steps       int    `json:"steps"`
	Corruptions int    `json:"corruptions"`
}

type c39Corruption struct {
	Kind     string   `json:"kind"`
	PartID   string   `json:"part_id"`
	Other    string   `json:"swapped_with,omitempty"`
	Size     int64    `json:"stored_size"`
	Detail   string   `json:"detail,omitempty"`
	Target   string   `json:"target"` // current | decoy
	Sharers  []string `json:"current_objects_referencing"`
	OtherShr []string `json:"current_objects_referencing_other,omitempty"`
}

type c39Witness struct {
	Case        c39Case         `json:"case"`
	Via         string          `json:"validator_via"`
	Corruptions []c39Corruption `json:"corruptions"`
	Object      string          `json:"object,omitempty"`
	Expected    []string        `json:"expected_reported"`
	Reported    []string        `json:"reported"`
	Result      any             `json:"validation_result,omitempty"`
	Err         string          `json:"error,omitempty"`
}

type c39Object struct {
	Bucket, Key, Version string
	Snap                 vmodel.VersionSnap
	Parts                []vmodel.PartRef
	Shape                string
	Form                 string // ETag form + part count class (classifies false positives)
}

func (o *c39Object) id() string { return o.Bucket + "/" + o.Key }

func planC39(i int, thorough bool, rng *vkit.Rand) c39Case {
	specs := []string{"fs", "sql", "zstd>fs", "tink>fs"}
	c := c39Case{Index: i, Spec: specs[i%4]}
	c.Steps = 30 + rng.Intn(70)
	switch {
	case i < 4:
		c.Corruptions = []int{2, 3, 0, 4}[i] // one clean storage in the first round
	case i%11 == 5:
		c.Corruptions = 0
	default:
		c.Corruptions = rng.Range(1, 5)
	}
	return c
}

func c39Profile(i int) vmodel.Profile {
	p := vmodel.GeneralProfile()
	p.Name = "c39-objects"
	p.Buckets = []string{fmt.Sprintf("val-a-%d", i), fmt.Sprintf("val-b-%d", i)}
	p.Keys = []string{"o1", "o2", "o3", "o4", "dir/o5", "dir/o6", "o7", "o8", "o9", "o10", "o11", "deep/er/o12"}
	p.Weights = map[vmodel.OpKind]int{
		vmodel.OpCreateBucket: 4, vmodel.OpVersioning: 2, vmodel.OpPut: 30, vmodel.OpCopy: 12, vmodel.OpAppend: 9,
		vmodel.OpMpuCreate: 5, vmodel.OpMpuPart: 9, vmodel.OpMpuPartCopy: 2, vmodel.OpMpuComplete: 6, vmodel.OpDelete: 3,
		vmodel.OpPutTags: 1, vmodel.OpTransition: 1,
	}
	p.FailPct = 1
	p.MetaPct = 15
	p.MaxBody = 70000
	p.BigBodyPct = 0
	p.Conditional = false
	return p
}

// ---------------------------------------------------------------------------
// raw access to stored part bytes

type rawAccess struct {
	env  *vkit.Env
	leaf partstore.PartStore // raw leaf store (sql stacks)
	kind string              // "fs" | "sql"
}

func (ra *rawAccess) path(partID string) string {
	id := partstore.MustNewPartIdFromString(partID)
	return filepath.Join(ra.env.FSDirs[0], hex.EncodeToString(id.Bytes()))
}

func (ra *rawAccess) read(ctx context.Context, partID string) ([]byte, error) {
	if ra.kind == "fs" {
		return os.ReadFile(ra.path(partID))
	}
	var out []byte
	err := database.WithTx(ctx, ra.env.DB, nil, func(ctx context.Context, tx database.Tx) error {
		rc, err := ra.leaf.GetPart(ctx, tx, *partstore.MustNewPartIdFromString(partID))
		if err != nil {
			return err
		}
		defer rc.Close()
		out, err = io.ReadAll(rc)
		return err
	})
	return out, err
}

func (ra *rawAccess) write(ctx context.Context, partID string, b []byte) error {
	if ra.kind == "fs" {
		return os.WriteFile(ra.path(partID), b, 0o644)
	}
	return database.WithTx(ctx, ra.env.DB, nil, func(ctx context.Context, tx database.Tx) error {
		return ra.leaf.PutPart(ctx, tx, *partstore.MustNewPartIdFromString(partID), bytes.NewReader(b))
	})
}

func (ra *rawAccess) remove(ctx context.Context, partID string) error {
	if ra.kind == "fs" {
		return os.Remove(ra.path(partID))
	}
	return database.WithTx(ctx, ra.env.DB, nil, func(ctx context.Context, tx database.Tx) error {
		return ra.leaf.DeletePart(ctx, tx, *partstore.MustNewPartIdFromString(partID))
	})
}

// ---------------------------------------------------------------------------

func shortHash(b []byte) string {
	h := sha256.Sum256(b)
	return hex.EncodeToString(h[:10])
}

// readObject reads the current version of an object through the storage API
// and says whether it still delivers exactly the bytes recorded before.
func readIntact(ctx context.Context, s storage.Storage, o *c39Object) (bool, string) {
	res := vmodel.Exec(ctx, s, &vmodel.Op{Kind: vmodel.OpGet, Bucket: o.Bucket, Key: o.Key})
	if res.Kind != "" {
		if o.Snap.Size == 0 && res.Kind == "InvalidRange" {
			return true, ""
		}
		return false, "get: " + res.Kind + " " + res.ErrText
	}
	if res.ReadErr != nil {
		return false, "read: " + res.ReadErr.Error()
	}
	if int64(len(res.Body)) != o.Snap.Size || shortHash(res.Body) != o.Snap.ContentHash {
		return false, fmt.Sprintf("content %dB:%s, written %dB:%s", len(res.Body), shortHash(res.Body), o.Snap.Size, o.Snap.ContentHash)
	}
	return true, ""
}

func validate(ctx context.Context, s storage.Storage, env *vkit.Env, via string, del bool) (*integrity.ValidationReport, error) {
	dbc := config.NewDbContainer()
	dbc.AddDb(env.DB)
	target := s
	if via == "shim" {
		nps, ok := metadatapart.NamedPartStoresOf(s)
		if !ok {
			return nil, fmt.Errorf("not a metadata-part storage")
		}
		target = &exposedStorage{Storage: s, partStore: nps.Default()}
	}
	return guardValidate(func() (*integrity.ValidationReport, error) {
		return integrity.NewValidator(target, dbc, del, del).ValidateAll(ctx)
	})
}

func failSig(err error, pass string) string {
	if strings.Contains(err.Error(), "panic in ValidateAll") {
		return "validate-all-panics:" + pass
	}
	return "validate-all-fails:" + pass
}

// guardValidate turns a panic inside the validator into an error.
func guardValidate(f func() (*integrity.ValidationReport, error)) (rep *integrity.ValidationReport, err error) {
	defer func() {
		if p := recover(); p != nil {
			rep, err = nil, fmt.Errorf("panic in ValidateAll: %v", p)
		}
	}()
	return f()
}

func failedSet(rep *integrity.ValidationReport) (map[string]integrity.ValidationResult, map[string]int) {
	failed := map[string]integrity.ValidationResult{}
	seen := map[string]int{}
	for _, res := range rep.Results {
		id := res.BucketName + "/" + res.ObjectKey
		seen[id]++
		if !res.Success {
			failed[id] = res
		}
	}
	return failed, seen
}

func runC39Case(ctx context.Context, r *vkit.Run, base *vkit.Rand, c c39Case, via *string) {
	rng := base.Fork(fmt.Sprintf("C39/case/%d", c.Index))
	env, err := vkit.OpenEnv(r.SubDir(fmt.Sprintf("c39-%d", c.Index)))
	if err != nil {
		r.Inconclusive("cannot open env: " + err.Error())
		return
	}
	defer env.Close()
	ra := &rawAccess{env: env}
	env.WrapLeaf = func(kind string, ps partstore.PartStore) partstore.PartStore {
		ra.leaf, ra.kind = ps, kind
		return ps
	}
	s, err := env.NewStorage(c.Spec, vkit.FastGC()...)
	if err != nil {
		r.Inconclusive("cannot build storage " + c.Spec + ": " + err.Error())
		return
	}
	defer func() { _ = s.Stop(ctx) }()
	plain := c.Spec == "fs" || c.Spec == "sql"
	r.Count("storages:"+c.Spec, 1)

	// ---- objects
	h := vmodel.RunHistory(ctx, vmodel.HistoryConfig{Storage: s, Rand: rng.Fork("history"), Profile: c39Profile(c.Index), Steps: c.Steps, InScope: func(vmodel.Divergence) bool { return false }})
	for k, n := range h.OpsByKind {
		r.Count("build_op:"+k, int64(n))
	}
	prof := c39Profile(c.Index)
	for _, bn := range prof.Buckets {
		_ = vmodel.Exec(ctx, s, &vmodel.Op{Kind: vmodel.OpCreateBucket, Bucket: bn})
	}
	// fixed shapes: empty object, two equal-size different bodies (swap candidates),
	// a duplicate body (dedup), a copy (shared parts), a multipart and an appended object
	b0, b1 := prof.Buckets[0], prof.Buckets[1]
	twin := rng.Bytes(3000)
	fixed := []*vmodel.Op{
		{Kind: vmodel.OpPut, Bucket: b0, Key: "fix/empty", Body: nil},
		{Kind: vmodel.OpPut, Bucket: b0, Key: "fix/eq-1", Body: rng.Bytes(4096)},
		{Kind: vmodel.OpPut, Bucket: b1, Key: "fix/eq-2", Body: rng.Bytes(4096)},
		{Kind: vmodel.OpPut, Bucket: b0, Key: "fix/twin-1", Body: twin},
		{Kind: vmodel.OpPut, Bucket: b1, Key: "fix/twin-2", Body: twin},
		{Kind: vmodel.OpCopy, Bucket: b1, Key: "fix/copy-of-eq-1", SrcBucket: b0, SrcKey: "fix/eq-1"},
		{Kind: vmodel.OpPut, Bucket: b1, Key: "fix/appended", Body: rng.Bytes(1500)},
		{Kind: vmodel.OpAppend, Bucket: b1, Key: "fix/appended", Body: rng.Bytes(2500)},
	}
	for _, op := range fixed {
		if res := vmodel.Exec(ctx, s, op); res.Kind != "" {
			r.Inconclusive(fmt.Sprintf("case %d: cannot build shape %s: %s", c.Index, op, res.ErrText))
			return
		}
	}
	// multipart objects of every checksum type, and objects SHARING stored parts with
	// them: copies whose key sorts before / after the original (same bucket and the
	// other bucket: the validator walks buckets and keys in order, so both "original
	// first" and "copy first" occur), and two uploads with one identical part body.
	multipart := func(bucket, key string, ctype *string, bodies ...[]byte) bool {
		cr := vmodel.Exec(ctx, s, &vmodel.Op{Kind: vmodel.OpMpuCreate, Bucket: bucket, Key: key, ChecksumType: ctype})
		if cr.Kind != "" {
			r.Inconclusive(fmt.Sprintf("case %d: cannot build shape %s: %s", c.Index, key, cr.ErrText))
			return false
		}
		for i, body := range bodies {
			if res := vmodel.Exec(ctx, s, &vmodel.Op{Kind: vmodel.OpMpuPart, Bucket: bucket, Key: key, UploadID: cr.UploadID, PartNumber: int32(i + 1), Body: body}); res.Kind != "" {
				r.Inconclusive(fmt.Sprintf("case %d: cannot build shape %s part %d: %s", c.Index, key, i+1, res.ErrText))
				return false
			}
		}
		if res := vmodel.Exec(ctx, s, &vmodel.Op{Kind: vmodel.OpMpuComplete, Bucket: bucket, Key: key, UploadID: cr.UploadID}); res.Kind != "" {
			r.Inconclusive(fmt.Sprintf("case %d: cannot complete shape %s: %s", c.Index, key, res.ErrText))
			return false
		}
		name := "default"
		if ctype != nil {
			name = *ctype
		}
		r.Count("fixed_multipart_objects:checksum-type="+name, 1)
		return true
	}
	part := func() []byte { return rng.Bytes(5000 + rng.Intn(4000)) }
	dedupPart := part()
	if !multipart(b0, "fix/multipart", nil, part(), part(), part()) ||
		!multipart(b0, "fix/mp-composite", vkit.Ptr("COMPOSITE"), part(), part(), part()) ||
		!multipart(b1, "fix/mp-full-object", vkit.Ptr("FULL_OBJECT"), part(), part()) ||
		!multipart(b0, "fix/mp-dedup-1", nil, dedupPart, part()) ||
		!multipart(b1, "fix/mp-dedup-2", vkit.Ptr("COMPOSITE"), part(), dedupPart) {
		return
	}
	for _, op := range []*vmodel.Op{
		{Kind: vmodel.OpCopy, Bucket: b0, Key: "fix/zz-copy-of-multipart", SrcBucket: b0, SrcKey: "fix/multipart"},
		{Kind: vmodel.OpCopy, Bucket: b0, Key: "fix/aa-copy-of-mp-composite", SrcBucket: b0, SrcKey: "fix/mp-composite"},
		{Kind: vmodel.OpCopy, Bucket: b1, Key: "fix/copy-of-mp-composite", SrcBucket: b0, SrcKey: "fix/mp-composite"},
		{Kind: vmodel.OpCopy, Bucket: b0, Key: "fix/copy-of-mp-full-object", SrcBucket: b1, SrcKey: "fix/mp-full-object"},
		{Kind: vmodel.OpCopy, Bucket: b0, Key: "fix/copy-of-appended", SrcBucket: b1, SrcKey: "fix/appended"},
	} {
		if res := vmodel.Exec(ctx, s, op); res.Kind != "" {
			r.Inconclusive(fmt.Sprintf("case %d: cannot build shape %s: %s", c.Index, op, res.ErrText))
			return
		}
	}

	s0 := vmodel.Snapshot(ctx, s, vmodel.SnapOptions{})
	if s0.Err != "" || len(s0.ReadErrors()) > 0 {
		r.Inconclusive(fmt.Sprintf("case %d: state before corruption not readable: %s %v", c.Index, s0.Err, firstN(s0.ReadErrors(), 3)))
		return
	}
	insp, err := vmodel.OpenInspector(env.Dir)
	if err != nil {
		r.Inconclusive("inspector: " + err.Error())
		return
	}
	defer insp.Close()
	allRefs, err := insp.AllPartRefs()
	if err != nil {
		r.Inconclusive("inspector: " + err.Error())
		return
	}
	var objects []*c39Object
	sharers := map[string][]*c39Object{} // part id -> current objects referencing it
	for bi := range s0.Buckets {
		b := &s0.Buckets[bi]
		r.Seen("bucket_versioning", "versioning="+b.Versioning)
		for _, v := range b.Versions {
			if v.Marker || !v.IsLatest {
				if !v.Marker {
					r.Count("noncurrent_versions(out of validator scope)", 1)
				}
				continue
			}
			parts, err := insp.PartsOf(b.Name, v.Key, v.VersionID)
			if err != nil {
				r.Inconclusive("inspector: " + err.Error())
				return
			}
			o := &c39Object{Bucket: b.Name, Key: v.Key, Version: v.VersionID, Snap: v, Parts: parts}
			shared := false
			seenPart := map[string]bool{}
			for _, p := range parts {
				if allRefs["default"][p.PartID] > 1 {
					shared = true
				}
				if !seenPart[p.PartID] {
					seenPart[p.PartID] = true
					sharers[p.PartID] = append(sharers[p.PartID], o)
				}
			}
			switch {
			case len(parts) == 0:
				o.Shape = "no-parts"
			case len(parts) == 1:
				o.Shape = "single-part"
			default:
				o.Shape = "multi-part"
			}
			o.Form = "plain-etag"
			if strings.Contains(v.ETag, "-") {
				o.Form = "multipart-etag"
				r.Count("objects_with_multipart_etag", 1)
			}
			switch {
			case len(parts) <= 1:
				o.Form += fmt.Sprintf("-%d-part", len(parts))
			default:
				o.Form += "-n-parts"
			}
			if v.Size == 0 {
				o.Shape += ",empty"
			}
			if shared {
				o.Shape += ",shared-parts"
			}
			if b.Versioning != "" {
				o.Shape += ",versioned-bucket"
			}
			r.Count("objects:"+o.Shape, 1)
			r.Count("objects", 1)
			objects = append(objects, o)
		}
	}
	if len(objects) < 5 {
		r.Inconclusive(fmt.Sprintf("case %d: only %d current objects", c.Index, len(objects)))
		return
	}
	// decoy parts: referenced by the parts table but by no current object
	var currentParts, decoyParts []string
	for id := range allRefs["default"] {
		if len(sharers[id]) > 0 {
			currentParts = append(currentParts, id)
		} else {
			decoyParts = append(decoyParts, id)
		}
	}
	sort.Strings(currentParts)
	sort.Strings(decoyParts)

	// ---- is the validator usable on the plain storage?
	if *via == "" {
		_, verr := validate(ctx, s, env, "plain", false)
		switch {
		case verr == nil:
			*via = "plain"
		case strings.Contains(verr.Error(), "could not find PartStore"):
			r.Violation("validate-all-fails:partstore-not-found", fmt.Sprintf("ValidateAll on a plain metadata-part storage (%s part store, %d objects) fails outright: %v", c.Spec, len(objects), verr), c39Witness{Case: c, Via: "plain", Err: verr.Error()})
			*via = "shim"
		default:
			r.Violation("validate-all-fails:other", "ValidateAll failed: "+verr.Error(), c39Witness{Case: c, Via: "plain", Err: verr.Error()})
			*via = "shim"
		}
	}
	r.Count("validator_via_"+*via, 1)

	// ---- corruptions
	w := c39Witness{Case: c, Via: *via}
	touched := map[string]string{} // part id -> corruption kind
	objNames := func(os []*c39Object) []string {
		var l []string
		for _, o := range os {
			l = append(l, o.id())
		}
		sort.Strings(l)
		return l
	}
	sizes := map[string]int64{}
	sizeOf := func(id string) int64 {
		if n, ok := sizes[id]; ok {
			return n
		}
		b, err := ra.read(ctx, id)
		if err != nil {
			sizes[id] = -1
			return -1
		}
		sizes[id] = int64(len(b))
		return sizes[id]
	}
	kinds := []string{"flip", "truncate", "extend", "remove", "swap"}
	// target classes: later parts of multi-part objects, parts shared by several
	// current objects, parts with an equal-size partner (swap), decoys, any
	var laterParts, sharedParts, mpSharedParts []string
	for _, o := range objects {
		for i, p := range o.Parts {
			if i > 0 {
				laterParts = append(laterParts, p.PartID)
			}
		}
	}
	for _, id := range currentParts {
		if len(sharers[id]) > 1 {
			sharedParts = append(sharedParts, id)
			// parts shared by several objects with a multipart-form ETag (multipart uploads,
			// appended objects and their copies): their object-level checksums are derived
			// from the part rows, so only the per-part check can notice the corruption
			mp := 0
			for _, o := range sharers[id] {
				if strings.HasPrefix(o.Form, "multipart-etag") {
					mp++
				}
			}
			if mp > 1 {
				mpSharedParts = append(mpSharedParts, id)
			}
		}
	}
	sort.Strings(laterParts)
	r.Count("parts_shared_by_several_multipart_etag_objects", int64(len(mpSharedParts)))
	pickFrom := func(pool []string) string {
		for tries := 0; tries < 30 && len(pool) > 0; tries++ {
			cand := pool[rng.Intn(len(pool))]
			if touched[cand] == "" && sizeOf(cand) >= 0 {
				return cand
			}
		}
		return ""
	}
	for n := 0; n < c.Corruptions; n++ {
		kind := kinds[(c.Index+n)%len(kinds)]
		target, id := "current", ""
		switch {
		case kind == "swap":
			// a part that has an equal-size partner with other bytes
			bySize := map[int64][]string{}
			for _, cand := range currentParts {
				if touched[cand] == "" && sizeOf(cand) > 0 {
					bySize[sizeOf(cand)] = append(bySize[sizeOf(cand)], cand)
				}
			}
			var cands []string
			for _, l := range bySize {
				if len(l) > 1 {
					cands = append(cands, l...)
				}
			}
			sort.Strings(cands)
			id = pickFrom(cands)
		case n == 0 && c.Index%2 == 1 && len(mpSharedParts) > 0:
			id, target = pickFrom(mpSharedParts), "current(part shared by several multipart-ETag objects)"
		case n == 0 && len(laterParts) > 0:
			id, target = pickFrom(laterParts), "current(later part of a multi-part object)"
		case n == 1 && len(sharedParts) > 0:
			id, target = pickFrom(sharedParts), "current(shared part)"
		case len(decoyParts) > 0 && rng.Chance(25):
			id, target = pickFrom(decoyParts), "decoy"
		}
		if id == "" {
			id, target = pickFrom(currentParts), "current"
		}
		if id == "" {
			continue
		}
		size := sizeOf(id)
		if size == 0 && (kind == "flip" || kind == "truncate") {
			kind = "extend"
		}
		co := c39Corruption{Kind: kind, PartID: id, Size: size, Target: target, Sharers: objNames(sharers[id])}
		data, _ := ra.read(ctx, id)
		var aerr error
		switch kind {
		case "flip":
			off := rng.Intn(len(data))
			mask := byte(1 << uint(rng.Intn(8)))
			data[off] ^= mask
			co.Detail = fmt.Sprintf("offset %d mask %#02x", off, mask)
			aerr = ra.write(ctx, id, data)
		case "truncate":
			cut := rng.Intn(len(data)) // 0..len-1
			if rng.Chance(50) {
				cut = len(data) - 1
			}
			co.Detail = fmt.Sprintf("to %d bytes", cut)
			aerr = ra.write(ctx, id, data[:cut])
		case "extend":
			extra := rng.Bytes(1 + rng.Intn(16))
			if rng.Chance(30) {
				extra = []byte{0}
			}
			co.Detail = fmt.Sprintf("by %d bytes", len(extra))
			aerr = ra.write(ctx, id, append(data, extra...))
		case "remove":
			aerr = ra.remove(ctx, id)
		case "swap":
			// another untouched part of a current object with equal stored size and other bytes
			other := ""
			for _, cand := range currentParts {
				if cand != id && touched[cand] == "" && sizeOf(cand) == size {
					ob, _ := ra.read(ctx, cand)
					if !bytes.Equal(ob, data) {
						other = cand
						break
					}
				}
			}
			if other == "" {
				co.Kind = "flip"
				if size == 0 {
					continue
				}
				off := rng.Intn(len(data))
				data[off] ^= 0x80
				co.Detail = fmt.Sprintf("offset %d mask 0x80 (no equal-size partner for a swap)", off)
				aerr = ra.write(ctx, id, data)
				break
			}
			ob, _ := ra.read(ctx, other)
			if aerr = ra.write(ctx, id, ob); aerr == nil {
				aerr = ra.write(ctx, other, data)
			}
			co.Other, co.OtherShr = other, objNames(sharers[other])
			touched[other] = "swap"
		}
		if aerr != nil {
			r.Inconclusive(fmt.Sprintf("case %d: cannot apply %s to part %s: %v", c.Index, kind, id, aerr))
			return
		}
		touched[id] = co.Kind
		w.Corruptions = append(w.Corruptions, co)
		r.Count("corruptions_applied:"+co.Kind, 1)
		r.Count("corruptions_applied_to:"+target, 1)
		r.Count("corruptions_applied", 1)
	}

	// ---- expectation per current object
	must := map[string]string{}   // object id -> corruption kinds (must be reported)
	either := map[string]string{} // touched through a transforming layer but still delivering the written bytes
	for _, o := range objects {
		var ks []string
		for _, p := range o.Parts {
			if k := touched[p.PartID]; k != "" {
				ks = append(ks, k)
			}
		}
		intact, why := readIntact(ctx, s, o)
		switch {
		case len(ks) == 0:
			if !intact {
				r.Inconclusive(fmt.Sprintf("case %d: untouched object %s does not read back intact (%s)", c.Index, o.id(), why))
				return
			}
		case plain || !intact:
			must[o.id()] = strings.Join(ks, "+")
			if !intact {
				r.Count("corrupted_objects_confirmed_by_readback", 1)
			} else {
				r.Count("corrupted_objects_still_reading_the_written_bytes(plain store)", 1)
			}
		default:
			either[o.id()] = strings.Join(ks, "+")
			r.Count("touched_objects_masked_by_layer(either verdict accepted)", 1)
		}
	}
	w.Expected = vkit.SortedKeys(must)
	r.Count("objects_expected_corrupted", int64(len(must)))
	shared := 0
	for _, co := range w.Corruptions {
		if len(co.Sharers) > 1 {
			shared++
		}
	}
	r.Count("corruptions_hitting_a_part_shared_by_several_current_objects", int64(shared))
	r.Eval(fmt.Sprintf("%s|objs=%d|corr=%s|must=%d", c.Spec, len(objects), corrKinds(w.Corruptions), len(must)))
	if c.Index < 4 {
		r.Sample(map[string]any{"case": c, "objects": len(objects), "corruptions": w.Corruptions, "expected_reported": w.Expected})
	}

	check := func(pass string, rep *integrity.ValidationReport, remaining map[string]bool) bool {
		failed, seen := failedSet(rep)
		w.Reported = vkit.SortedKeys(failed)
		ok := true
		for _, o := range objects {
			id := o.id()
			if !remaining[id] {
				if seen[id] > 0 {
					ok = false
					r.Violation("deleted-object-still-validated:"+pass, fmt.Sprintf("%s: object %s was deleted as corrupted but is listed again", pass, id), w)
				}
				continue
			}
			r.Count("object_verdicts_checked", 1)
			if seen[id] != 1 {
				ok = false
				ww := w
				ww.Object = id
				r.Violation(fmt.Sprintf("object-validated-%d-times:%s", seen[id], o.Shape), fmt.Sprintf("%s: current object %s (%s) appears %d times in the report", pass, id, o.Shape, seen[id]), ww)
				continue
			}
			_, isRep := failed[id]
			switch {
			case must[id] != "" && !isRep:
				ok = false
				ww := w
				ww.Object = id
				r.Violation(fmt.Sprintf("corrupted-object-not-reported:%s:%s", must[id], specClass(c.Spec)), fmt.Sprintf("%s: object %s (%s) references a part corrupted by %s on %s but the validator reports it as intact", pass, id, o.Shape, must[id], c.Spec), ww)
			case must[id] != "":
				r.Count("corrupted_objects_reported:"+must[id], 1)
			case either[id] != "":
				r.Count(fmt.Sprintf("masked_object_reported=%v", isRep), 1)
			case isRep:
				ok = false
				ww := w
				ww.Object = id
				ww.Result = failed[id]
				r.Violation(fmt.Sprintf("intact-object-reported:%s:%s", o.Form, errClass(failed[id])), fmt.Sprintf("%s: untouched object %s (%s, ETag %s, %dB, %d parts) on %s is reported as corrupted: %s %v %v", pass, id, o.Shape, o.Snap.ETag, o.Snap.Size, len(o.Parts), c.Spec, failed[id].ErrorType, failed[id].PartFailures, failed[id].ObjectFailures), ww)
			default:
				r.Count("intact_objects_passed", 1)
			}
		}
		for id := range seen {
			found := false
			for _, o := range objects {
				if o.id() == id {
					found = true
				}
			}
			if !found {
				ok = false
				r.Violation("unknown-object-in-report", fmt.Sprintf("%s: report lists %s which is not a current object", pass, id), w)
			}
		}
		return ok
	}
	all := map[string]bool{}
	for _, o := range objects {
		all[o.id()] = true
	}

	// ---- pass 1: report only
	rep1, err := validate(ctx, s, env, *via, false)
	if err != nil {
		r.Violation(failSig(err, "with-corruption"), fmt.Sprintf("ValidateAll (via %s) failed on %s with %d corruptions: %v", *via, c.Spec, len(w.Corruptions), err), w)
		return
	}
	r.Count("validations", 1)
	check("report-only", rep1, all)
	if rep1.DeletedObjects != 0 {
		r.Violation("report-only-deleted-objects", fmt.Sprintf("report-only pass claims %d deleted objects", rep1.DeletedObjects), w)
	}
	s1 := vmodel.Snapshot(ctx, s, vmodel.SnapOptions{SkipContent: true})
	if d := sameCurrentKeys(s0, s1); d != "" {
		r.Violation("report-only-changed-state", "report-only validation changed the set of current objects: "+d, w)
	}

	// ---- pass 2: delete corrupted (force)
	rep2, err := validate(ctx, s, env, *via, true)
	if err != nil {
		r.Violation(failSig(err, "delete-pass"), fmt.Sprintf("ValidateAll(deleteCorrupted, force) failed: %v", err), w)
		return
	}
	r.Count("validations", 1)
	check("delete-pass", rep2, all)
	failed2, _ := failedSet(rep2)
	if rep2.DeletedObjects != len(failed2) {
		r.Violation("delete-pass-count-mismatch", fmt.Sprintf("delete pass reports %d failed objects but %d deleted", len(failed2), rep2.DeletedObjects), w)
	}
	r.Count("objects_deleted_by_validator", int64(rep2.DeletedObjects))
	s2 := vmodel.Snapshot(ctx, s, vmodel.SnapOptions{})
	remaining := map[string]bool{}
	for _, o := range objects {
		id := o.id()
		b := findBucket(s2, o.Bucket)
		var cur *vmodel.VersionSnap
		if b != nil {
			if v, ok := currentObjects(b)[o.Key]; ok {
				cur = &v
			}
		}
		_, wasReported := failed2[id]
		switch {
		case must[id] != "" || (either[id] != "" && wasReported):
			if cur != nil && cur.VersionID == o.Version {
				ww := w
				ww.Object = id
				r.Violation("corrupted-object-kept:"+o.Form, fmt.Sprintf("object %s (%s) was corrupted (%s) but is still the current object after ValidateAll(deleteCorrupted, force)", id, o.Shape, must[id]), ww)
				remaining[id] = true
			} else {
				r.Count("corrupted_objects_deleted", 1)
			}
		default:
			remaining[id] = true
			if cur == nil {
				ww := w
				ww.Object = id
				r.Violation("intact-object-deleted:"+o.Form, fmt.Sprintf("intact object %s (%s, ETag "+o.Snap.ETag+") is gone after ValidateAll(deleteCorrupted, force)", id, o.Shape), ww)
				remaining[id] = false
				continue
			}
			p, q := o.Snap, *cur
			p.LastModified, q.LastModified = q.LastModified, q.LastModified
			if p != q {
				ww := w
				ww.Object = id
				ds := compareVersionFields(o.Bucket, p, q, true)
				f := "version"
				if len(ds) > 0 {
					f = ds[0].Field
				}
				r.Violation("intact-object-changed:"+f, fmt.Sprintf("intact object %s changed during ValidateAll(deleteCorrupted, force): %+v vs %+v", id, p, q), ww)
			} else {
				r.Count("intact_objects_unchanged_after_delete_pass", 1)
			}
		}
	}
	// ---- pass 3: after the deletion nothing corrupted may be left in scope
	rep3, err := validate(ctx, s, env, *via, false)
	if err != nil {
		r.Violation(failSig(err, "after-delete"), fmt.Sprintf("ValidateAll after the delete pass failed: %v", err), w)
		return
	}
	r.Count("validations", 1)
	must, either = map[string]string{}, map[string]string{}
	check("after-delete", rep3, remaining)
}

func sameCurrentKeys(a, b *vmodel.Snap) string {
	for i := range a.Buckets {
		x := &a.Buckets[i]
		y := findBucket(b, x.Name)
		if y == nil {
			return "bucket " + x.Name + " vanished"
		}
		if strings.Join(x.Listed, ",") != strings.Join(y.Listed, ",") {
			return fmt.Sprintf("bucket %s listing %v vs %v", x.Name, x.Listed, y.Listed)
		}
	}
	return ""
}

func corrKinds(cs []c39Corruption) string {
	var l []string
	for _, c := range cs {
		l = append(l, c.Kind+"@"+c.Target)
	}
	sort.Strings(l)
	return strings.Join(l, ",")
}

func specClass(spec string) string { return strings.ReplaceAll(spec, ">", "-over-") }

func errClass(res integrity.ValidationResult) string {
	switch {
	case len(res.PartFailures) > 0:
		e := res.PartFailures[0].Error
		for _, k := range []string{"GetPart failed", "Checksum calculation failed", "ETag mismatch", "CRC32C mismatch", "CRC32 mismatch", "CRC64NVME mismatch", "SHA1 mismatch", "SHA256 mismatch"} {
			if strings.Contains(e, k) {
				return "part:" + strings.ReplaceAll(k, " ", "-")
			}
		}
		return "part:other"
	case len(res.ObjectFailures) > 0:
		e := res.ObjectFailures[0]
		for _, k := range []string{"multipart ETag mismatch", "multipart CRC32C", "multipart CRC32", "multipart CRC64NVME", "multipart SHA1", "multipart SHA256", "failed to calculate multipart checksums", "object ETag mismatch", "object CRC32C", "object CRC32", "object CRC64NVME", "object SHA1", "object SHA256"} {
			if strings.Contains(e, k) {
				return "object:" + strings.ReplaceAll(k, " ", "-")
			}
		}
		return "object:other"
	}
	return "other"
}

// ---------------------------------------------------------------------------
// does any supported construction let the validator run?

const c39ConfigSQL = `{"type":"MetadataPartStorage","db":{"type":"RegisterDatabaseReference","refName":"db","db":{"type":"SqliteDatabase","dbPath":%q}},"metadataStore":{"type":"SqlMetadataStore","db":{"type":"DatabaseReference","refName":"db"}},"partStore":{"type":"SqlPartStore","db":{"type":"DatabaseReference","refName":"db"}}}`
const c39ConfigFS = `{"type":"MetadataPartStorage","db":{"type":"RegisterDatabaseReference","refName":"db","db":{"type":"SqliteDatabase","dbPath":%q}},"metadataStore":{"type":"SqlMetadataStore","db":{"type":"DatabaseReference","refName":"db"}},"partStore":{"type":"FilesystemPartStore","root":%q}}`

func probeConstructions(ctx context.Context, r *vkit.Run) {
	dir := r.SubDir("c39-constructions")
	cfgs := []struct{ name, json string }{
		{"config:MetadataPartStorage+SqlPartStore(default config)", fmt.Sprintf(c39ConfigSQL, filepath.Join(dir, "a.db"))},
		{"config:MetadataPartStorage+FilesystemPartStore", fmt.Sprintf(c39ConfigFS, filepath.Join(dir, "b.db"), filepath.Join(dir, "b-parts"))},
		{"config:PrometheusStorageMiddleware>MetadataPartStorage", `{"type":"PrometheusStorageMiddleware","innerStorage":` + fmt.Sprintf(c39ConfigSQL, filepath.Join(dir, "c.db")) + `}`},
		{"config:ConditionalStorageMiddleware>MetadataPartStorage", `{"type":"ConditionalStorageMiddleware","bucketToStorageMap":{},"defaultStorage":` + fmt.Sprintf(c39ConfigSQL, filepath.Join(dir, "d.db")) + `}`},
	}
	for _, cf := range cfgs {
		outcome := func() string {
			di, err := dependencyinjection.NewContainer()
			if err != nil {
				return "harness: " + err.Error()
			}
			if err := di.RegisterSingletonByType(reflect.TypeOf((*prometheus.Registerer)(nil)), prometheus.Registerer(prometheus.NewRegistry())); err != nil {
				return "harness: " + err.Error()
			}
			dbc := config.NewDbContainer()
			if err := di.RegisterSingletonByType(reflect.TypeOf((*config.DbContainer)(nil)), dbc); err != nil {
				return "harness: " + err.Error()
			}
			inst, err := storageconfig.CreateStorageInstantiatorFromJson([]byte(cf.json))
			if err != nil {
				return "config rejected: " + err.Error()
			}
			if err := inst.RegisterReferences(di); err != nil {
				return "config rejected: " + err.Error()
			}
			st, err := inst.Instantiate(di)
			if err != nil {
				return "config rejected: " + err.Error()
			}
			if err := st.Start(ctx); err != nil {
				return "start failed: " + err.Error()
			}
			defer func() {
				_ = st.Stop(ctx)
				for _, db := range dbc.Dbs() {
					_ = db.Close()
				}
			}()
			_ = vmodel.Exec(ctx, st, &vmodel.Op{Kind: vmodel.OpCreateBucket, Bucket: "probe"})
			if res := vmodel.Exec(ctx, st, &vmodel.Op{Kind: vmodel.OpPut, Bucket: "probe", Key: "obj", Body: []byte("probe body")}); res.Kind != "" {
				return "put failed: " + res.ErrText
			}
			rep, err := integrity.NewValidator(st, dbc, false, false).ValidateAll(ctx)
			if err != nil {
				return fmt.Sprintf("ValidateAll error: %v (storage type %T)", err, st)
			}
			return fmt.Sprintf("ValidateAll ok: %d objects, %d failed", rep.TotalObjects, rep.FailedObjects)
		}()
		r.Seen("supported_constructions", cf.name+" => "+outcome)
		switch {
		case strings.HasPrefix(outcome, "ValidateAll ok"):
			r.Count("supported_constructions_where_validator_runs", 1)
		case strings.Contains(outcome, "could not find PartStore"):
			r.Count("supported_constructions_where_validator_cannot_find_part_store", 1)
			r.Violation("validate-all-fails:partstore-not-found", "ValidateAll on a storage built from the JSON storage configuration ("+cf.name+") fails: "+outcome, map[string]any{"construction": cf.name, "config": cf.json, "outcome": outcome})
		default:
			r.Count("supported_constructions_probe_other_outcome", 1)
		}
	}
}

func runC39(tier, replay string) {
	r := vkit.Begin("C39", "exploration", tier)
	r.SetRule("case = one fresh metadata-part storage (part stores fs, sql, zstd>fs, tink>fs in rotation) filled by a vmodel-generated history (puts, copies sharing parts, dedup-identical bodies, appends, multipart uploads, versioned buckets, deletes) plus fixed shapes (empty object, equal-size twins, duplicate body, copy, appended and its copy, multipart objects of checksum type default / COMPOSITE / FULL_OBJECT, copies of those sorting before and after the original in the same and the other bucket = shared parts validated in both orders, two uploads with one dedup-identical part), then 0-5 corruptions of stored part bytes applied below the storage (fs: the part file; sql: the part_contents rows through the raw store): flip one bit, truncate, extend, remove, swap with an equal-size part of another object; some corruptions aim at decoy parts no current object references, in every second case the first one at a part shared by several multipart-ETag objects. Expected report = exactly the current objects referencing a corrupted part; ValidateAll is run report-only, with deleteCorrupted+force, and once more afterwards. distinct = distinct (part store, object count, corruption kinds+targets, expected count)")
	r.Assume("object->part references are read from the parts table (read-only SQL); for transforming part stores (zstd, tink) an object touched by a corruption but still delivering exactly the written bytes through GetObject may be reported either way (counted), every other touched object must be reported")
	r.Assume("when ValidateAll cannot find a part store on the plain storage (recorded finding) the validator is driven through a harness struct exposing the storage's default part store as a field, so that the detection logic is still exercised; no storage type of the repository offers such a field")
	ctx := context.Background()
	only := -1
	if replay != "" {
		var w c39Witness
		seed, t := loadReplay(replay, &w)
		r.Seed, r.Tier = seed, t
		only = w.Case.Index
	}
	base := r.Rand()
	if replay == "" {
		probeConstructions(ctx, r)
	}
	via := ""
	n := r.N(20, 200)
	for i := 0; i < n || (only >= 0 && i <= only); i++ {
		if only >= 0 && i != only {
			continue
		}
		runC39Case(ctx, r, base, planC39(i, r.Thorough(), base.Fork(fmt.Sprintf("C39/plan/%d", i))), &via)
	}
	finishReplay(r, replay)
	if replay == "" {
		if r.Counter("validations") == 0 {
			r.Inconclusive("the validator never ran")
		}
		if r.Counter("corruptions_applied") == 0 || r.Counter("objects_expected_corrupted") == 0 {
			r.Inconclusive("no corruption applied to a part of a current object")
		}
	}
	r.Finish()
}
