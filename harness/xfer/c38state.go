package main

import (
	"context"
	"crypto/sha256"
	"encoding/hex"
	"errors"
	"fmt"
	"io"
	"sort"
	"strings"
	"time"

	"github.com/aws/smithy-go"

	"github.com/jdillenkofer/pithos/internal/storage"
	"github.com/jdillenkofer/pithos/internal/verif/vkit"
)

// ---------------------------------------------------------------------------
// error kinds = the error vocabulary of the storage.Storage API (sentinels
// exported by package storage and its two typed delete-marker errors). Errors
// outside that vocabulary are one class ("other").

var storageSentinels = []struct {
	e error
	k string
}{
	{storage.ErrNoSuchBucket, "NoSuchBucket"}, {storage.ErrNoSuchKey, "NoSuchKey"},
	{storage.ErrBucketAlreadyExists, "BucketAlreadyExists"}, {storage.ErrBucketNotEmpty, "BucketNotEmpty"},
	{storage.ErrPreconditionFailed, "PreconditionFailed"}, {storage.ErrBadDigest, "BadDigest"},
	{storage.ErrInvalidPart, "InvalidPart"}, {storage.ErrInvalidPartOrder, "InvalidPartOrder"},
	{storage.ErrTooManyParts, "TooManyParts"}, {storage.ErrInvalidWriteOffset, "InvalidWriteOffset"},
	{storage.ErrInvalidRange, "InvalidRange"}, {storage.ErrNotModified, "NotModified"},
	{storage.ErrInvalidStorageClass, "InvalidStorageClass"}, {storage.ErrNotImplemented, "NotImplemented"},
	{storage.ErrEntityTooLarge, "EntityTooLarge"}, {storage.ErrInvalidTag, "InvalidTag"},
	{storage.ErrMetadataTooLarge, "MetadataTooLarge"}, {storage.ErrInvalidBucketName, "InvalidBucketName"},
	{storage.ErrInvalidObjectKey, "InvalidObjectKey"}, {storage.ErrInvalidUploadId, "InvalidUploadId"},
}

func strictKind(err error) string {
	if err == nil {
		return ""
	}
	var pe *panicError
	if errors.As(err, &pe) {
		return "panic"
	}
	var dm *storage.CurrentDeleteMarkerError
	if errors.As(err, &dm) {
		return "DeleteMarker"
	}
	var mna *storage.VersionDeleteMarkerMethodNotAllowedError
	if errors.As(err, &mna) {
		return "MethodNotAllowed"
	}
	for _, c := range storageSentinels {
		if errors.Is(err, c.e) {
			return c.k
		}
	}
	return "other"
}

// errDetail renders an error for witnesses (API error code when there is one).
func errDetail(err error) string {
	if err == nil {
		return ""
	}
	var pe *panicError
	if errors.As(err, &pe) {
		return pe.Error()
	}
	var ae smithy.APIError
	if errors.As(err, &ae) {
		return "api error " + ae.ErrorCode() + ": " + ae.ErrorMessage()
	}
	s := err.Error()
	if len(s) > 200 {
		s = s[:200]
	}
	return s
}

// ---------------------------------------------------------------------------
// rendering helpers (same shapes as vmodel's snapshot strings)

func tagString(t map[string]string) string {
	var b strings.Builder
	for _, k := range vkit.SortedKeys(t) {
		fmt.Fprintf(&b, "%s=%s;", k, t[k])
	}
	return b.String()
}

func renderMeta(m storage.ObjectMetadata) string {
	s := ""
	add := func(n string, p *string) {
		if p != nil {
			s += n + "=" + *p + ";"
		}
	}
	add("cc", m.CacheControl)
	add("cd", m.ContentDisposition)
	add("ce", m.ContentEncoding)
	add("cl", m.ContentLanguage)
	add("ex", m.Expires)
	add("wr", m.WebsiteRedirectLocation)
	return s + "user{" + tagString(m.UserMetadata) + "}"
}

func classOf(c *string) string {
	if c == nil || *c == "" {
		return "STANDARD"
	}
	return *c
}

func sec(t time.Time) string {
	if t.IsZero() {
		return "zero"
	}
	return t.UTC().Truncate(time.Second).Format(time.RFC3339)
}

// ---------------------------------------------------------------------------
// per-key state through one storage

// objView is what one Head/Get/GetObjectTagging (key-only or by version id) shows.
type objView struct {
	HeadKind   string
	HeadErr    string
	Size       int64
	ETag       string
	CT         string
	Meta       string
	Tags       string // Object.Tags of HeadObject
	Class      string
	VID        string
	Marker     bool
	LM         time.Time
	TagsKind   string
	TagsErr    string
	TagSet     string // GetObjectTagging
	GetKind    string
	GetErr     string
	GetLen     int64
	GetHash    string
	GetReadErr string
	GetETag    string
	GetVID     string
}

type verView struct {
	ID     string
	Marker bool
	Latest bool
	Size   int64
	ETag   string
	Class  string
	LM     time.Time
	View   objView
}

type keyState struct {
	ListKind string
	ListErr  string
	Versions []verView // ascending by version id, "null" first
	Current  objView   // key-only addressing
}

func viewOf(ctx context.Context, s storage.Storage, b storage.BucketName, k storage.ObjectKey, vid *string, withBody bool) objView {
	var v objView
	var ho *storage.HeadObjectOptions
	var gopt *storage.GetObjectOptions
	var to *storage.ObjectTaggingOptions
	if vid != nil {
		ho = &storage.HeadObjectOptions{VersionID: vid}
		gopt = &storage.GetObjectOptions{VersionID: vid}
		to = &storage.ObjectTaggingOptions{VersionID: vid}
	}
	o, err := s.HeadObject(ctx, b, k, ho)
	v.HeadKind, v.HeadErr = strictKind(err), errDetail(err)
	if err == nil && o != nil {
		v.Size, v.ETag, v.Class, v.Marker, v.LM = o.Size, o.ETag, classOf(o.StorageClass), o.IsDeleteMarker, o.LastModified
		v.CT = vkit.Deref(o.ContentType)
		v.Meta = renderMeta(o.Metadata)
		v.Tags = tagString(o.Tags)
		v.VID = vkit.Deref(o.VersionID)
	}
	t, err := s.GetObjectTagging(ctx, b, k, to)
	v.TagsKind, v.TagsErr = strictKind(err), errDetail(err)
	if err == nil {
		v.TagSet = tagString(t)
	}
	if withBody {
		g, rds, err := s.GetObject(ctx, b, k, nil, gopt)
		v.GetKind, v.GetErr = strictKind(err), errDetail(err)
		if err == nil {
			h := sha256.New()
			for _, rd := range rds {
				n, rerr := io.Copy(h, rd)
				v.GetLen += n
				if rerr != nil && v.GetReadErr == "" {
					v.GetReadErr = rerr.Error()
				}
				_ = rd.Close()
			}
			v.GetHash = hex.EncodeToString(h.Sum(nil)[:10])
			if g != nil {
				v.GetETag, v.GetVID = g.ETag, vkit.Deref(g.VersionID)
			}
		}
	}
	return v
}

func readKey(ctx context.Context, s storage.Storage, bucket, key string) keyState {
	var ks keyState
	b, k := storage.MustNewBucketName(bucket), storage.MustNewObjectKey(key)
	prefix := key
	res, err := s.ListObjectVersions(ctx, b, storage.ListObjectVersionsOptions{Prefix: &prefix, MaxKeys: 1000})
	ks.ListKind, ks.ListErr = strictKind(err), errDetail(err)
	if err == nil {
		for _, v := range res.Versions {
			if v.Key.String() != key {
				continue
			}
			vv := verView{ID: v.VersionID, Marker: v.IsDeleteMarker, Latest: v.IsLatest, Size: v.Size, ETag: vkit.Deref(v.ETag), Class: classOf(v.StorageClass), LM: v.LastModified}
			id := v.VersionID
			vv.View = viewOf(ctx, s, b, k, &id, !v.IsDeleteMarker)
			ks.Versions = append(ks.Versions, vv)
		}
		sort.SliceStable(ks.Versions, func(i, j int) bool { return verLess(ks.Versions[i].ID, ks.Versions[j].ID) })
	}
	ks.Current = viewOf(ctx, s, b, k, nil, true)
	return ks
}

// verLess orders version ids by creation: "null" first, then ULIDs ascending.
func verLess(a, b string) bool {
	if a == "null" || b == "null" {
		return a == "null" && b != "null"
	}
	return a < b
}

// fdiff is one differing observable.
type fdiff struct {
	API   string `json:"api"`   // which call showed it (list-versions, head, get-tagging, get)
	Field string `json:"field"` // which field
	Where string `json:"where"`
	A     string `json:"a"`
	B     string `json:"b"`
}

func (d fdiff) String() string {
	return fmt.Sprintf("%s:%s at %s: %s | %s", d.API, d.Field, d.Where, d.A, d.B)
}

// cmpView compares two object views. mapB translates version ids of the second
// view into the id space of the first ("" = same space). lm says whether
// LastModified is comparable (same underlying storage) - to second precision.
func cmpView(where string, x, y objView, mapB func(string) string, lm bool) (ds []fdiff) {
	add := func(api, field, a, b string) { ds = append(ds, fdiff{api, field, where, a, b}) }
	if x.HeadKind != y.HeadKind {
		add("head", "error-kind:"+orOK(y.HeadKind)+"->"+orOK(x.HeadKind), x.HeadKind+" "+x.HeadErr, y.HeadKind+" "+y.HeadErr)
	} else if x.HeadKind == "" {
		if x.Size != y.Size {
			add("head", "size", fmt.Sprint(x.Size), fmt.Sprint(y.Size))
		}
		if x.ETag != y.ETag {
			add("head", "etag", x.ETag, y.ETag)
		}
		if x.CT != y.CT {
			add("head", "content-type", fmt.Sprintf("%q", x.CT), fmt.Sprintf("%q", y.CT))
		}
		for _, f := range metaDiffs(x.Meta, y.Meta) {
			add("head", f, x.Meta, y.Meta)
		}
		if x.Tags != y.Tags {
			add("head", "tags", x.Tags, y.Tags)
		}
		if x.Class != y.Class {
			add("head", "storage-class", x.Class, y.Class)
		}
		if x.VID != mapB(y.VID) {
			add("head", "version-id", x.VID, y.VID+"(->"+mapB(y.VID)+")")
		}
		if x.Marker != y.Marker {
			add("head", "delete-marker", fmt.Sprint(x.Marker), fmt.Sprint(y.Marker))
		}
		if lm && sec(x.LM) != sec(y.LM) {
			add("head", "last-modified", sec(x.LM), sec(y.LM))
		}
	}
	if x.TagsKind != y.TagsKind {
		add("get-tagging", "error-kind:"+orOK(y.TagsKind)+"->"+orOK(x.TagsKind), x.TagsKind+" "+x.TagsErr, y.TagsKind+" "+y.TagsErr)
	} else if x.TagsKind == "" && x.TagSet != y.TagSet {
		add("get-tagging", "tags", x.TagSet, y.TagSet)
	}
	if x.GetKind != y.GetKind {
		add("get", "error-kind:"+orOK(y.GetKind)+"->"+orOK(x.GetKind), x.GetKind+" "+x.GetErr, y.GetKind+" "+y.GetErr)
	} else if x.GetKind == "" {
		if x.GetHash != y.GetHash || x.GetLen != y.GetLen {
			add("get", "content", fmt.Sprintf("%dB:%s", x.GetLen, x.GetHash), fmt.Sprintf("%dB:%s", y.GetLen, y.GetHash))
		}
		if x.GetReadErr != y.GetReadErr {
			add("get", "read-error", x.GetReadErr, y.GetReadErr)
		}
		if x.GetVID != mapB(y.GetVID) {
			add("get", "version-id", x.GetVID, y.GetVID+"(->"+mapB(y.GetVID)+")")
		} else if x.GetETag != y.GetETag {
			add("get", "etag", x.GetETag, y.GetETag)
		}
	}
	return
}

func orOK(k string) string {
	if k == "" {
		return "ok"
	}
	return k
}

func cmpKeyState(where string, x, y keyState, mapB func(string) string, lm bool) (ds []fdiff) {
	add := func(api, field, w, a, b string) { ds = append(ds, fdiff{api, field, w, a, b}) }
	if x.ListKind != y.ListKind {
		add("list-versions", "error-kind:"+orOK(y.ListKind)+"->"+orOK(x.ListKind), where, x.ListKind+" "+x.ListErr, y.ListKind+" "+y.ListErr)
	} else if x.ListKind == "" {
		ym := map[string]verView{}
		for _, v := range y.Versions {
			ym[mapB(v.ID)] = v
		}
		ids := func(vs []verView, m func(string) string) string {
			var l []string
			for _, v := range vs {
				l = append(l, m(v.ID))
			}
			sort.Strings(l)
			return strings.Join(l, ",")
		}
		if ids(x.Versions, func(s string) string { return s }) != ids(y.Versions, mapB) {
			add("list-versions", "version-set", where, ids(x.Versions, func(s string) string { return s }), ids(y.Versions, mapB))
		}
		for _, p := range x.Versions {
			q, ok := ym[p.ID]
			if !ok {
				continue
			}
			w := where + "@" + p.ID
			if p.Marker != q.Marker {
				add("list-versions", "delete-marker", w, fmt.Sprint(p.Marker), fmt.Sprint(q.Marker))
			}
			if p.Latest != q.Latest {
				add("list-versions", "is-latest", w, fmt.Sprint(p.Latest), fmt.Sprint(q.Latest))
			}
			if !p.Marker && !q.Marker {
				if p.Size != q.Size {
					add("list-versions", "size", w, fmt.Sprint(p.Size), fmt.Sprint(q.Size))
				}
				if p.ETag != q.ETag {
					add("list-versions", "etag", w, p.ETag, q.ETag)
				}
				if p.Class != q.Class {
					add("list-versions", "storage-class", w, p.Class, q.Class)
				}
			}
			if lm && sec(p.LM) != sec(q.LM) {
				add("list-versions", "last-modified", w, sec(p.LM), sec(q.LM))
			}
			ds = append(ds, cmpView(w, p.View, q.View, mapB, lm)...)
		}
	}
	ds = append(ds, cmpView(where+"(current)", x.Current, y.Current, mapB, lm)...)
	return
}

// ---------------------------------------------------------------------------
// multipart uploads of a bucket

type uploadView struct {
	Key, ID, Class string
	Initiated      time.Time
	PartsKind      string
	Parts          string
	PartsClass     string
}

type uploadsState struct {
	Kind, Err string
	Uploads   []uploadView
}

func readUploads(ctx context.Context, s storage.Storage, bucket string) uploadsState {
	var us uploadsState
	b := storage.MustNewBucketName(bucket)
	res, err := s.ListMultipartUploads(ctx, b, storage.ListMultipartUploadsOptions{MaxUploads: 1000})
	us.Kind, us.Err = strictKind(err), errDetail(err)
	if err != nil {
		return us
	}
	for _, u := range res.Uploads {
		uv := uploadView{Key: u.Key.String(), ID: u.UploadId.String(), Class: classOf(u.StorageClass), Initiated: u.Initiated}
		lp, err := s.ListParts(ctx, b, u.Key, u.UploadId, storage.ListPartsOptions{MaxParts: 1000})
		uv.PartsKind = strictKind(err)
		if err == nil {
			for _, p := range lp.Parts {
				uv.Parts += fmt.Sprintf("%d:%d:%s,", p.PartNumber, p.Size, p.ETag)
			}
			uv.PartsClass = classOf(lp.StorageClass)
		}
		us.Uploads = append(us.Uploads, uv)
	}
	return us
}

func cmpUploads(where string, x, y uploadsState, mapB func(string) string, lm bool) (ds []fdiff) {
	add := func(api, field, w, a, b string) { ds = append(ds, fdiff{api, field, w, a, b}) }
	if x.Kind != y.Kind {
		add("list-uploads", "error-kind:"+orOK(y.Kind)+"->"+orOK(x.Kind), where, x.Kind+" "+x.Err, y.Kind+" "+y.Err)
		return
	}
	ym := map[string]uploadView{}
	var xi, yi []string
	for _, u := range y.Uploads {
		ym[mapB(u.ID)] = u
		yi = append(yi, u.Key+"#"+mapB(u.ID))
	}
	for _, u := range x.Uploads {
		xi = append(xi, u.Key+"#"+u.ID)
	}
	// order is part of the listing contract (key, upload id ascending) only
	// within one id space; compare as sets across spaces
	sx, sy := append([]string{}, xi...), append([]string{}, yi...)
	sort.Strings(sx)
	sort.Strings(sy)
	if strings.Join(sx, ",") != strings.Join(sy, ",") {
		add("list-uploads", "upload-set", where, strings.Join(sx, ","), strings.Join(sy, ","))
	} else if lm && strings.Join(xi, ",") != strings.Join(yi, ",") {
		add("list-uploads", "order", where, strings.Join(xi, ","), strings.Join(yi, ","))
	}
	for _, p := range x.Uploads {
		q, ok := ym[p.ID]
		if !ok {
			continue
		}
		w := where + "#" + p.ID
		if p.Class != q.Class {
			add("list-uploads", "storage-class", w, p.Class, q.Class)
		}
		if lm && sec(p.Initiated) != sec(q.Initiated) {
			add("list-uploads", "initiated", w, sec(p.Initiated), sec(q.Initiated))
		}
		if p.PartsKind != q.PartsKind {
			add("list-parts", "error-kind:"+orOK(q.PartsKind)+"->"+orOK(p.PartsKind), w, p.PartsKind, q.PartsKind)
		} else if p.PartsKind == "" {
			if p.Parts != q.Parts {
				add("list-parts", "parts", w, p.Parts, q.Parts)
			}
			if p.PartsClass != q.PartsClass {
				add("list-parts", "storage-class", w, p.PartsClass, q.PartsClass)
			}
		}
	}
	return
}

// ---------------------------------------------------------------------------
// buckets

type bucketsState struct {
	Kind    string
	Names   []string
	Created map[string]time.Time
	Vers    map[string]string // bucket -> versioning status or "ERR:<kind>"
	Head    map[string]string // bucket -> HeadBucket error kind
}

func readBuckets(ctx context.Context, s storage.Storage, names []string) bucketsState {
	bs := bucketsState{Created: map[string]time.Time{}, Vers: map[string]string{}, Head: map[string]string{}}
	want := map[string]bool{}
	for _, n := range names {
		want[n] = true
	}
	l, err := s.ListBuckets(ctx)
	bs.Kind = strictKind(err)
	for _, b := range l {
		if want[b.Name.String()] {
			bs.Names = append(bs.Names, b.Name.String())
			bs.Created[b.Name.String()] = b.CreationDate
		}
	}
	for _, n := range names {
		bn := storage.MustNewBucketName(n)
		vc, err := s.GetBucketVersioningConfiguration(ctx, bn)
		switch {
		case err != nil:
			bs.Vers[n] = "ERR:" + strictKind(err)
		case vc == nil || vc.Status == nil:
			bs.Vers[n] = ""
		default:
			bs.Vers[n] = string(*vc.Status)
		}
		_, err = s.HeadBucket(ctx, bn)
		bs.Head[n] = strictKind(err)
	}
	return bs
}

func cmpBuckets(x, y bucketsState, names []string, lm bool) (ds []fdiff) {
	add := func(api, field, w, a, b string) { ds = append(ds, fdiff{api, field, w, a, b}) }
	if x.Kind != y.Kind {
		add("list-buckets", "error-kind:"+orOK(y.Kind)+"->"+orOK(x.Kind), "", x.Kind, y.Kind)
	} else if strings.Join(x.Names, ",") != strings.Join(y.Names, ",") {
		add("list-buckets", "bucket-set", "", strings.Join(x.Names, ","), strings.Join(y.Names, ","))
	}
	for _, n := range names {
		if x.Vers[n] != y.Vers[n] {
			add("get-versioning", "status", n, x.Vers[n], y.Vers[n])
		}
		if x.Head[n] != y.Head[n] {
			add("head-bucket", "error-kind:"+orOK(y.Head[n])+"->"+orOK(x.Head[n]), n, x.Head[n], y.Head[n])
		}
		if lm {
			if tx, ok := x.Created[n]; ok {
				if ty, ok2 := y.Created[n]; ok2 && sec(tx) != sec(ty) {
					add("list-buckets", "creation-date", n, sec(tx), sec(ty))
				}
			}
		}
	}
	return
}

// ---------------------------------------------------------------------------
// listing probes (A through the S3 client vs the same storage directly)

type listProbe struct {
	Prefix, Delimiter, StartAfter *string
	MaxKeys                       int32
}

func (p listProbe) String() string {
	return fmt.Sprintf("prefix=%q delimiter=%q start-after=%q max-keys=%d", vkit.Deref(p.Prefix), vkit.Deref(p.Delimiter), vkit.Deref(p.StartAfter), p.MaxKeys)
}

func listObjectsView(ctx context.Context, s storage.Storage, bucket string, p listProbe) (kind string, objs []string, prefixes []string, truncated bool) {
	res, err := s.ListObjects(ctx, storage.MustNewBucketName(bucket), storage.ListObjectsOptions{Prefix: p.Prefix, Delimiter: p.Delimiter, StartAfter: p.StartAfter, MaxKeys: p.MaxKeys})
	if err != nil {
		return strictKind(err), nil, nil, false
	}
	for _, o := range res.Objects {
		objs = append(objs, fmt.Sprintf("%s|%d|%s|%s|%s", o.Key.String(), o.Size, o.ETag, classOf(o.StorageClass), sec(o.LastModified)))
	}
	return "", objs, res.CommonPrefixes, res.IsTruncated
}

func cmpListObjects(ctx context.Context, a, a0 storage.Storage, bucket string, p listProbe) (ds []fdiff) {
	where := bucket + " " + p.String()
	ka, oa, pa, ta := listObjectsView(ctx, a, bucket, p)
	k0, o0, p0, t0 := listObjectsView(ctx, a0, bucket, p)
	add := func(field, x, y string) { ds = append(ds, fdiff{"list-objects", field, where, x, y}) }
	if ka != k0 {
		add("error-kind:"+orOK(k0)+"->"+orOK(ka), ka, k0)
		return
	}
	if strings.Join(oa, "\n") != strings.Join(o0, "\n") {
		add("objects", strings.Join(oa, " "), strings.Join(o0, " "))
	}
	if strings.Join(pa, "\n") != strings.Join(p0, "\n") {
		field := "common-prefixes" // on a page cut by max-keys
		if !t0 {
			field = "common-prefixes:complete-page"
		}
		add(field, strings.Join(pa, " "), strings.Join(p0, " "))
	}
	if ta != t0 {
		add("is-truncated", fmt.Sprint(ta), fmt.Sprint(t0))
	}
	return
}

// pagedVersions walks ListObjectVersions with a small page size.
func pagedVersions(ctx context.Context, s storage.Storage, bucket string, prefix, delimiter *string, page int32) (kind string, lines []string, pages int) {
	b := storage.MustNewBucketName(bucket)
	var km, vm *string
	for pages = 0; pages < 200; pages++ {
		res, err := s.ListObjectVersions(ctx, b, storage.ListObjectVersionsOptions{Prefix: prefix, Delimiter: delimiter, KeyMarker: km, VersionIDMarker: vm, MaxKeys: page})
		if err != nil {
			return strictKind(err), lines, pages
		}
		for _, v := range res.Versions {
			lines = append(lines, fmt.Sprintf("%s@%s marker=%v latest=%v %d %s %s %s", v.Key.String(), v.VersionID, v.IsDeleteMarker, v.IsLatest, v.Size, vkit.Deref(v.ETag), classOf(v.StorageClass), sec(v.LastModified)))
		}
		for _, cp := range res.CommonPrefixes {
			lines = append(lines, "prefix "+cp)
		}
		lines = append(lines, fmt.Sprintf("-- page end truncated=%v", res.IsTruncated))
		if !res.IsTruncated {
			return "", lines, pages + 1
		}
		if res.NextKeyMarker == nil && res.NextVersionIDMarker == nil {
			lines = append(lines, "-- truncated without next markers")
			return "", lines, pages + 1
		}
		km, vm = res.NextKeyMarker, res.NextVersionIDMarker
	}
	return "", append(lines, "-- did not terminate"), pages
}

func cmpPagedVersions(ctx context.Context, a, a0 storage.Storage, bucket string, prefix, delimiter *string, page int32) (ds []fdiff) {
	where := fmt.Sprintf("%s prefix=%q delimiter=%q max-keys=%d", bucket, vkit.Deref(prefix), vkit.Deref(delimiter), page)
	ka, la, _ := pagedVersions(ctx, a, bucket, prefix, delimiter, page)
	k0, l0, _ := pagedVersions(ctx, a0, bucket, prefix, delimiter, page)
	if ka != k0 {
		return []fdiff{{"list-versions", "error-kind:" + orOK(k0) + "->" + orOK(ka), where, ka, k0}}
	}
	split := func(lines []string) (vers, prefixes []string, pages string) {
		n := 0
		seen := map[string]bool{}
		for _, l := range lines {
			switch {
			case strings.HasPrefix(l, "-- "):
				pages += fmt.Sprintf("%d,", n)
				n = 0
				if !strings.HasPrefix(l, "-- page end") {
					pages += l
				}
			case strings.HasPrefix(l, "prefix "):
				if !seen[l] {
					seen[l] = true
					prefixes = append(prefixes, l)
				}
			default:
				vers = append(vers, l)
				n++
			}
		}
		return
	}
	va, pa, ga := split(la)
	v0, p0, g0 := split(l0)
	sorted := func(l []string) string {
		c := append([]string{}, l...)
		sort.Strings(c)
		return strings.Join(c, "\n")
	}
	firstDiff := func(x, y []string) (string, string) {
		i := 0
		for i < len(x) && i < len(y) && x[i] == y[i] {
			i++
		}
		a, b := "<end>", "<end>"
		if i < len(x) {
			a = x[i]
		}
		if i < len(y) {
			b = y[i]
		}
		return fmt.Sprintf("entry %d: %s", i, a), fmt.Sprintf("entry %d: %s", i, b)
	}
	switch {
	case sorted(va) != sorted(v0):
		// entries lost, duplicated or different - independent of their order
		sa, s0 := strings.Split(sorted(va), "\n"), strings.Split(sorted(v0), "\n")
		x, y := firstDiff(sa, s0)
		ds = append(ds, fdiff{"list-versions", "paged-entries", where, fmt.Sprintf("%d entries, %s", len(va), x), fmt.Sprintf("%d entries, %s", len(v0), y)})
	case strings.Join(va, "\n") != strings.Join(v0, "\n"):
		x, y := firstDiff(va, v0)
		ds = append(ds, fdiff{"list-versions", "paged-listing", where, x, y})
	}
	if sorted(pa) != sorted(p0) {
		ds = append(ds, fdiff{"list-versions", "paged-listing-with-delimiter", where, strings.Join(pa, " "), strings.Join(p0, " ")})
	}
	if ga != g0 {
		ds = append(ds, fdiff{"list-versions", "page-boundaries", where, ga, g0})
	}
	return ds
}
