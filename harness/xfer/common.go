package main

import (
	"encoding/json"
	"fmt"
	"os"
	"sort"
	"strings"

	"github.com/jdillenkofer/pithos/internal/storage"
	"github.com/jdillenkofer/pithos/internal/verif/vkit"
	"github.com/jdillenkofer/pithos/internal/verif/vmodel"
)

// loadReplay reads {seed,tier,witness} of a replay file.
func loadReplay(path string, witness any) (seed uint64, tier string) {
	b, err := os.ReadFile(path)
	if err != nil {
		fmt.Println("cannot read replay:", err)
		os.Exit(3)
	}
	var w struct {
		Seed    uint64          `json:"seed"`
		Tier    string          `json:"tier"`
		Witness json.RawMessage `json:"witness"`
	}
	if err := json.Unmarshal(b, &w); err != nil {
		fmt.Println("bad replay file:", err)
		os.Exit(3)
	}
	if err := json.Unmarshal(w.Witness, witness); err != nil {
		fmt.Println("bad witness:", err)
		os.Exit(3)
	}
	return w.Seed, w.Tier
}

func finishReplay(r *vkit.Run, replay string) {
	if replay == "" {
		return
	}
	if r.Violations() > 0 {
		fmt.Println("replay: reproduced")
	} else {
		fmt.Println("replay: not reproduced")
	}
}

// openStore opens a fresh SQLite env in a sub directory and builds a started
// metadata-part storage over the given part-store spec.
func openStore(r *vkit.Run, name, spec string) (*vkit.Env, storage.Storage, error) {
	env, err := vkit.OpenEnv(r.SubDir(name))
	if err != nil {
		return nil, nil, err
	}
	s, err := env.NewStorage(spec, vkit.FastGC()...)
	if err != nil {
		env.Close()
		return nil, nil, err
	}
	return env, s, nil
}

// ---------------------------------------------------------------------------
// field-by-field comparison of snapshots (all differing fields, not only the
// first one, so that one recorded finding cannot hide another difference)

type fieldDiff struct {
	Field  string `json:"field"`
	Bucket string `json:"bucket"`
	Key    string `json:"key,omitempty"`
	Ver    string `json:"version,omitempty"`
	A      string `json:"a"`
	B      string `json:"b"`
}

func (d fieldDiff) String() string {
	return fmt.Sprintf("[%s] %s/%s%s: %s vs %s", d.Field, d.Bucket, d.Key, verSuffix(d.Ver), d.A, d.B)
}

func verSuffix(v string) string {
	if v == "" {
		return ""
	}
	return "@" + v
}

var sysHeaderNames = []struct{ tag, name string }{
	{"cc", "cache-control"}, {"cd", "content-disposition"}, {"ce", "content-encoding"},
	{"cl", "content-language"}, {"ex", "expires"}, {"wr", "website-redirect"},
}

// splitMeta splits vmodel's rendered metadata string into the system header
// part and the user metadata part.
func splitMeta(meta string) (sys, user string) {
	i := strings.LastIndex(meta, "user{")
	if i < 0 {
		return meta, ""
	}
	return meta[:i], meta[i:]
}

// sysHeaders parses "cc=..;cd=..;" (best effort: the tags appear in a fixed order).
func sysHeaders(sys string) map[string]string {
	out := map[string]string{}
	type pos struct {
		at   int
		name string
		tagl int
	}
	var ps []pos
	from := 0
	for _, h := range sysHeaderNames {
		marker := h.tag + "="
		idx := -1
		if strings.HasPrefix(sys[from:], marker) {
			idx = from
		} else if j := strings.Index(sys[from:], ";"+marker); j >= 0 {
			idx = from + j + 1
		}
		if idx >= 0 {
			ps = append(ps, pos{idx, h.name, len(marker)})
			from = idx + len(marker)
		}
	}
	for i, p := range ps {
		end := len(sys)
		if i+1 < len(ps) {
			end = ps[i+1].at
		}
		out[p.name] = strings.TrimSuffix(sys[p.at+p.tagl:end], ";")
	}
	return out
}

// metaDiffs names the metadata sub-fields in which two rendered metadata strings differ.
func metaDiffs(a, b string) []string {
	if a == b {
		return nil
	}
	var out []string
	sa, ua := splitMeta(a)
	sb, ub := splitMeta(b)
	if sa != sb {
		ha, hb := sysHeaders(sa), sysHeaders(sb)
		n := 0
		for _, h := range sysHeaderNames {
			if ha[h.name] != hb[h.name] {
				out = append(out, "meta:"+h.name)
				n++
			}
		}
		if n == 0 {
			out = append(out, "meta:system")
		}
	}
	if ua != ub {
		out = append(out, "meta:user")
	}
	return out
}

func currentObjects(b *vmodel.BucketSnap) map[string]vmodel.VersionSnap {
	m := map[string]vmodel.VersionSnap{}
	for _, v := range b.Versions {
		if v.IsLatest && !v.Marker {
			m[v.Key] = v
		}
	}
	return m
}

func findBucket(s *vmodel.Snap, name string) *vmodel.BucketSnap {
	for i := range s.Buckets {
		if s.Buckets[i].Name == name {
			return &s.Buckets[i]
		}
	}
	return nil
}

// compareVersionFields compares the content/metadata fields of two version
// snapshots that are supposed to describe the same object.
func compareVersionFields(bucket string, p, q vmodel.VersionSnap, withETag bool) (diffs []fieldDiff) {
	add := func(field, a, b string) {
		diffs = append(diffs, fieldDiff{Field: field, Bucket: bucket, Key: p.Key, Ver: p.VersionID, A: a, B: b})
	}
	if p.ContentHash != q.ContentHash {
		add("content", fmt.Sprintf("%dB:%s", p.Size, p.ContentHash), fmt.Sprintf("%dB:%s", q.Size, q.ContentHash))
	}
	if p.Size != q.Size {
		add("size", fmt.Sprint(p.Size), fmt.Sprint(q.Size))
	}
	if withETag && p.ETag != q.ETag {
		add("etag", p.ETag, q.ETag)
	}
	if p.ContentType != q.ContentType {
		add("content-type", fmt.Sprintf("%q", p.ContentType), fmt.Sprintf("%q", q.ContentType))
	}
	if p.Class != q.Class {
		add("storage-class", p.Class, q.Class)
	}
	if p.Tags != q.Tags {
		add("tags", p.Tags, q.Tags)
	}
	for _, f := range metaDiffs(p.Meta, q.Meta) {
		add(f, p.Meta, q.Meta)
	}
	if p.ReadErr != q.ReadErr {
		add("readable", p.ReadErr, q.ReadErr)
	}
	return
}

// compareCurrent compares the current objects of every bucket of a with b
// (buckets of b that a does not have are ignored).
func compareCurrent(a, b *vmodel.Snap) (diffs []fieldDiff, objects int, etagDiffers int) {
	for i := range a.Buckets {
		x := &a.Buckets[i]
		y := findBucket(b, x.Name)
		if y == nil {
			diffs = append(diffs, fieldDiff{Field: "bucket-missing", Bucket: x.Name, A: "present", B: "absent"})
			continue
		}
		cx, cy := currentObjects(x), currentObjects(y)
		for _, k := range vkit.SortedKeys(cx) {
			p := cx[k]
			q, ok := cy[k]
			if !ok {
				diffs = append(diffs, fieldDiff{Field: "object-missing", Bucket: x.Name, Key: k, A: fmt.Sprintf("%dB", p.Size), B: "absent"})
				continue
			}
			objects++
			if p.ETag != q.ETag {
				etagDiffers++
			}
			p.VersionID, q.VersionID = "", ""
			diffs = append(diffs, compareVersionFields(x.Name, p, q, false)...)
		}
		for _, k := range vkit.SortedKeys(cy) {
			if _, ok := cx[k]; !ok {
				diffs = append(diffs, fieldDiff{Field: "extra-object", Bucket: x.Name, Key: k, A: "absent", B: fmt.Sprintf("%dB", cy[k].Size)})
			}
		}
	}
	return
}

// stripETags blanks ETags in a snapshot copy (versions and ListObjects lines)
// for comparisons whose property does not state ETag equality.
func stripETags(s *vmodel.Snap) *vmodel.Snap {
	out := &vmodel.Snap{Err: s.Err}
	for _, b := range s.Buckets {
		nb := b
		nb.Versions = append([]vmodel.VersionSnap{}, b.Versions...)
		for i := range nb.Versions {
			nb.Versions[i].ETag = ""
		}
		nb.Listed = nil
		for _, l := range b.Listed {
			// key|size|etag|class  (keys never contain '|' in this engine)
			f := strings.Split(l, "|")
			if len(f) >= 4 {
				f[len(f)-2] = ""
			}
			nb.Listed = append(nb.Listed, strings.Join(f, "|"))
		}
		out.Buckets = append(out.Buckets, nb)
	}
	return out
}

// restrictTo keeps only the named buckets.
func restrictTo(s *vmodel.Snap, names map[string]bool) *vmodel.Snap {
	out := &vmodel.Snap{Err: s.Err}
	for _, b := range s.Buckets {
		if names[b.Name] {
			out.Buckets = append(out.Buckets, b)
		}
	}
	return out
}

func sizeClass(n int64) string {
	switch {
	case n == 0:
		return "0"
	case n < 1024:
		return "<1K"
	case n < 65536:
		return "<64K"
	case n < 5<<20:
		return "<5M"
	case n == 5<<20:
		return "=5M"
	}
	return ">5M"
}

func sortedSet(m map[string]bool) []string {
	l := make([]string, 0, len(m))
	for k := range m {
		l = append(l, k)
	}
	sort.Strings(l)
	return l
}

func firstN[T any](l []T, n int) []T {
	if len(l) <= n {
		return l
	}
	return l[:n]
}
