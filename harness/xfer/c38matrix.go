package main

import (
	"context"
	"fmt"

	"github.com/jdillenkofer/pithos/internal/storage"
	"github.com/jdillenkofer/pithos/internal/verif/vkit"
	"github.com/jdillenkofer/pithos/internal/verif/vmodel"
)

// The error matrix is a scripted history executed in every run: a fixed state
// (unversioned + versioned bucket, object, delete marker, pending upload) and
// then every operation kind against every failure cause that applies to it
// (missing bucket, missing key, unknown version, current delete marker, delete
// marker by version id, failed precondition, wrong digest, bad part list,
// unsatisfiable range, unknown upload, bucket exists / not empty, invalid
// class on transitions; tag-count, metadata-size and class validation of writes
// live in the HTTP layer and are not storage API failures). It makes the (operation, error kind) pairs a run
// compares independent of the PRNG seed.

const c38MatrixIndex = -1

func runC38Matrix(ctx context.Context, r *vkit.Run, st *c38Stacks, masks maskSet) (*c38History, c38Witness) {
	bu, bv, missing := "errm-unversioned", "errm-versioned", "errm-does-not-exist"
	prof := vmodel.GeneralProfile()
	prof.Name = "error-matrix"
	prof.Buckets = []string{bu, bv}
	h := &c38History{ctx: ctx, r: r, st: st, ids: newIDMap(), ups: newIDMap(), masks: masks, prof: prof, seen: map[string]bool{}, scripted: true}
	m := vmodel.NewModel()
	n := 0
	run := func(intent string, op *vmodel.Op) *vmodel.Result {
		op.Intent = intent
		if op.Body != nil {
			op.BodyDesc = vkit.Brief(op.Body)
		}
		n++
		res, _ := h.step(n, op, m)
		return res
	}
	must := func(intent string, op *vmodel.Op) *vmodel.Result {
		res := run(intent, op)
		if res.Kind != "" && h.abort == "" {
			h.abort = fmt.Sprintf("error matrix: setup step %s failed on the directly driven storage: %s", op, res.ErrText)
		}
		return res
	}
	finish := func() (*c38History, c38Witness) {
		if h.abort != "" {
			r.Count("error_matrix_aborted", 1)
			r.Seen("abort_reasons", h.abort)
		} else {
			r.Count("error_matrix_completed", 1)
		}
		r.Count("error_matrix_requests", int64(n))
		w := c38Witness{Index: c38MatrixIndex, Profile: prof.Name, Steps: n, Masks: masks.list(), Tail: h.steps, Divs: h.divs}
		c38Cleanup(ctx, st, prof.Buckets)
		return h, w
	}
	body := []byte("error matrix object body")
	must("setup", &vmodel.Op{Kind: vmodel.OpCreateBucket, Bucket: bu})
	must("setup", &vmodel.Op{Kind: vmodel.OpCreateBucket, Bucket: bv})
	must("setup", &vmodel.Op{Kind: vmodel.OpVersioning, Bucket: bv, Status: "Enabled"})
	must("setup", &vmodel.Op{Kind: vmodel.OpPut, Bucket: bu, Key: "obj", Body: body, ContentType: vkit.Ptr("text/plain")})
	must("setup", &vmodel.Op{Kind: vmodel.OpPut, Bucket: bv, Key: "obj", Body: body, ContentType: vkit.Ptr("text/plain")})
	must("setup", &vmodel.Op{Kind: vmodel.OpPut, Bucket: bv, Key: "marked", Body: body, ContentType: vkit.Ptr("text/plain")})
	del := must("setup", &vmodel.Op{Kind: vmodel.OpDelete, Bucket: bv, Key: "marked"})
	up := must("setup", &vmodel.Op{Kind: vmodel.OpMpuCreate, Bucket: bu, Key: "up", ContentType: vkit.Ptr("text/plain")})
	if h.abort != "" || h.desync || del.VersionID == nil || up.UploadID == "" {
		if h.abort == "" && !h.desync {
			h.abort = "error matrix: setup did not yield a delete-marker id / upload id"
		}
		return finish()
	}
	marker, upload := *del.VersionID, up.UploadID
	p1, p2 := []byte("part one of the pending upload"), []byte("part two")
	must("setup", &vmodel.Op{Kind: vmodel.OpMpuPart, Bucket: bu, Key: "up", UploadID: upload, PartNumber: 1, Body: p1})
	must("setup", &vmodel.Op{Kind: vmodel.OpMpuPart, Bucket: bu, Key: "up", UploadID: upload, PartNumber: 2, Body: p2})
	if h.abort != "" || h.desync {
		return finish()
	}
	etag := vmodel.RefChecksums(body).ETag
	wrongETag := "\"00000000000000000000000000000000\""
	bogusVer := "01JZZZZZZZZZZZZZZZZZZZZZZZ"
	bogusUp := "01JYYYYYYYYYYYYYYYYYYYYYYY"
	e1, e2 := vmodel.RefChecksums(p1).ETag, vmodel.RefChecksums(p2).ETag
	i64 := func(a, b int64) *[2]int64 { return &[2]int64{a, b} }
	type req struct {
		intent string
		op     *vmodel.Op
	}
	var reqs []req
	add := func(intent string, op *vmodel.Op) { reqs = append(reqs, req{intent, op}) }

	// ---- missing bucket
	add("missing-bucket", &vmodel.Op{Kind: vmodel.OpDeleteBucket, Bucket: missing})
	add("missing-bucket", &vmodel.Op{Kind: vmodel.OpVersioning, Bucket: missing, Status: "Enabled"})
	add("missing-bucket", &vmodel.Op{Kind: vmodel.OpPut, Bucket: missing, Key: "obj", Body: body})
	add("missing-bucket", &vmodel.Op{Kind: vmodel.OpGet, Bucket: missing, Key: "obj"})
	add("missing-bucket", &vmodel.Op{Kind: vmodel.OpHead, Bucket: missing, Key: "obj"})
	add("missing-bucket", &vmodel.Op{Kind: vmodel.OpDelete, Bucket: missing, Key: "obj"})
	add("missing-bucket", &vmodel.Op{Kind: vmodel.OpMultiDelete, Bucket: missing, Entries: []vmodel.DelEntry{{Key: "obj"}}})
	add("missing-destination-bucket", &vmodel.Op{Kind: vmodel.OpCopy, Bucket: missing, Key: "copy", SrcBucket: bu, SrcKey: "obj"})
	add("missing-source-bucket", &vmodel.Op{Kind: vmodel.OpCopy, Bucket: bu, Key: "copy", SrcBucket: missing, SrcKey: "obj"})
	add("missing-bucket", &vmodel.Op{Kind: vmodel.OpMpuCreate, Bucket: missing, Key: "up"})
	add("missing-bucket", &vmodel.Op{Kind: vmodel.OpMpuPart, Bucket: missing, Key: "up", UploadID: upload, PartNumber: 1, Body: p1})
	add("missing-source-bucket", &vmodel.Op{Kind: vmodel.OpMpuPartCopy, Bucket: bu, Key: "up", UploadID: upload, PartNumber: 3, SrcBucket: missing, SrcKey: "obj"})
	add("missing-bucket", &vmodel.Op{Kind: vmodel.OpMpuComplete, Bucket: missing, Key: "up", UploadID: upload})
	add("missing-bucket", &vmodel.Op{Kind: vmodel.OpMpuAbort, Bucket: missing, Key: "up", UploadID: upload})
	add("missing-bucket", &vmodel.Op{Kind: vmodel.OpPutTags, Bucket: missing, Key: "obj", Tags: map[string]string{"a": "b"}})
	add("missing-bucket", &vmodel.Op{Kind: vmodel.OpGetTags, Bucket: missing, Key: "obj"})
	add("missing-bucket", &vmodel.Op{Kind: vmodel.OpDelTags, Bucket: missing, Key: "obj"})
	add("missing-bucket", &vmodel.Op{Kind: vmodel.OpTransition, Bucket: missing, Key: "obj", TargetClass: "GLACIER"})
	// ---- missing key / unknown version
	for _, k := range []vmodel.OpKind{vmodel.OpGet, vmodel.OpHead, vmodel.OpGetTags, vmodel.OpDelTags} {
		add("missing-key", &vmodel.Op{Kind: k, Bucket: bu, Key: "no-such-key"})
		add("unknown-version", &vmodel.Op{Kind: k, Bucket: bv, Key: "obj", VersionID: &bogusVer})
	}
	add("missing-key", &vmodel.Op{Kind: vmodel.OpPutTags, Bucket: bu, Key: "no-such-key", Tags: map[string]string{"a": "b"}})
	add("unknown-version", &vmodel.Op{Kind: vmodel.OpPutTags, Bucket: bv, Key: "obj", VersionID: &bogusVer, Tags: map[string]string{"a": "b"}})
	add("missing-key", &vmodel.Op{Kind: vmodel.OpTransition, Bucket: bu, Key: "no-such-key", TargetClass: "GLACIER"})
	add("missing-source-key", &vmodel.Op{Kind: vmodel.OpCopy, Bucket: bu, Key: "copy", SrcBucket: bu, SrcKey: "no-such-key"})
	add("unknown-source-version", &vmodel.Op{Kind: vmodel.OpCopy, Bucket: bu, Key: "copy", SrcBucket: bv, SrcKey: "obj", SrcVersionID: &bogusVer})
	add("missing-source-key", &vmodel.Op{Kind: vmodel.OpMpuPartCopy, Bucket: bu, Key: "up", UploadID: upload, PartNumber: 3, SrcBucket: bu, SrcKey: "no-such-key"})
	// ---- current version is a delete marker / delete marker by version id
	for _, k := range []vmodel.OpKind{vmodel.OpGet, vmodel.OpHead, vmodel.OpGetTags, vmodel.OpDelTags} {
		add("current-delete-marker", &vmodel.Op{Kind: k, Bucket: bv, Key: "marked"})
		add("delete-marker-version", &vmodel.Op{Kind: k, Bucket: bv, Key: "marked", VersionID: &marker})
	}
	add("current-delete-marker", &vmodel.Op{Kind: vmodel.OpPutTags, Bucket: bv, Key: "marked", Tags: map[string]string{"a": "b"}})
	add("delete-marker-version", &vmodel.Op{Kind: vmodel.OpPutTags, Bucket: bv, Key: "marked", VersionID: &marker, Tags: map[string]string{"a": "b"}})
	add("current-delete-marker", &vmodel.Op{Kind: vmodel.OpTransition, Bucket: bv, Key: "marked", TargetClass: "GLACIER"})
	add("current-delete-marker-source", &vmodel.Op{Kind: vmodel.OpCopy, Bucket: bu, Key: "copy", SrcBucket: bv, SrcKey: "marked"})
	add("delete-marker-version-source", &vmodel.Op{Kind: vmodel.OpCopy, Bucket: bu, Key: "copy", SrcBucket: bv, SrcKey: "marked", SrcVersionID: &marker})
	add("current-delete-marker-source", &vmodel.Op{Kind: vmodel.OpMpuPartCopy, Bucket: bu, Key: "up", UploadID: upload, PartNumber: 3, SrcBucket: bv, SrcKey: "marked"})
	add("delete-marker-version-source", &vmodel.Op{Kind: vmodel.OpMpuPartCopy, Bucket: bu, Key: "up", UploadID: upload, PartNumber: 3, SrcBucket: bv, SrcKey: "marked", SrcVersionID: &marker})
	// ---- failed preconditions
	add("if-match-wrong", &vmodel.Op{Kind: vmodel.OpPut, Bucket: bu, Key: "obj", Body: body, IfMatch: &wrongETag})
	add("if-none-match-star-on-existing", &vmodel.Op{Kind: vmodel.OpPut, Bucket: bu, Key: "obj", Body: body, IfNoneMatchStar: true})
	add("if-match-on-missing", &vmodel.Op{Kind: vmodel.OpPut, Bucket: bu, Key: "no-such-key", Body: body, IfMatch: &etag})
	add("if-match-wrong", &vmodel.Op{Kind: vmodel.OpDelete, Bucket: bu, Key: "obj", IfMatch: &wrongETag})
	add("if-match-wrong", &vmodel.Op{Kind: vmodel.OpTransition, Bucket: bu, Key: "obj", TargetClass: "GLACIER", IfMatch: &wrongETag})
	add("source-if-match-wrong", &vmodel.Op{Kind: vmodel.OpCopy, Bucket: bu, Key: "copy", SrcBucket: bu, SrcKey: "obj", SrcIfMatch: &wrongETag})
	add("source-if-none-match-equal", &vmodel.Op{Kind: vmodel.OpCopy, Bucket: bu, Key: "copy", SrcBucket: bu, SrcKey: "obj", SrcIfNone: &etag})
	// ---- wrong digests
	add("wrong-crc32c", &vmodel.Op{Kind: vmodel.OpPut, Bucket: bu, Key: "digest", Body: body, Checksum: &storage.ChecksumInput{ChecksumCRC32C: vkit.Ptr("AAAAAA==")}})
	add("wrong-content-md5", &vmodel.Op{Kind: vmodel.OpPut, Bucket: bu, Key: "digest", Body: body, Checksum: &storage.ChecksumInput{ETag: &wrongETag}})
	add("wrong-sha256", &vmodel.Op{Kind: vmodel.OpMpuPart, Bucket: bu, Key: "up", UploadID: upload, PartNumber: 3, Body: p1, Checksum: &storage.ChecksumInput{ChecksumSHA256: vkit.Ptr("AAAAAAAAAAAAAAAAAAAAAAAAAAAAAAAAAAAAAAAAAAA=")}})
	// ---- bad part lists
	add("wrong-part-etag", &vmodel.Op{Kind: vmodel.OpMpuComplete, Bucket: bu, Key: "up", UploadID: upload, PartsGiven: true, Parts: []vmodel.CompletePart{{PartNumber: 1, ETag: e1}, {PartNumber: 2, ETag: wrongETag}}})
	add("unknown-part", &vmodel.Op{Kind: vmodel.OpMpuComplete, Bucket: bu, Key: "up", UploadID: upload, PartsGiven: true, Parts: []vmodel.CompletePart{{PartNumber: 1, ETag: e1}, {PartNumber: 2, ETag: e2}, {PartNumber: 3, ETag: wrongETag}}})
	add("parts-out-of-order", &vmodel.Op{Kind: vmodel.OpMpuComplete, Bucket: bu, Key: "up", UploadID: upload, PartsGiven: true, Parts: []vmodel.CompletePart{{PartNumber: 2, ETag: e2}, {PartNumber: 1, ETag: e1}}})
	// ---- unsatisfiable ranges
	add("range-beyond-end", &vmodel.Op{Kind: vmodel.OpGet, Bucket: bu, Key: "obj", Range: i64(int64(len(body))+5, int64(len(body))+9)})
	add("source-range-beyond-end", &vmodel.Op{Kind: vmodel.OpMpuPartCopy, Bucket: bu, Key: "up", UploadID: upload, PartNumber: 3, SrcBucket: bu, SrcKey: "obj", Range: i64(int64(len(body))+5, int64(len(body))+9)})
	// ---- unknown upload
	add("unknown-upload", &vmodel.Op{Kind: vmodel.OpMpuPart, Bucket: bu, Key: "up", UploadID: bogusUp, PartNumber: 1, Body: p1})
	add("unknown-upload", &vmodel.Op{Kind: vmodel.OpMpuPartCopy, Bucket: bu, Key: "up", UploadID: bogusUp, PartNumber: 1, SrcBucket: bu, SrcKey: "obj"})
	add("unknown-upload", &vmodel.Op{Kind: vmodel.OpMpuComplete, Bucket: bu, Key: "up", UploadID: bogusUp})
	add("unknown-upload", &vmodel.Op{Kind: vmodel.OpMpuAbort, Bucket: bu, Key: "up", UploadID: bogusUp})
	// ---- bucket level
	add("bucket-exists", &vmodel.Op{Kind: vmodel.OpCreateBucket, Bucket: bu})
	add("bucket-not-empty", &vmodel.Op{Kind: vmodel.OpDeleteBucket, Bucket: bu})
	// ---- invalid class / tags / metadata (the storage API validates the class only on
	// transitions; PutObject/CopyObject/CreateMultipartUpload classes are validated by the HTTP layer)
	add("invalid-storage-class", &vmodel.Op{Kind: vmodel.OpTransition, Bucket: bu, Key: "obj", TargetClass: "BOGUS_CLASS"})
	// ---- last: conditional completion (a divergence here desynchronises the state)
	add("if-match-on-missing", &vmodel.Op{Kind: vmodel.OpMpuComplete, Bucket: bu, Key: "up", UploadID: upload, IfMatch: &wrongETag})

	for _, q := range reqs {
		if h.desync || h.abort != "" {
			break
		}
		op := q.op
		if !masks.apply(op) {
			r.Count("ops_rerolled_because_masked", 1)
			continue
		}
		res := run(q.intent, op)
		r.Count("error_matrix:"+string(op.Kind)+":"+q.intent+"="+orOK(strictKind(res.Err)), 1)
	}
	return finish()
}
