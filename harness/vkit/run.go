package vkit

import (
	"encoding/json"
	"fmt"
	"io"
	"log/slog"
	"os"
	"path/filepath"
	"sort"
	"strconv"
	"strings"
	"sync"
	"time"
)

// QuietLogs silences pithos' slog output unless VERIF_LOG is set.
func QuietLogs() {
	if os.Getenv("VERIF_LOG") != "" {
		return
	}
	slog.SetDefault(slog.New(slog.NewTextHandler(io.Discard, &slog.HandlerOptions{Level: slog.LevelError + 100})))
}

// VerifRoot is where evidence / replay / known findings live.
func VerifRoot() string {
	if v := os.Getenv("VERIF_ROOT"); v != "" {
		return v
	}
	return "/verif"
}

type knownFile struct {
	Findings []KnownFinding `json:"findings"`
	Fixed    []string       `json:"fixed"`
}

// KnownFinding identifies a recorded genuine defect by property + signature.
type KnownFinding struct {
	Property  string `json:"property"`
	Signature string `json:"signature"`
	What      string `json:"what"`
}

// Run is the context of one check invocation (one property, one tier, one seed).
type Run struct {
	Prop  string
	Level string
	Tier  string
	Seed  uint64
	Start time.Time
	Dir   string // scratch directory (removed by Finish)

	mu           sync.Mutex
	evaluations  int64
	distinct     map[string]struct{}
	samples      []any
	maxSamples   int
	counters     map[string]int64
	sets         map[string]map[string]struct{}
	extra        map[string]any
	rule         string
	assumptions  []string
	exhaustive   *bool
	violations   int
	knownHits    map[string]int
	known        map[string]KnownFinding
	inconclusive []string
	replayN      int
	child        bool
}

// Begin starts a run. VERIF_SEED (default 1) and VERIF_TIER (quick|thorough)
// come from the environment; tier may be overridden by the driver argument.
func Begin(prop, level, tier string) *Run {
	seed := uint64(1)
	if v := os.Getenv("VERIF_SEED"); v != "" {
		if n, err := strconv.ParseUint(strings.TrimSpace(v), 10, 64); err == nil {
			seed = n
		} else if n2, err2 := strconv.ParseInt(strings.TrimSpace(v), 10, 64); err2 == nil {
			seed = uint64(n2)
		}
	}
	if tier == "" {
		tier = os.Getenv("VERIF_TIER")
	}
	if tier != "thorough" {
		tier = "quick"
	}
	base := os.Getenv("VERIF_WORK")
	if base == "" {
		base = filepath.Join(VerifRoot(), ".work")
	}
	dir := filepath.Join(base, fmt.Sprintf("run-%s-%d", prop, os.Getpid()))
	_ = os.RemoveAll(dir)
	if err := os.MkdirAll(dir, 0o755); err != nil {
		fmt.Fprintln(os.Stderr, "cannot create work dir:", err)
		os.Exit(3)
	}
	_ = os.Setenv("TMPDIR", dir)
	QuietLogs()
	r := &Run{
		Prop: prop, Level: level, Tier: tier, Seed: seed, Start: time.Now(), Dir: dir,
		distinct: map[string]struct{}{}, counters: map[string]int64{}, sets: map[string]map[string]struct{}{},
		extra: map[string]any{}, maxSamples: 6, knownHits: map[string]int{}, known: map[string]KnownFinding{},
	}
	if b, err := os.ReadFile(filepath.Join(VerifRoot(), "known_findings.json")); err == nil {
		var kf knownFile
		if err := json.Unmarshal(b, &kf); err != nil {
			fmt.Fprintln(os.Stderr, "known_findings.json unreadable:", err)
			os.Exit(3)
		}
		for _, k := range kf.Findings {
			if k.Property == prop {
				r.known[k.Signature] = k
			}
		}
	}
	return r
}

func (r *Run) Quick() bool    { return r.Tier != "thorough" }
func (r *Run) Thorough() bool { return r.Tier == "thorough" }

// Pick returns q in the quick tier and t in the thorough tier.
func (r *Run) N(q, t int) int {
	if r.Quick() {
		return q
	}
	return t
}

func (r *Run) Rand() *Rand { return NewRand(r.Seed) }

// SubDir creates a fresh scratch sub-directory.
func (r *Run) SubDir(name string) string {
	d := filepath.Join(r.Dir, name)
	_ = os.RemoveAll(d)
	if err := os.MkdirAll(d, 0o755); err != nil {
		panic(err)
	}
	return d
}

func (r *Run) SetRule(rule string)         { r.mu.Lock(); r.rule = rule; r.mu.Unlock() }
func (r *Run) Assume(a string)             { r.mu.Lock(); r.assumptions = append(r.assumptions, a); r.mu.Unlock() }
func (r *Run) SetExhaustive(b bool)        { r.mu.Lock(); r.exhaustive = &b; r.mu.Unlock() }
func (r *Run) SetExtra(k string, v any)    { r.mu.Lock(); r.extra[k] = v; r.mu.Unlock() }
func (r *Run) SetMaxSamples(n int)         { r.mu.Lock(); r.maxSamples = n; r.mu.Unlock() }
func (r *Run) Count(name string, by int64) { r.mu.Lock(); r.counters[name] += by; r.mu.Unlock() }
func (r *Run) Counter(name string) int64   { r.mu.Lock(); defer r.mu.Unlock(); return r.counters[name] }

// Eval records one executed case; sig is its distinctness signature ("" = do
// not count as distinct/non-trivial).
func (r *Run) Eval(sig string) {
	r.mu.Lock()
	r.evaluations++
	if sig != "" {
		r.distinct[sig] = struct{}{}
	}
	r.mu.Unlock()
}

// Distinct records a distinct non-trivial signature without counting an evaluation.
func (r *Run) Distinct(sig string) {
	r.mu.Lock()
	r.distinct[sig] = struct{}{}
	r.mu.Unlock()
}

// Seen adds a member to a named observation set (reported as its size).
func (r *Run) Seen(set, member string) {
	r.mu.Lock()
	m := r.sets[set]
	if m == nil {
		m = map[string]struct{}{}
		r.sets[set] = m
	}
	m[member] = struct{}{}
	r.mu.Unlock()
}

func (r *Run) SeenCount(set string) int { r.mu.Lock(); defer r.mu.Unlock(); return len(r.sets[set]) }

// Sample records an example case (bounded).
func (r *Run) Sample(s any) {
	r.mu.Lock()
	if len(r.samples) < r.maxSamples {
		r.samples = append(r.samples, s)
	}
	r.mu.Unlock()
}

// Inconclusive marks the run inconclusive (exit 2, no VIOLATION line).
func (r *Run) Inconclusive(why string) {
	r.mu.Lock()
	r.inconclusive = append(r.inconclusive, why)
	r.mu.Unlock()
}

// Violation reports a violation with a classification signature. If the
// signature is a listed known finding it prints KNOWN-FINDING once; otherwise
// it writes a replay file and prints a VIOLATION line.
func (r *Run) Violation(signature string, what string, witness any) {
	r.mu.Lock()
	if k, ok := r.known[signature]; ok {
		r.knownHits[signature]++
		first := r.knownHits[signature] == 1
		r.mu.Unlock()
		if first {
			fmt.Printf("KNOWN-FINDING: property=%s %s [%s]\n", r.Prop, k.What, signature)
		}
		return
	}
	r.violations++
	n := r.replayN
	r.replayN++
	r.mu.Unlock()
	if n >= 20 {
		return // enough witnesses
	}
	dir := filepath.Join(VerifRoot(), "replay", r.Prop)
	_ = os.MkdirAll(dir, 0o755)
	path := filepath.Join(dir, fmt.Sprintf("%d-%s-%d.json", r.Seed, r.Tier, n))
	b, _ := json.MarshalIndent(map[string]any{
		"property": r.Prop, "seed": r.Seed, "tier": r.Tier, "signature": signature, "what": what, "witness": witness,
	}, "", " ")
	_ = os.WriteFile(path, b, 0o644)
	fmt.Printf("VIOLATION property=%s replay=%s\n", r.Prop, path)
	fmt.Printf("  signature=%s what=%s\n", signature, what)
}

func (r *Run) Violations() int { r.mu.Lock(); defer r.mu.Unlock(); return r.violations }

// Finish writes the evidence file and exits with the check's verdict:
// 0 held on what was observed, 1 violated, 2 inconclusive.
func (r *Run) Finish() {
	r.mu.Lock()
	cov := map[string]any{
		"evaluations":         r.evaluations,
		"distinct_nontrivial": len(r.distinct),
		"rule":                r.rule,
		"samples":             r.samples,
	}
	if r.exhaustive != nil {
		cov["exhaustive"] = *r.exhaustive
	}
	if len(r.counters) > 0 {
		cov["counters"] = r.counters
	}
	if len(r.sets) > 0 {
		sz := map[string]int{}
		members := map[string][]string{}
		for k, m := range r.sets {
			sz[k] = len(m)
			if len(m) <= 40 {
				l := make([]string, 0, len(m))
				for x := range m {
					l = append(l, x)
				}
				sort.Strings(l)
				members[k] = l
			}
		}
		cov["observed_set_sizes"] = sz
		cov["observed_sets"] = members
	}
	for k, v := range r.extra {
		cov[k] = v
	}
	if len(r.knownHits) > 0 {
		cov["known_findings_hit"] = r.knownHits
	}
	if len(r.inconclusive) > 0 {
		cov["inconclusive"] = r.inconclusive
	}
	if r.samples == nil {
		cov["samples"] = []any{}
	}
	ev := map[string]any{
		"property_id": r.Prop,
		"tier":        r.Tier,
		"seed":        int64(r.Seed),
		"level":       r.Level,
		"coverage":    cov,
		"assumptions": append([]string{"SQLite metadata store only (no PostgreSQL server offline)", "runtime monitoring: verdict covers only the executions produced by this run"}, r.assumptions...),
		"wall_s":      time.Since(r.Start).Seconds(),
		"violations":  r.violations,
	}
	viol, inc := r.violations, r.inconclusive
	r.mu.Unlock()
	b, _ := json.MarshalIndent(ev, "", " ")
	evdir := filepath.Join(VerifRoot(), "evidence")
	if v := os.Getenv("VERIF_EVIDENCE_DIR"); v != "" {
		// runs against a scratch worktree (VERIF_REPO) or replays must not overwrite the evidence of /repo runs
		evdir = v
	}
	_ = os.MkdirAll(evdir, 0o755)
	tmp := filepath.Join(evdir, "."+r.Prop+".json.tmp")
	if err := os.WriteFile(tmp, b, 0o644); err == nil {
		_ = os.Rename(tmp, filepath.Join(evdir, r.Prop+".json"))
	} else {
		fmt.Fprintln(os.Stderr, "cannot write evidence:", err)
	}
	_ = os.RemoveAll(r.Dir)
	switch {
	case viol > 0:
		fmt.Printf("RESULT property=%s violated (%d) evaluations=%d distinct=%d\n", r.Prop, viol, r.evaluations, len(r.distinct))
		os.Exit(1)
	case len(inc) > 0:
		fmt.Printf("INCONCLUSIVE property=%s why=%s\n", r.Prop, strings.Join(inc, "; "))
		os.Exit(2)
	default:
		fmt.Printf("RESULT property=%s held-on-observed evaluations=%d distinct=%d wall=%.1fs\n", r.Prop, r.evaluations, len(r.distinct), time.Since(r.Start).Seconds())
		os.Exit(0)
	}
}
