package vkit

import (
	"context"
	"crypto/mlkem"
	"fmt"
	"os"
	"path/filepath"
	"strings"
	"sync"
	"time"

	"github.com/prometheus/client_golang/prometheus"

	cachepkg "github.com/jdillenkofer/pithos/internal/cache"
	"github.com/jdillenkofer/pithos/internal/cache/evictionpolicy"
	"github.com/jdillenkofer/pithos/internal/cache/evictionpolicy/evictionchecker/fixedkeylimit"
	"github.com/jdillenkofer/pithos/internal/cache/evictionpolicy/evictionchecker/fixedsizelimit"
	"github.com/jdillenkofer/pithos/internal/cache/evictionpolicy/evictnothing"
	"github.com/jdillenkofer/pithos/internal/cache/evictionpolicy/lfu"
	fspersistor "github.com/jdillenkofer/pithos/internal/cache/persistor/filesystem"
	"github.com/jdillenkofer/pithos/internal/cache/persistor/inmemory"
	"github.com/jdillenkofer/pithos/internal/storage"
	"github.com/jdillenkofer/pithos/internal/storage/database"
	repositoryfactory "github.com/jdillenkofer/pithos/internal/storage/database/repository"
	"github.com/jdillenkofer/pithos/internal/storage/database/sqlite"
	"github.com/jdillenkofer/pithos/internal/storage/metadatapart"
	"github.com/jdillenkofer/pithos/internal/storage/metadatapart/metadatastore"
	sqlmetadatastore "github.com/jdillenkofer/pithos/internal/storage/metadatapart/metadatastore/sql"
	"github.com/jdillenkofer/pithos/internal/storage/metadatapart/partstore"
	cachepartstore "github.com/jdillenkofer/pithos/internal/storage/metadatapart/partstore/cache"
	fspartstore "github.com/jdillenkofer/pithos/internal/storage/metadatapart/partstore/filesystem"
	"github.com/jdillenkofer/pithos/internal/storage/metadatapart/partstore/middlewares/compression"
	"github.com/jdillenkofer/pithos/internal/storage/metadatapart/partstore/middlewares/encryption/tink"
	"github.com/jdillenkofer/pithos/internal/storage/metadatapart/partstore/middlewares/erasurecoding"
	outboxpartstore "github.com/jdillenkofer/pithos/internal/storage/metadatapart/partstore/outbox"
	sqlpartstore "github.com/jdillenkofer/pithos/internal/storage/metadatapart/partstore/sql"
)

// Env is one SQLite database plus a directory for filesystem part stores.
type Env struct {
	Dir string
	DB  database.Database

	mu        sync.Mutex
	nFS, nSQL int
	// FSDirs lists the root directories of every filesystem part store built
	// (in construction order), RawFS the stores themselves.
	FSDirs []string
	// Wrap, when set, is applied to every *leaf* part store (fs/sql) right
	// after construction – used to splice recording / faulting doubles in.
	WrapLeaf func(kind string, ps partstore.PartStore) partstore.PartStore
	// WrapLayer, when set, is applied to every middleware layer's result.
	WrapLayer func(kind string, ps partstore.PartStore) partstore.PartStore
	// OutboxLease is the claim lease used for outbox part stores (default 30s).
	OutboxLease time.Duration
	// ECHealScan overrides the EC heal-scan interval (0 = disabled scan).
	closers []func()
}

// OpenEnv opens (creating if needed) the SQLite database <dir>/pithos.db.
func OpenEnv(dir string) (*Env, error) {
	if err := os.MkdirAll(dir, 0o755); err != nil {
		return nil, err
	}
	db, err := sqlite.OpenDatabase(filepath.Join(dir, "pithos.db"))
	if err != nil {
		return nil, err
	}
	return &Env{Dir: dir, DB: db}, nil
}

// OpenEnvWithDB uses a caller-provided database (e.g. a fault-injecting one).
func OpenEnvWithDB(dir string, db database.Database) *Env {
	_ = os.MkdirAll(dir, 0o755)
	return &Env{Dir: dir, DB: db}
}

func (e *Env) Close() {
	for _, c := range e.closers {
		c()
	}
	if e.DB != nil {
		_ = e.DB.Close()
	}
}

var (
	tinkOnce sync.Once
	mlkemKey *mlkem.DecapsulationKey1024
)

const tinkPassword = "verif-local-kms-password"

// PartStoreSpecs is the stack matrix the properties quantify over
// (outermost layer first, '>' separated, leaf last).
var PartStoreSpecs = []string{
	"sql", "fs", "zstd>fs", "gzip>fs", "tink>fs", "tinkpq>sql", "zstd>tink>fs",
	"ec21", "ec32", "outbox>fs", "outbox>sql", "cache>fs", "cachefs>fs",
	"cache>outbox>tink>zstd>ec21",
}

// BuildPartStore builds a part-store composition from a spec like
// "cache>outbox>tink>zstd>ec21" (outermost first). Leaves: fs, sql, ec21, ec22,
// ec32, ec11 (erasure coding over filesystem shards). Middlewares: zstd, gzip,
// tink (local KMS), tinkpq (local KMS + ML-KEM hybrid), outbox, cache
// (in-memory LFU tiny), cachefs (filesystem persistor), cachebig (evict nothing).
func (e *Env) BuildPartStore(spec string) (partstore.PartStore, error) {
	layers := strings.Split(spec, ">")
	leaf := layers[len(layers)-1]
	var ps partstore.PartStore
	var err error
	switch {
	case leaf == "fs":
		ps, err = e.newFS()
	case leaf == "sql":
		ps, err = e.newSQL()
	case leaf == "ecbig" || (strings.HasPrefix(leaf, "ec") && len(leaf) == 4):
		stripe := 1024
		d, p := 4, 2
		if leaf == "ecbig" {
			// production-like geometry: 4+2 shards, 64 KiB stripe shard size (256 KiB stripes)
			stripe = 64 * 1024
		} else {
			d, p = int(leaf[2]-'0'), int(leaf[3]-'0')
		}
		var shards []partstore.PartStore
		for i := 0; i < d+p; i++ {
			s, err := e.newFS()
			if err != nil {
				return nil, err
			}
			shards = append(shards, s)
		}
		ps, err = erasurecoding.NewWithPartStores(d, p, stripe, shards, erasurecoding.WithHealScanInterval(0))
		if err == nil && e.WrapLayer != nil {
			ps = e.WrapLayer(leaf, ps)
		}
	default:
		return nil, fmt.Errorf("unknown leaf %q in spec %q", leaf, spec)
	}
	if err != nil {
		return nil, err
	}
	for i := len(layers) - 2; i >= 0; i-- {
		l := layers[i]
		switch l {
		case "zstd":
			ps, err = compression.NewWithConfig(ps, compression.Config{Algorithm: compression.AlgorithmZstd})
		case "gzip":
			ps, err = compression.NewWithConfig(ps, compression.Config{Algorithm: compression.AlgorithmGzip})
		case "tink":
			ps, err = tink.NewWithLocalKMS(tinkPassword, ps, nil)
		case "tinkpq":
			tinkOnce.Do(func() {
				k, kerr := mlkem.GenerateKey1024()
				if kerr != nil {
					panic(kerr)
				}
				mlkemKey = k
			})
			ps, err = tink.NewWithLocalKMS(tinkPassword, ps, mlkemKey)
		case "outbox":
			var repo any
			r, rerr := repositoryfactory.NewPartOutboxEntryRepository(e.DB)
			if rerr != nil {
				return nil, rerr
			}
			_ = repo
			e.mu.Lock()
			id := fmt.Sprintf("outbox-%d", len(e.closers)+e.nFS+e.nSQL)
			e.mu.Unlock()
			ps, err = outboxpartstore.New(e.DB, id, ps, r, prometheus.NewRegistry(), e.OutboxLease)
		case "cache", "cachefs", "cachebig":
			var c cachepkg.Cache
			c, err = e.NewCache(l)
			if err != nil {
				return nil, err
			}
			ps, err = cachepartstore.New(c, ps, cachepartstore.Options{MaxPartSizeBytes: 256 * 1024})
		default:
			return nil, fmt.Errorf("unknown layer %q in spec %q", l, spec)
		}
		if err != nil {
			return nil, err
		}
		if e.WrapLayer != nil {
			ps = e.WrapLayer(l, ps)
		}
	}
	return ps, nil
}

// NewCache builds a GenericCache: "cache" = in-memory persistor + LFU with a
// 4-key limit, "cachefs" = filesystem persistor + LFU with a 300 KiB size
// limit, "cachebig" = in-memory + evict-nothing.
func (e *Env) NewCache(kind string) (cachepkg.Cache, error) {
	var pol evictionpolicy.CacheEvictionPolicy
	switch kind {
	case "cache":
		p, err := inmemory.New()
		if err != nil {
			return nil, err
		}
		chk, err := fixedkeylimit.New(4)
		if err != nil {
			return nil, err
		}
		pol, err = lfu.New(chk)
		if err != nil {
			return nil, err
		}
		return cachepkg.NewGenericCache(p, pol)
	case "cachefs":
		e.mu.Lock()
		dir := filepath.Join(e.Dir, fmt.Sprintf("cache-%d", e.nFS+e.nSQL+len(e.FSDirs)))
		e.mu.Unlock()
		p, err := fspersistor.New(dir)
		if err != nil {
			return nil, err
		}
		chk, err := fixedsizelimit.New(300 * 1024)
		if err != nil {
			return nil, err
		}
		pol, err = lfu.New(chk)
		if err != nil {
			return nil, err
		}
		return cachepkg.NewGenericCache(p, pol)
	case "cachebig":
		p, err := inmemory.New()
		if err != nil {
			return nil, err
		}
		pol, err = evictnothing.New()
		if err != nil {
			return nil, err
		}
		return cachepkg.NewGenericCache(p, pol)
	}
	return nil, fmt.Errorf("unknown cache kind %q", kind)
}

func (e *Env) newFS() (partstore.PartStore, error) {
	e.mu.Lock()
	dir := filepath.Join(e.Dir, fmt.Sprintf("parts-%d", e.nFS))
	e.nFS++
	e.FSDirs = append(e.FSDirs, dir)
	e.mu.Unlock()
	ps, err := fspartstore.New(dir)
	if err != nil {
		return nil, err
	}
	if e.WrapLeaf != nil {
		ps = e.WrapLeaf("fs", ps)
	}
	return ps, nil
}

func (e *Env) newSQL() (partstore.PartStore, error) {
	repo, err := repositoryfactory.NewPartContentRepository(e.DB)
	if err != nil {
		return nil, err
	}
	e.mu.Lock()
	n := e.nSQL
	e.nSQL++
	e.mu.Unlock()
	var opts []sqlpartstore.Option
	if n > 0 {
		opts = append(opts, sqlpartstore.WithPartStoreId(fmt.Sprintf("sqlstore-%d", n)))
	}
	ps, err := sqlpartstore.New(e.DB, repo, opts...)
	if err != nil {
		return nil, err
	}
	if e.WrapLeaf != nil {
		ps = e.WrapLeaf("sql", ps)
	}
	return ps, nil
}

// NewMetadataStore builds the SQL metadata store on this env's database.
func (e *Env) NewMetadataStore() (metadatastore.MetadataStore, error) {
	b, err := repositoryfactory.NewBucketRepository(e.DB)
	if err != nil {
		return nil, err
	}
	o, err := repositoryfactory.NewObjectRepository(e.DB)
	if err != nil {
		return nil, err
	}
	p, err := repositoryfactory.NewPartRepository(e.DB)
	if err != nil {
		return nil, err
	}
	t, err := repositoryfactory.NewTagRepository(e.DB)
	if err != nil {
		return nil, err
	}
	u, err := repositoryfactory.NewUserMetadataRepository(e.DB)
	if err != nil {
		return nil, err
	}
	return sqlmetadatastore.New(e.DB, b, o, p, t, u)
}

// NamedSpec describes a storage-class routed configuration.
type NamedSpec struct {
	Default string            // part-store spec of the default store
	Extra   map[string]string // store name -> part-store spec
	Classes map[string]string // storage class -> store name
}

// StorageSpecs are storage-level stack names accepted by NewStorage: any
// part-store spec, or "named" / "named2" (class routed).
var NamedDefault = NamedSpec{
	Default: "sql",
	Extra:   map[string]string{"cold": "fs", "enc": "tink>fs"},
	Classes: map[string]string{"STANDARD_IA": "cold", "GLACIER": "enc", "DEEP_ARCHIVE": "cold"},
}

// NewStorage builds a metadata-part storage over the given part-store spec
// ("named" = NamedDefault) and starts it.
func (e *Env) NewStorage(spec string, opts ...metadatapart.StorageOption) (storage.Storage, error) {
	if spec == "named" {
		return e.NewNamedStorage(NamedDefault, opts...)
	}
	s, err := e.NewStorageUnstarted(spec, opts...)
	if err != nil {
		return nil, err
	}
	if err := s.Start(context.Background()); err != nil {
		return nil, err
	}
	return s, nil
}

// NewStorageUnstarted builds a metadata-part storage without starting it (for
// wrappers such as the storage outbox that start their inner storage themselves).
func (e *Env) NewStorageUnstarted(spec string, opts ...metadatapart.StorageOption) (storage.Storage, error) {
	ms, err := e.NewMetadataStore()
	if err != nil {
		return nil, err
	}
	ps, err := e.BuildPartStore(spec)
	if err != nil {
		return nil, err
	}
	return metadatapart.NewStorage(e.DB, ms, ps, opts...)
}

// NewNamedStorage builds and starts a class-routed storage. Stores are built in
// sorted name order so that directories are stable across reopen.
func (e *Env) NewNamedStorage(ns NamedSpec, opts ...metadatapart.StorageOption) (storage.Storage, error) {
	ms, err := e.NewMetadataStore()
	if err != nil {
		return nil, err
	}
	def, err := e.BuildPartStore(ns.Default)
	if err != nil {
		return nil, err
	}
	extra := map[string]partstore.PartStore{}
	for _, name := range SortedKeys(ns.Extra) {
		ps, err := e.BuildPartStore(ns.Extra[name])
		if err != nil {
			return nil, err
		}
		extra[name] = ps
	}
	s, err := metadatapart.NewStorageWithNamedPartStores(e.DB, ms, def, extra, ns.Classes, opts...)
	if err != nil {
		return nil, err
	}
	if err := s.Start(context.Background()); err != nil {
		return nil, err
	}
	return s, nil
}

// FastGC are storage options that make GC testable: 1 ms grace window and a
// long interval (passes are triggered explicitly with RunGCOnce).
func FastGC() []metadatapart.StorageOption {
	return []metadatapart.StorageOption{metadatapart.WithGCGraceWindow(time.Millisecond), metadatapart.WithGCInterval(time.Hour)}
}
