// Package vkit is the shared toolkit of the pithos runtime-monitoring harness.
package vkit
