package vkit

import (
	"hash/fnv"
)

// Rand is a small deterministic PRNG (splitmix64). Every generated case list
// is a pure function of (seed, tier); no oracle reads the wall clock.
type Rand struct{ s uint64 }

func NewRand(seed uint64) *Rand { return &Rand{s: seed*0x9E3779B97F4A7C15 + 0x1234567} }

func (r *Rand) Uint64() uint64 {
	r.s += 0x9E3779B97F4A7C15
	z := r.s
	z = (z ^ (z >> 30)) * 0xBF58476D1CE4E5B9
	z = (z ^ (z >> 27)) * 0x94D049BB133111EB
	return z ^ (z >> 31)
}

// Intn returns a value in [0,n). n<=0 returns 0.
func (r *Rand) Intn(n int) int {
	if n <= 0 {
		return 0
	}
	return int(r.Uint64() % uint64(n))
}

// Range returns a value in [lo,hi].
func (r *Rand) Range(lo, hi int) int {
	if hi <= lo {
		return lo
	}
	return lo + r.Intn(hi-lo+1)
}

func (r *Rand) Int63() int64 { return int64(r.Uint64() >> 1) }
func (r *Rand) Bool() bool   { return r.Uint64()&1 == 1 }

// Chance returns true with probability pct/100.
func (r *Rand) Chance(pct int) bool { return r.Intn(100) < pct }

// Bytes returns n pseudo-random (incompressible) bytes.
func (r *Rand) Bytes(n int) []byte {
	b := make([]byte, n)
	i := 0
	for ; i+8 <= n; i += 8 {
		v := r.Uint64()
		b[i], b[i+1], b[i+2], b[i+3] = byte(v), byte(v>>8), byte(v>>16), byte(v>>24)
		b[i+4], b[i+5], b[i+6], b[i+7] = byte(v>>32), byte(v>>40), byte(v>>48), byte(v>>56)
	}
	if i < n {
		v := r.Uint64()
		for ; i < n; i++ {
			b[i] = byte(v)
			v >>= 8
		}
	}
	return b
}

// Fork derives an independent generator from this one and a label, without
// advancing this one. Used to give each case / child its own stream.
func (r *Rand) Fork(label string) *Rand {
	h := fnv.New64a()
	h.Write([]byte(label))
	return NewRand(r.s ^ h.Sum64())
}

// Pick returns a random element.
func Pick[T any](r *Rand, xs []T) T { return xs[r.Intn(len(xs))] }

// Shuffle permutes xs in place.
func Shuffle[T any](r *Rand, xs []T) {
	for i := len(xs) - 1; i > 0; i-- {
		j := r.Intn(i + 1)
		xs[i], xs[j] = xs[j], xs[i]
	}
}
