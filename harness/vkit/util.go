package vkit

import (
	"crypto/sha256"
	"encoding/hex"
	"fmt"
	"sort"
)

func SortedKeys[V any](m map[string]V) []string {
	ks := make([]string, 0, len(m))
	for k := range m {
		ks = append(ks, k)
	}
	sort.Strings(ks)
	return ks
}

func Ptr[T any](v T) *T { return &v }

func Deref[T any](p *T) T {
	var z T
	if p == nil {
		return z
	}
	return *p
}

// HashHex is a short content fingerprint for evidence / diffs.
func HashHex(b []byte) string {
	h := sha256.Sum256(b)
	return hex.EncodeToString(h[:8])
}

// Brief describes a byte string compactly.
func Brief(b []byte) string { return fmt.Sprintf("%dB:%s", len(b), HashHex(b)) }
