package main

import (
	"crypto/sha256"
	"encoding/hex"
	"encoding/json"
	"fmt"
	"sort"
	"strings"

	"github.com/jdillenkofer/pithos/internal/verif/vkit"
)

// ---------------------------------------------------------------------------
// reference model of what the storage outbox must expose: buckets, per key the
// current object (content, content type, user-controllable metadata, tags,
// storage class). Versioned buckets are modelled by their *current view* only
// (a put makes the key present with that content, a key-only delete makes it
// absent); version lists are not modelled.
// ---------------------------------------------------------------------------

type mMeta struct {
	CacheControl       string            `json:"cc,omitempty"`
	ContentDisposition string            `json:"cd,omitempty"`
	ContentEncoding    string            `json:"ce,omitempty"`
	ContentLanguage    string            `json:"cl,omitempty"`
	Expires            string            `json:"ex,omitempty"`
	User               map[string]string `json:"user,omitempty"`
}

// objFP is the comparable fingerprint of one object state.
type objFP struct {
	Content string // sha256 prefix + length ("-" absent is never stored here)
	CType   string
	Meta    string
	Tags    string
	Class   string
}

var fpAbsent = objFP{Content: "-"}

func (f objFP) String() string {
	if f == fpAbsent {
		return "absent"
	}
	return fmt.Sprintf("{content=%s ctype=%q meta=%s tags=%s class=%s}", f.Content, f.CType, f.Meta, f.Tags, f.Class)
}

func contentFP(b []byte) string {
	h := sha256.Sum256(b)
	return fmt.Sprintf("%s/%d", hex.EncodeToString(h[:6]), len(b))
}

func mapFP(m map[string]string) string {
	if len(m) == 0 {
		return "{}"
	}
	ks := make([]string, 0, len(m))
	for k := range m {
		ks = append(ks, k)
	}
	sort.Strings(ks)
	var sb strings.Builder
	sb.WriteString("{")
	for i, k := range ks {
		if i > 0 {
			sb.WriteString(",")
		}
		sb.WriteString(k + "=" + m[k])
	}
	sb.WriteString("}")
	return sb.String()
}

func metaFP(m mMeta) string {
	if len(m.User) == 0 {
		m.User = nil
	}
	j, _ := json.Marshal(m)
	return string(j)
}

func classFP(c string) string {
	if c == "" {
		return "STANDARD"
	}
	return c
}

// diffFP names the fields in which two fingerprints differ.
func diffFP(want, got objFP) []string {
	var d []string
	if want.Content != got.Content {
		d = append(d, "content")
	}
	if want.CType != got.CType {
		d = append(d, "content-type")
	}
	if want.Meta != got.Meta {
		d = append(d, "metadata")
	}
	if want.Tags != got.Tags {
		d = append(d, "tags")
	}
	if want.Class != got.Class {
		d = append(d, "storage-class")
	}
	return d
}

type mObj struct {
	FP    objFP
	ETag  string // as returned by the accepting call (queued put) or by a later head
	Size  int
	Bytes []byte // content (needed to extend it by an append)
}

type mBucket struct {
	Objects       map[string]*mObj
	Versioning    string // "" | Enabled | Suspended
	EverVersioned bool
	// History keeps every state a key went through (for classifying a wrong
	// read as "older state" vs "state that never existed").
	History map[string][]objFP
}

type c21Model struct {
	Buckets map[string]*mBucket
}

func newC21Model() *c21Model { return &c21Model{Buckets: map[string]*mBucket{}} }

func (m *c21Model) bucket(b string) *mBucket { return m.Buckets[b] }

func (m *c21Model) get(b, k string) *mObj {
	if bk := m.Buckets[b]; bk != nil {
		return bk.Objects[k]
	}
	return nil
}

func (m *c21Model) fp(b, k string) objFP {
	if o := m.get(b, k); o != nil {
		return o.FP
	}
	return fpAbsent
}

func (m *c21Model) createBucket(b string) {
	m.Buckets[b] = &mBucket{Objects: map[string]*mObj{}, History: map[string][]objFP{}}
}

func (m *c21Model) deleteBucket(b string) { delete(m.Buckets, b) }

func (m *c21Model) set(b, k string, o *mObj) {
	bk := m.Buckets[b]
	if bk == nil {
		return
	}
	if o == nil {
		delete(bk.Objects, k)
		bk.History[k] = append(bk.History[k], fpAbsent)
		return
	}
	bk.Objects[k] = o
	bk.History[k] = append(bk.History[k], o.FP)
}

// wasEarlierState: fp is a state the key had before its current one.
func (m *c21Model) wasEarlierState(b, k string, fp objFP) bool {
	bk := m.Buckets[b]
	if bk == nil {
		return false
	}
	h := bk.History[k]
	if len(h) == 0 {
		return fp == fpAbsent && false
	}
	for _, x := range h[:len(h)-1] {
		if x == fp {
			return true
		}
	}
	return false
}

func (m *c21Model) keys(b string) []string {
	bk := m.Buckets[b]
	if bk == nil {
		return nil
	}
	return vkit.SortedKeys(bk.Objects)
}

func (m *c21Model) bucketNames() []string { return vkit.SortedKeys(m.Buckets) }

// ---------------------------------------------------------------------------
// generated steps
// ---------------------------------------------------------------------------

type c21Step struct {
	Op       string            `json:"op"`
	Bucket   string            `json:"b,omitempty"`
	Key      string            `json:"k,omitempty"`
	Bucket2  string            `json:"b2,omitempty"` // copy destination
	Key2     string            `json:"k2,omitempty"`
	Keys     []string          `json:"keys,omitempty"` // delete-multi
	Size     int               `json:"size,omitempty"`
	Seq      int               `json:"seq,omitempty"`
	CType    string            `json:"ctype,omitempty"`
	Tags     map[string]string `json:"tags,omitempty"`
	Meta     *mMeta            `json:"meta,omitempty"`
	Class    string            `json:"class,omitempty"`
	Cond     string            `json:"cond,omitempty"`      // none-match-star | match-current | match-bogus
	Status   string            `json:"status,omitempty"`    // versioning: Enabled | Suspended
	CopyMode string            `json:"copy_mode,omitempty"` // plain | class | replace-tags | replace-meta
	PreUs    int               `json:"pre_us,omitempty"`
	Leased   bool              `json:"leased,omitempty"` // the queued entry is left claimed by a foreign owner (see execLeased)
}

func c21Content(key string, client, seq, size int) []byte {
	if size == 0 {
		return []byte{}
	}
	hdr := fmt.Sprintf("k=%s;c=%d;s=%d;n=%d;", key, client, seq, size)
	if size <= len(hdr) {
		return []byte(hdr)[:size]
	}
	pad := vkit.NewRand(uint64(client)<<32 ^ uint64(seq)<<4 ^ 0xC21).Bytes(size - len(hdr))
	return append([]byte(hdr), pad...)
}

var c21Classes = []string{"", "", "STANDARD", "STANDARD_IA", "GLACIER", "ONEZONE_IA"}
var c21CTypes = []string{"", "text/plain", "application/octet-stream", "application/json"}

func genTags(rg *vkit.Rand) map[string]string {
	if rg.Chance(55) {
		return nil
	}
	t := map[string]string{}
	for i := 0; i < rg.Range(1, 3); i++ {
		t[fmt.Sprintf("t%d", rg.Intn(4))] = fmt.Sprintf("v%d", rg.Intn(100))
	}
	return t
}

func genMeta(rg *vkit.Rand) *mMeta {
	if rg.Chance(55) {
		return nil
	}
	m := &mMeta{}
	if rg.Chance(50) {
		m.CacheControl = fmt.Sprintf("max-age=%d", rg.Range(1, 999))
	}
	if rg.Chance(25) {
		m.ContentDisposition = "attachment"
	}
	if rg.Chance(25) {
		m.ContentEncoding = "identity"
	}
	if rg.Chance(25) {
		m.ContentLanguage = vkit.Pick(rg, []string{"en", "de"})
	}
	if rg.Chance(20) {
		m.Expires = "Wed, 21 Oct 2099 07:28:00 GMT"
	}
	if rg.Chance(60) {
		m.User = map[string]string{}
		for i := 0; i < rg.Range(1, 2); i++ {
			m.User[fmt.Sprintf("u%d", rg.Intn(3))] = fmt.Sprintf("x%d", rg.Intn(100))
		}
	}
	if metaFP(*m) == metaFP(mMeta{}) {
		return nil
	}
	return m
}

func (s c21Step) objFP(client int) objFP {
	content := c21Content(s.Key, client, s.Seq, s.Size)
	fp := objFP{Content: contentFP(content), CType: s.CType, Tags: mapFP(s.Tags), Class: classFP(s.Class), Meta: metaFP(mMeta{})}
	if s.Meta != nil {
		fp.Meta = metaFP(*s.Meta)
	}
	return fp
}
