// Engine "outboxes": runtime monitors for the two outbox layers.
//
//	C18  outbox part store: recorded concurrent client histories (porcupine per
//	     part id + containment rule for GetPartIds) and idle-state equality with
//	     the committed map, under two flush workers, forced lease expiry and
//	     worker restarts.
//	C21  storage outbox: read-your-writes against a reference model, and
//	     convergence of the inner storage after drain.
package main

import (
	"flag"
	"fmt"
	"os"
)

func main() {
	prop := flag.String("prop", "", "property id")
	tier := flag.String("tier", "", "quick|thorough")
	replay := flag.String("replay", "", "replay file")
	child := flag.String("child", "", "child batch file (internal)")
	dump := flag.Int("dump", -1, "developer aid: run case <n> of the current seed in-process and print what was recorded")
	flag.Parse()
	if *dump >= 0 {
		dumpCase(*prop, *tier, *dump)
		return
	}
	if *child != "" {
		runChild(*child)
		return
	}
	switch *prop {
	case "C18":
		runC18(*tier, *replay)
	case "C21":
		runC21(*tier, *replay)
	default:
		fmt.Fprintln(os.Stderr, "engine outboxes: unknown property", *prop)
		os.Exit(3)
	}
}
