package main

import (
	"context"
	"database/sql"
	"errors"
	"fmt"
	"hash/crc32"
	"hash/fnv"
	"io"
	"os"
	"path/filepath"
	"sort"
	"strings"
	"sync"
	"sync/atomic"
	"time"

	"github.com/oklog/ulid/v2"
	"github.com/prometheus/client_golang/prometheus"

	"github.com/jdillenkofer/pithos/internal/storage/database"
	repositoryfactory "github.com/jdillenkofer/pithos/internal/storage/database/repository"
	"github.com/jdillenkofer/pithos/internal/storage/database/repository/partoutboxentry"
	"github.com/jdillenkofer/pithos/internal/storage/database/sqlite"
	"github.com/jdillenkofer/pithos/internal/storage/metadatapart/partstore"
	fspartstore "github.com/jdillenkofer/pithos/internal/storage/metadatapart/partstore/filesystem"
	outboxpartstore "github.com/jdillenkofer/pithos/internal/storage/metadatapart/partstore/outbox"
	sqlpartstore "github.com/jdillenkofer/pithos/internal/storage/metadatapart/partstore/sql"
	"github.com/jdillenkofer/pithos/internal/verif/vkit"
	"github.com/jdillenkofer/pithos/internal/verifhook"
)

// ---------------------------------------------------------------------------
// case specification (pure function of VERIF_SEED, tier and the case index)
// ---------------------------------------------------------------------------

type c18Op struct {
	Kind   string `json:"k"` // put | del | get | ids
	Id     int    `json:"id"`
	Size   int    `json:"size,omitempty"` // put: 0 = empty part
	Seq    int    `json:"seq"`
	PreUs  int    `json:"pre_us,omitempty"`
	HoldMs int    `json:"hold_ms,omitempty"` // put: hold the write tx open (slow body); get: hold the reader open
	Mode   string `json:"mode,omitempty"`    // get: txfree | tx
	Inst   int    `json:"inst"`
}

type hookRule struct {
	Point   string `json:"point"`
	Hits    []int  `json:"hits,omitempty"`  // 1-based hit numbers of the point that sleep
	Every   int    `json:"every,omitempty"` // or: every n-th hit
	DelayMs int    `json:"delay_ms"`
}

// stallRule delays the inner part store call of a flush worker (test double
// between the outbox store and the real inner store).
type stallRule struct {
	Op      string `json:"op"`    // put | del
	Hits    []int  `json:"hits"`  // 1-based call numbers of that inner operation
	Where   string `json:"where"` // before | after-read (data fetched, not yet written) | eof (replay reader delivered everything)
	DelayMs int    `json:"delay_ms"`
}

type restartRule struct {
	AfterMs int `json:"after_ms"`
	Inst    int `json:"inst"`
}

type c18Spec struct {
	Index     int          `json:"index"`
	Seed      uint64       `json:"seed"`
	Profile   string       `json:"profile"`
	Inner     string       `json:"inner"` // fs | sql
	Instances int          `json:"instances"`
	LeaseMs   int          `json:"lease_ms"`
	NIds      int          `json:"n_ids"`
	Writers   [][]c18Op    `json:"writers"`
	Readers   [][]c18Op    `json:"readers"`
	Hooks     []hookRule   `json:"hooks,omitempty"`
	Stalls    []stallRule  `json:"stalls,omitempty"`
	Restart   *restartRule `json:"restart,omitempty"`
}

var c18Profiles = []string{"baseline", "expire-after-replay", "expire-after-claim", "starve-heartbeat", "restart-two", "restart-one", "expire-late", "expire-replay-slow-inner"}

func genC18Spec(rng *vkit.Rand, index int) c18Spec {
	rg := rng.Fork(fmt.Sprintf("c18-case-%d", index))
	s := c18Spec{Index: index, Seed: rg.Uint64(), NIds: 3, LeaseMs: 30}
	s.Profile = c18Profiles[index%len(c18Profiles)]
	if (index/len(c18Profiles))%2 == 0 {
		s.Inner = "fs"
	} else {
		s.Inner = "sql"
	}
	s.Instances = 2
	if s.Profile == "baseline" || s.Profile == "restart-one" {
		s.Instances = 1
	}
	holdPuts := s.Profile == "starve-heartbeat" || rg.Chance(30)
	seq := 0
	for w := 0; w < 3; w++ {
		var ops []c18Op
		n := rg.Range(7, 9)
		for len(ops) < n {
			id := rg.Intn(s.NIds)
			inst := rg.Intn(s.Instances)
			mk := func(kind string) c18Op {
				seq++
				op := c18Op{Kind: kind, Id: id, Seq: seq, PreUs: rg.Intn(14000), Inst: inst}
				if kind == "put" {
					switch {
					case rg.Chance(15):
						op.Size = 0
					case rg.Chance(8):
						op.Size = rg.Range(20000, 70000)
					default:
						op.Size = rg.Range(48, 400)
					}
					if holdPuts && rg.Chance(45) {
						op.HoldMs = rg.Range(35, 80)
					}
				}
				return op
			}
			if rg.Chance(30) { // put-then-delete-then-put on one id
				ops = append(ops, mk("put"), mk("del"), mk("put"))
			} else if rg.Chance(60) {
				ops = append(ops, mk("put"))
			} else {
				ops = append(ops, mk("del"))
			}
		}
		s.Writers = append(s.Writers, ops)
	}
	for rd := 0; rd < 3; rd++ {
		var ops []c18Op
		n := rg.Range(12, 15)
		for i := 0; i < n; i++ {
			seq++
			op := c18Op{Seq: seq, PreUs: rg.Intn(9000), Inst: rg.Intn(s.Instances)}
			if rg.Chance(25) {
				op.Kind = "ids"
			} else {
				op.Kind = "get"
				op.Id = rg.Intn(s.NIds)
				op.Mode = "tx"
				if s.Inner == "fs" && rg.Chance(55) {
					op.Mode = "txfree"
				}
				if rg.Chance(45) {
					op.HoldMs = rg.Range(2, 25)
				}
			}
			ops = append(ops, op)
		}
		s.Readers = append(s.Readers, ops)
	}
	// nW = number of outbox entries this case produces; hook hit numbers are
	// spread over the whole run, including the last entries (damage done to
	// the inner store by an early entry is usually repaired by later writes)
	nW := 0
	for _, w := range s.Writers {
		nW += len(w)
	}
	switch s.Profile {
	case "baseline":
		// every inner listing issued on behalf of GetPartIds is slow
		var all []int
		for i := 1; i <= 40; i++ {
			all = append(all, i)
		}
		s.Stalls = append(s.Stalls, stallRule{Op: "ids", Hits: all, Where: "around", DelayMs: rg.Range(3, 12)})
		if rg.Chance(50) {
			s.Hooks = append(s.Hooks, hookRule{Point: "tx.commit.after-db", Every: rg.Range(2, 5), DelayMs: rg.Range(1, 3)})
		}
	case "expire-after-replay":
		s.Hooks = append(s.Hooks, hookRule{Point: "partoutbox.after-replay", Hits: append(pickHits(rg, 3, nW-4), pickHitsIn(rg, 1, nW-3, nW)...), DelayMs: rg.Range(60, 110)})
	case "expire-after-claim":
		s.Hooks = append(s.Hooks, hookRule{Point: "partoutbox.after-claim", Hits: append(pickHits(rg, 3, nW-4), pickHitsIn(rg, 1, nW-3, nW)...), DelayMs: rg.Range(60, 110)})
	case "starve-heartbeat":
		s.Stalls = append(s.Stalls, stallRule{Op: "put", Hits: pickHits(rg, 3, 8), Where: vkit.Pick(rg, []string{"before", "eof", "after-read", "after-read"}), DelayMs: rg.Range(80, 140)})
		if rg.Chance(50) {
			s.Stalls = append(s.Stalls, stallRule{Op: "del", Hits: pickHits(rg, 2, 5), Where: "before", DelayMs: rg.Range(60, 100)})
		}
	case "restart-two":
		s.Restart = &restartRule{AfterMs: rg.Range(10, 80), Inst: 1}
		s.Hooks = append(s.Hooks, hookRule{Point: "partoutbox.after-replay", Hits: pickHits(rg, 2, 6), DelayMs: rg.Range(50, 90)})
		s.Stalls = append(s.Stalls, stallRule{Op: "put", Hits: pickHits(rg, 2, 6), Where: "before", DelayMs: rg.Range(20, 60)})
	case "expire-replay-slow-inner":
		// the first owner sleeps between replay and finalize while the worker that
		// takes the entry over is itself slow inside the inner store
		s.Hooks = append(s.Hooks, hookRule{Point: "partoutbox.after-replay", Hits: append(pickHits(rg, 4, nW-4), pickHitsIn(rg, 2, nW-3, nW)...), DelayMs: rg.Range(60, 100)})
		s.Stalls = append(s.Stalls, stallRule{Op: "put", Hits: everyOther(rg, 30), Where: vkit.Pick(rg, []string{"before", "after-read"}), DelayMs: rg.Range(40, 90)})
	case "expire-late":
		// the lease of one of the last entries expires while its worker is paused
		// for longer than the other worker's 1 s poll interval
		pt := vkit.Pick(rg, []string{"partoutbox.after-claim", "partoutbox.after-replay"})
		s.Hooks = append(s.Hooks, hookRule{Point: pt, Hits: pickHitsIn(rg, 2, nW-8, nW), DelayMs: rg.Range(1150, 1400)})
	case "restart-one":
		s.Restart = &restartRule{AfterMs: rg.Range(10, 80), Inst: 0}
		s.Hooks = append(s.Hooks, hookRule{Point: "partoutbox.after-claim", Hits: pickHits(rg, 2, 5), DelayMs: rg.Range(40, 80)})
	}
	if rg.Chance(40) {
		s.Hooks = append(s.Hooks, hookRule{Point: "tx.commit.before-db", Every: rg.Range(3, 7), DelayMs: rg.Range(1, 4)})
	}
	return s
}

func everyOther(rg *vkit.Rand, max int) []int {
	var hs []int
	for i := 1 + rg.Intn(2); i <= max; i += 2 {
		hs = append(hs, i)
	}
	return hs
}

func pickHitsIn(rg *vkit.Rand, count, lo, hi int) []int {
	set := map[int]struct{}{}
	for len(set) < count {
		set[rg.Range(lo, hi)] = struct{}{}
	}
	return sortedInts(set)
}

func pickHits(rg *vkit.Rand, count, max int) []int {
	set := map[int]struct{}{}
	for len(set) < count {
		set[rg.Range(1, max)] = struct{}{}
	}
	return sortedInts(set)
}

// ---------------------------------------------------------------------------
// values: every put writes a self-identifying, self-validating byte string
// ---------------------------------------------------------------------------

func c18Value(id, client, seq, size int) []byte {
	if size == 0 {
		return []byte{}
	}
	hdr := fmt.Sprintf("P%d.c%d.s%d.n%d|", id, client, seq, size)
	pad := size - len(hdr) - 9
	if pad < 0 {
		pad = 0
	}
	body := vkit.NewRand(uint64(client)<<40 ^ uint64(seq)<<12 ^ uint64(id) ^ 0xC18C18).Bytes(pad)
	b := append([]byte(hdr), body...)
	b = append(b, fmt.Sprintf("|%08x", crc32.ChecksumIEEE(b))...)
	return b
}

// c18Name identifies the bytes read for part id: "EMPTY", "c<client>.s<seq>"
// for a complete value written to this id, or a description of bytes nobody
// wrote ("TORN…", "FOREIGN…").
func c18Name(id int, b []byte) string {
	if len(b) == 0 {
		return "EMPTY"
	}
	var pid, cl, seq, n int
	if k, err := fmt.Sscanf(string(b[:min(len(b), 48)]), "P%d.c%d.s%d.n%d|", &pid, &cl, &seq, &n); err == nil && k == 4 {
		want := c18Value(pid, cl, seq, n)
		if string(want) == string(b) {
			if pid != id {
				return fmt.Sprintf("FOREIGN(P%d.c%d.s%d)", pid, cl, seq)
			}
			return fmt.Sprintf("c%d.s%d", cl, seq)
		}
		common := 0
		for common < len(want) && common < len(b) && want[common] == b[common] {
			common++
		}
		return fmt.Sprintf("TORN(len=%d,header=P%d.c%d.s%d.n%d,matches-first=%d)", len(b), pid, cl, seq, n, common)
	}
	return fmt.Sprintf("TORN(len=%d,no-header,%s)", len(b), vkit.HashHex(b))
}

// ---------------------------------------------------------------------------
// recorded history
// ---------------------------------------------------------------------------

type c18Rec struct {
	Client int    `json:"c"`
	Kind   string `json:"k"`
	Id     int    `json:"id"`
	Seq    int    `json:"seq"`
	Call   int64  `json:"call"`
	Ret    int64  `json:"ret"`
	InTx   int64  `json:"in_tx,omitempty"` // writes: tick taken inside the (exclusive) write transaction
	Val    string `json:"val,omitempty"`   // put: value name; get: observed value name | NOTFOUND | ERR
	Ids    []int  `json:"ids,omitempty"`
	Err    string `json:"err,omitempty"`
	Mode   string `json:"mode,omitempty"`
	Inst   int    `json:"inst"`
}

type c18Event struct {
	T    int64  `json:"t"`
	Who  string `json:"who"`
	Ev   string `json:"ev"`
	Part int    `json:"part"`
	Info string `json:"info,omitempty"`
}

type c18Run struct {
	spec    c18Spec
	dir     string
	db      database.Database
	partIds []partstore.PartId
	partIdx map[string]int

	instMu    sync.Mutex
	instances []partstore.PartStore
	allStores []partstore.PartStore

	histMu sync.Mutex
	hist   []c18Rec
	evMu   sync.Mutex
	events []c18Event
	stale  []c18StaleOp

	sleepers      atomic.Int64
	innerInflight atomic.Int64
	innerPuts     atomic.Int64
	innerDels     atomic.Int64
	innerIds      atomic.Int64
	hookSleeps    atomic.Int64
	stallSleeps   atomic.Int64

	repo *recRepo
}

func (c *c18Run) logEvent(who, ev string, part int, info string) {
	t := tick()
	c.evMu.Lock()
	c.events = append(c.events, c18Event{T: t, Who: who, Ev: ev, Part: part, Info: info})
	c.evMu.Unlock()
}

func (c *c18Run) record(r c18Rec) {
	c.histMu.Lock()
	c.hist = append(c.hist, r)
	c.histMu.Unlock()
}

func (c *c18Run) sleep(ms int) {
	c.sleepers.Add(1)
	time.Sleep(time.Duration(ms) * time.Millisecond)
	c.sleepers.Add(-1)
}

func (c *c18Run) inst(i int) partstore.PartStore {
	c.instMu.Lock()
	defer c.instMu.Unlock()
	return c.instances[i%len(c.instances)]
}

// ---- recording repository double (observes claims / finalizes / heartbeats) ----

// instKey carries the instance label on the context given to Start(); the
// outbox store derives its worker context from it (context.WithoutCancel keeps
// values), so every repository and inner-store call of a worker identifies it.
type instKey struct{}

func instLabel(ctx context.Context) string {
	if l, ok := ctx.Value(instKey{}).(string); ok {
		return l
	}
	return "client"
}

type c18StaleOp struct {
	Begin int64  `json:"begin"`
	Part  int    `json:"part"`
	Kind  string `json:"kind"` // stale-put | stale-delete
	Who   string `json:"who"`
	// Premature: the claim was taken away from this worker although the lease
	// pithos had granted it (claim_until of the claim / last heartbeat) was
	// still in the future according to the taker's own "now" argument.
	Premature bool `json:"premature_takeover,omitempty"`
	// FinalizedByNonOwner: the entry was deleted by a worker that did not hold
	// its claim while this worker (the claim holder) was still replaying it.
	FinalizedByNonOwner bool `json:"finalized_by_non_owner,omitempty"`
}

type recRepo struct {
	partoutboxentry.Repository
	c *c18Run

	mu           sync.Mutex
	lastOwner    map[string]string // entry id -> worker label holding the last successful claim
	finalizedIds map[string]bool
	current      map[string]string // worker label -> entry id it claimed last
	premature    map[string]bool   // entry id -> taken over before its lease expired
	prematureN   int64
	nonOwnerFin  map[string]bool // entry id -> finalized by a worker that was not the claim holder
	nonOwnerFinN int64
	claims       int64
	takeovers    int64
	finalized    int64
	finalizeLost int64
	released     int64
	heartbeats   int64
	hbLost       int64
	entryPart    map[string]int
}

// claimLost reports whether worker l no longer holds the claim of the entry it
// claimed last (somebody else took it over, or it was already finalized).
func (r *recRepo) claimLost(l string) (entry string, lost, premature, nonOwnerFinalize bool) {
	r.mu.Lock()
	defer r.mu.Unlock()
	e := r.current[l]
	if e == "" {
		return "", false, false, false
	}
	return e, r.lastOwner[e] != l || r.finalizedIds[e], r.premature[e], r.lastOwner[e] == l && r.nonOwnerFin[e]
}

func short(id string) string {
	if len(id) > 6 {
		return id[len(id)-6:]
	}
	return id
}

func (r *recRepo) ClaimFirstPartOutboxEntry(ctx context.Context, tx *sql.Tx, outboxId string, owner string, now time.Time, claimUntil time.Time) (*partoutboxentry.Entity, bool, error) {
	// what the table says about the head entry's claim before this attempt (same
	// write transaction, so this is the committed state the claim CAS sees)
	var prevId string
	var prevOwner sql.NullString
	var prevUntil sql.NullTime
	_ = tx.QueryRowContext(ctx, "SELECT id, claim_owner, claim_until FROM part_outbox_entries WHERE outbox_id = $1 ORDER BY id ASC LIMIT 1", outboxId).Scan(&prevId, &prevOwner, &prevUntil)
	e, claimed, err := r.Repository.ClaimFirstPartOutboxEntry(ctx, tx, outboxId, owner, now, claimUntil)
	if err == nil && claimed && e != nil {
		l := instLabel(ctx)
		r.mu.Lock()
		id := e.Id.String()
		prev := r.lastOwner[id]
		r.lastOwner[id] = l
		r.current[l] = id
		r.claims++
		part := r.c.partIdx[e.PartId.String()]
		r.entryPart[id] = part
		ev := "claim"
		if prev != "" && prev != l {
			r.takeovers++
			ev = "takeover-of-" + prev
		}
		if prevId == id && prevOwner.Valid && prevOwner.String != owner && prevUntil.Valid && now.Before(prevUntil.Time) {
			// the stored lease of another owner had not expired at the taker's own "now"
			r.premature[id] = true
			r.prematureN++
			ev = "premature-" + ev
		}
		r.mu.Unlock()
		r.c.logEvent(l, ev, part, e.Operation+" "+short(id))
	}
	return e, claimed, err
}

func (r *recRepo) DeletePartOutboxEntryByClaimOwner(ctx context.Context, tx *sql.Tx, outboxId string, id ulid.ULID, owner string) (bool, error) {
	ok, err := r.Repository.DeletePartOutboxEntryByClaimOwner(ctx, tx, outboxId, id, owner)
	if err == nil {
		l := instLabel(ctx)
		r.mu.Lock()
		part := r.entryPart[id.String()]
		if ok {
			r.finalized++
			r.finalizedIds[id.String()] = true
			if r.lastOwner[id.String()] != l {
				r.nonOwnerFin[id.String()] = true
				r.nonOwnerFinN++
			}
		} else {
			r.finalizeLost++
		}
		r.mu.Unlock()
		ev := "finalize"
		if !ok {
			ev = "finalize-lost"
		}
		r.c.logEvent(l, ev, part, short(id.String()))
	}
	return ok, err
}

func (r *recRepo) ReleasePartOutboxEntryClaim(ctx context.Context, tx *sql.Tx, outboxId string, id ulid.ULID, owner string, now time.Time) (bool, error) {
	ok, err := r.Repository.ReleasePartOutboxEntryClaim(ctx, tx, outboxId, id, owner, now)
	if err == nil && ok {
		l := instLabel(ctx)
		r.mu.Lock()
		delete(r.lastOwner, id.String())
		r.released++
		part := r.entryPart[id.String()]
		r.mu.Unlock()
		r.c.logEvent(l, "release", part, short(id.String()))
	}
	return ok, err
}

func (r *recRepo) ExtendPartOutboxEntryClaim(ctx context.Context, tx *sql.Tx, outboxId string, id ulid.ULID, owner string, now time.Time, claimUntil time.Time) (bool, error) {
	ok, err := r.Repository.ExtendPartOutboxEntryClaim(ctx, tx, outboxId, id, owner, now, claimUntil)
	if err == nil {
		r.mu.Lock()
		if ok {
			r.heartbeats++
		} else {
			r.hbLost++
		}
		r.mu.Unlock()
	}
	return ok, err
}

// ---- stalling / recording double around the real inner part store ----

type stallStore struct {
	partstore.PartStore
	c *c18Run
}

func (s *stallStore) Capabilities() partstore.Capabilities {
	return partstore.CapabilitiesOf(s.PartStore)
}

func (c *c18Run) stallFor(op string, n int64) *stallRule {
	for i := range c.spec.Stalls {
		r := &c.spec.Stalls[i]
		if r.Op != op {
			continue
		}
		for _, h := range r.Hits {
			if int64(h) == n {
				return r
			}
		}
	}
	return nil
}

type eofStallReader struct {
	r     io.Reader
	c     *c18Run
	ms    int
	fired bool
	// afterRead: stall once after the first data was read (before the store
	// writes it) instead of at EOF
	afterRead bool
}

func (e *eofStallReader) Read(p []byte) (int, error) {
	n, err := e.r.Read(p)
	if e.afterRead {
		// pause between fetching the data and handing it to the store's writer
		if n > 0 && !e.fired {
			e.fired = true
			e.c.stallSleeps.Add(1)
			e.c.sleep(e.ms)
		}
		return n, err
	}
	if err == io.EOF && !e.fired {
		e.fired = true
		e.c.stallSleeps.Add(1)
		e.c.sleep(e.ms)
	}
	return n, err
}

// noteReplay logs one inner-store call of a worker and records it as a stale
// replay when the worker does not hold the entry's claim any more at the
// beginning or at the end of the call.
func (s *stallStore) noteReplay(ctx context.Context, kind string, part int, tx database.Tx, run func() error) error {
	who := instLabel(ctx)
	s.c.innerInflight.Add(1)
	defer s.c.innerInflight.Add(-1)
	entry, lostAtBegin, prem1, nof1 := s.c.repo.claimLost(who)
	begin := tick()
	s.c.evMu.Lock()
	s.c.events = append(s.c.events, c18Event{T: begin, Who: who, Ev: "inner-" + kind + "-begin", Part: part, Info: fmt.Sprintf("entry=%s tx=%v claim-lost=%v", short(entry), tx != nil, lostAtBegin)})
	s.c.evMu.Unlock()
	err := run()
	_, lostAtEnd, prem2, nof2 := s.c.repo.claimLost(who)
	s.c.logEvent(who, "inner-"+kind+"-end", part, fmt.Sprintf("claim-lost=%v err=%s", lostAtEnd, errString(err)))
	if lostAtBegin || lostAtEnd {
		k := "stale-put"
		if kind == "del" {
			k = "stale-delete"
		}
		s.c.evMu.Lock()
		s.c.stale = append(s.c.stale, c18StaleOp{Begin: begin, Part: part, Kind: k, Who: who, Premature: prem1 || prem2, FinalizedByNonOwner: nof1 || nof2})
		s.c.evMu.Unlock()
	}
	return err
}

func (s *stallStore) PutPart(ctx context.Context, tx database.Tx, partId partstore.PartId, reader io.Reader) error {
	n := s.c.innerPuts.Add(1)
	part := s.c.partIdx[partId.String()]
	return s.noteReplay(ctx, "put", part, tx, func() error {
		if rule := s.c.stallFor("put", n); rule != nil {
			if rule.Where == "before" {
				s.c.stallSleeps.Add(1)
				s.c.sleep(rule.DelayMs)
			} else {
				reader = &eofStallReader{r: reader, c: s.c, ms: rule.DelayMs, afterRead: rule.Where == "after-read"}
			}
		}
		return s.PartStore.PutPart(ctx, tx, partId, reader)
	})
}

// GetPartIds: an "ids" stall rule pauses the caller before AND after the inner
// listing, so that flush steps of the worker fall between whatever else the
// outbox part store looks at for the same answer.
func (s *stallStore) GetPartIds(ctx context.Context, tx database.Tx) ([]partstore.PartId, error) {
	n := s.c.innerIds.Add(1)
	rule := s.c.stallFor("ids", n)
	if rule != nil {
		s.c.stallSleeps.Add(1)
		s.c.sleep(rule.DelayMs)
	}
	ids, err := s.PartStore.GetPartIds(ctx, tx)
	if rule != nil {
		s.c.sleep(rule.DelayMs)
	}
	return ids, err
}

func (s *stallStore) DeletePart(ctx context.Context, tx database.Tx, partId partstore.PartId) error {
	n := s.c.innerDels.Add(1)
	part := s.c.partIdx[partId.String()]
	return s.noteReplay(ctx, "del", part, tx, func() error {
		if rule := s.c.stallFor("del", n); rule != nil {
			s.c.stallSleeps.Add(1)
			s.c.sleep(rule.DelayMs)
		}
		return s.PartStore.DeletePart(ctx, tx, partId)
	})
}

// ---------------------------------------------------------------------------
// execution of one case
// ---------------------------------------------------------------------------

func (c *c18Run) newInner() (partstore.PartStore, error) {
	switch c.spec.Inner {
	case "fs":
		return fspartstore.New(filepath.Join(c.dir, "parts"))
	case "sql":
		repo, err := repositoryfactory.NewPartContentRepository(c.db)
		if err != nil {
			return nil, err
		}
		return sqlpartstore.New(c.db, repo)
	}
	return nil, fmt.Errorf("unknown inner %q", c.spec.Inner)
}

func (c *c18Run) newInstance(label string) (partstore.PartStore, error) {
	inner, err := c.newInner()
	if err != nil {
		return nil, err
	}
	st, err := outboxpartstore.New(c.db, "c18", &stallStore{PartStore: inner, c: c}, c.repo, prometheus.NewRegistry(), time.Duration(c.spec.LeaseMs)*time.Millisecond)
	if err != nil {
		return nil, err
	}
	if err := st.Start(context.WithValue(context.Background(), instKey{}, label)); err != nil {
		return nil, err
	}
	c.instMu.Lock()
	c.allStores = append(c.allStores, st)
	c.instMu.Unlock()
	return st, nil
}

func (c *c18Run) installHooks() {
	verifhook.Clear()
	for i := range c.spec.Hooks {
		rule := c.spec.Hooks[i]
		verifhook.Set(rule.Point, func(_ string, n int64) error {
			fire := false
			if rule.Every > 0 && n%int64(rule.Every) == 0 {
				fire = true
			}
			for _, h := range rule.Hits {
				if int64(h) == n {
					fire = true
				}
			}
			if fire {
				c.hookSleeps.Add(1)
				c.sleep(rule.DelayMs)
			}
			return nil
		})
	}
}

type holdReader struct {
	data []byte
	pos  int
	hold time.Duration
	held bool
}

// Read delivers the first half, then (once) holds the caller's write
// transaction open for the configured time, then delivers the rest.
func (h *holdReader) Read(p []byte) (int, error) {
	half := len(h.data) / 2
	if !h.held && h.pos >= half {
		h.held = true
		time.Sleep(h.hold)
	}
	if h.pos >= len(h.data) {
		return 0, io.EOF
	}
	limit := len(h.data)
	if !h.held {
		limit = half
	}
	n := copy(p, h.data[h.pos:limit])
	h.pos += n
	return n, nil
}

func (c *c18Run) doWrite(client int, op c18Op) {
	ctx := context.Background()
	st := c.inst(op.Inst)
	pid := c.partIds[op.Id]
	rec := c18Rec{Client: client, Kind: op.Kind, Id: op.Id, Seq: op.Seq, Inst: op.Inst}
	var data []byte
	if op.Kind == "put" {
		data = c18Value(op.Id, client, op.Seq, op.Size)
		rec.Val = c18Name(op.Id, data)
	}
	rec.Call = tick()
	err := database.WithTx(ctx, c.db, &sql.TxOptions{ReadOnly: false}, func(ctx context.Context, tx database.Tx) error {
		var err error
		if op.Kind == "put" {
			var rd io.Reader = &holdReader{data: data, held: op.HoldMs == 0, hold: time.Duration(op.HoldMs) * time.Millisecond}
			err = st.PutPart(ctx, tx, pid, rd)
		} else {
			err = st.DeletePart(ctx, tx, pid)
		}
		rec.InTx = tick()
		return err
	})
	rec.Ret = tick()
	rec.Err = errString(err)
	c.record(rec)
}

func readHeld(rc io.ReadCloser, holdMs int) ([]byte, error) {
	defer rc.Close()
	if holdMs <= 0 {
		return io.ReadAll(rc)
	}
	first := make([]byte, 24)
	n, err := io.ReadFull(rc, first)
	if err == io.EOF || err == io.ErrUnexpectedEOF {
		time.Sleep(time.Duration(holdMs) * time.Millisecond)
		return first[:n], nil
	}
	if err != nil {
		return first[:n], err
	}
	time.Sleep(time.Duration(holdMs) * time.Millisecond)
	rest, err := io.ReadAll(rc)
	return append(first[:n], rest...), err
}

func (c *c18Run) doGet(client int, op c18Op) {
	ctx := context.Background()
	st := c.inst(op.Inst)
	pid := c.partIds[op.Id]
	rec := c18Rec{Client: client, Kind: "get", Id: op.Id, Seq: op.Seq, Inst: op.Inst, Mode: op.Mode}
	var data []byte
	var err error
	rec.Call = tick()
	if op.Mode == "txfree" {
		var rc io.ReadCloser
		rc, err = st.GetPart(ctx, nil, pid)
		if err == nil {
			data, err = readHeld(rc, op.HoldMs)
		}
	} else {
		err = database.WithTx(ctx, c.db, &sql.TxOptions{ReadOnly: true}, func(ctx context.Context, tx database.Tx) error {
			rc, err := st.GetPart(ctx, tx, pid)
			if err != nil {
				return err
			}
			data, err = readHeld(rc, op.HoldMs)
			return err
		})
	}
	rec.Ret = tick()
	switch {
	case err == nil:
		rec.Val = c18Name(op.Id, data)
	case errors.Is(err, partstore.ErrPartNotFound):
		rec.Val = "NOTFOUND"
	default:
		rec.Val = "ERR"
		rec.Err = errString(err)
	}
	c.record(rec)
}

func (c *c18Run) doIds(client int, op c18Op) {
	ctx := context.Background()
	st := c.inst(op.Inst)
	rec := c18Rec{Client: client, Kind: "ids", Seq: op.Seq, Inst: op.Inst}
	var ids []partstore.PartId
	rec.Call = tick()
	err := database.WithTx(ctx, c.db, &sql.TxOptions{ReadOnly: true}, func(ctx context.Context, tx database.Tx) error {
		var err error
		ids, err = st.GetPartIds(ctx, tx)
		return err
	})
	rec.Ret = tick()
	if err != nil {
		rec.Err = errString(err)
	} else {
		rec.Ids = []int{}
		for _, id := range ids {
			if idx, ok := c.partIdx[id.String()]; ok {
				rec.Ids = append(rec.Ids, idx)
			} else {
				rec.Ids = append(rec.Ids, -1)
			}
		}
		sort.Ints(rec.Ids)
	}
	c.record(rec)
}

func (c *c18Run) pending() (int, error) {
	n := 0
	err := database.WithTx(context.Background(), c.db, &sql.TxOptions{ReadOnly: true}, func(ctx context.Context, tx database.Tx) error {
		var err error
		n, err = c.repo.Repository.Count(ctx, tx.SqlTx(), "c18")
		return err
	})
	return n, err
}

// waitIdle waits until the entry table is empty and no worker is inside a
// hook delay or an inner-store call (generous watchdog; false = gave up).
func (c *c18Run) waitIdle(limit time.Duration) bool {
	deadline := time.Now().Add(limit)
	stable := 0
	for time.Now().Before(deadline) {
		n, err := c.pending()
		if err == nil && n == 0 && c.sleepers.Load() == 0 && c.innerInflight.Load() == 0 {
			stable++
			if stable >= 3 {
				return true
			}
		} else {
			stable = 0
		}
		time.Sleep(10 * time.Millisecond)
	}
	return false
}

type c18InnerState struct {
	Ids  []int          `json:"ids"`
	Vals map[int]string `json:"vals"`
	Err  string         `json:"err,omitempty"`
}

type c18Outcome struct {
	Hist        []c18Rec      `json:"history"`
	Events      []c18Event    `json:"worker_events"`
	Stale       []c18StaleOp  `json:"stale_replays,omitempty"`
	Inner       c18InnerState `json:"inner_at_idle"`
	SetupErr    string        `json:"setup_err,omitempty"`
	IdleReached bool          `json:"idle_reached"`
	Restarted   bool          `json:"restarted"`
	counters    map[string]int64
	hookHits    map[string]int64
}

func execC18(spec c18Spec, dir string) *c18Outcome {
	out := &c18Outcome{counters: map[string]int64{}}
	_ = os.RemoveAll(dir)
	if err := os.MkdirAll(dir, 0o755); err != nil {
		out.SetupErr = err.Error()
		return out
	}
	db, err := sqlite.OpenDatabase(filepath.Join(dir, "pithos.db"))
	if err != nil {
		out.SetupErr = err.Error()
		return out
	}
	defer db.Close()
	c := &c18Run{spec: spec, dir: dir, db: db, partIdx: map[string]int{}}
	idRng := vkit.NewRand(spec.Seed)
	for i := 0; i < spec.NIds; i++ {
		b := idRng.Bytes(16)
		pid, _ := partstore.NewPartIdFromBytes(b)
		c.partIds = append(c.partIds, *pid)
		c.partIdx[pid.String()] = i
	}
	baseRepo, err := repositoryfactory.NewPartOutboxEntryRepository(db)
	if err != nil {
		out.SetupErr = err.Error()
		return out
	}
	c.repo = &recRepo{Repository: baseRepo, c: c, lastOwner: map[string]string{}, finalizedIds: map[string]bool{}, current: map[string]string{}, premature: map[string]bool{}, nonOwnerFin: map[string]bool{}, entryPart: map[string]int{}}
	observer, err := c.newInner()
	if err == nil {
		err = observer.Start(context.Background())
	}
	if err != nil {
		out.SetupErr = err.Error()
		return out
	}
	c.installHooks()
	defer verifhook.Clear()
	for i := 0; i < spec.Instances; i++ {
		st, err := c.newInstance(fmt.Sprintf("i%d", i))
		if err != nil {
			out.SetupErr = err.Error()
			return out
		}
		c.instances = append(c.instances, st)
	}

	var wg sync.WaitGroup
	start := make(chan struct{})
	runClient := func(client int, ops []c18Op) {
		defer wg.Done()
		<-start
		for _, op := range ops {
			if op.PreUs > 0 {
				time.Sleep(time.Duration(op.PreUs) * time.Microsecond)
			}
			switch op.Kind {
			case "put", "del":
				c.doWrite(client, op)
			case "get":
				c.doGet(client, op)
			case "ids":
				c.doIds(client, op)
			}
		}
	}
	for w, ops := range spec.Writers {
		wg.Add(1)
		go runClient(w, ops)
	}
	for rd, ops := range spec.Readers {
		wg.Add(1)
		go runClient(10+rd, ops)
	}
	restartDone := make(chan struct{})
	go func() {
		defer close(restartDone)
		if spec.Restart == nil {
			return
		}
		<-start
		time.Sleep(time.Duration(spec.Restart.AfterMs) * time.Millisecond)
		// "kill" the worker mid-flight: cancel its context (Stop), and bring up a
		// fresh instance (new claim owner) like a restarted process would.
		old := c.inst(spec.Restart.Inst)
		c.logEvent("harness", "stop-instance", -1, fmt.Sprintf("i%d", spec.Restart.Inst))
		sctx, cancel := context.WithTimeout(context.Background(), 20*time.Second)
		serr := old.Stop(sctx)
		cancel()
		c.logEvent("harness", "stopped-instance", -1, errString(serr))
		st, err := c.newInstance(fmt.Sprintf("i%db", spec.Restart.Inst))
		if err != nil {
			c.logEvent("harness", "restart-failed", -1, err.Error())
			return
		}
		c.instMu.Lock()
		c.instances[spec.Restart.Inst%len(c.instances)] = st
		c.instMu.Unlock()
		out.Restarted = true
	}()
	close(start)
	wg.Wait()
	<-restartDone

	out.IdleReached = c.waitIdle(40 * time.Second)
	if out.IdleReached {
		// final sequential reads through the outbox API (part of the history)
		seq := 100000
		for id := 0; id < spec.NIds; id++ {
			seq++
			c.doGet(99, c18Op{Kind: "get", Id: id, Seq: seq, Mode: "tx", Inst: 0})
			if spec.Inner == "fs" {
				seq++
				c.doGet(99, c18Op{Kind: "get", Id: id, Seq: seq, Mode: "txfree", Inst: 0})
			}
		}
		seq++
		c.doIds(99, c18Op{Kind: "ids", Seq: seq, Inst: 0})
		out.IdleReached = c.waitIdle(20 * time.Second)
	}
	// park every worker, then look at the inner store directly
	c.instMu.Lock()
	stores := append([]partstore.PartStore(nil), c.allStores...)
	c.instMu.Unlock()
	for _, st := range stores {
		sctx, cancel := context.WithTimeout(context.Background(), 20*time.Second)
		_ = st.Stop(sctx) // already stopped instances return an error; irrelevant
		cancel()
	}
	if n, err := c.pending(); err != nil || n != 0 {
		out.IdleReached = false
	}
	out.Inner = c18InnerState{Vals: map[int]string{}}
	err = database.WithTx(context.Background(), db, &sql.TxOptions{ReadOnly: true}, func(ctx context.Context, tx database.Tx) error {
		ids, err := observer.GetPartIds(ctx, tx)
		if err != nil {
			return err
		}
		out.Inner.Ids = []int{}
		for _, id := range ids {
			if idx, ok := c.partIdx[id.String()]; ok {
				out.Inner.Ids = append(out.Inner.Ids, idx)
			} else {
				out.Inner.Ids = append(out.Inner.Ids, -1)
			}
		}
		sort.Ints(out.Inner.Ids)
		for i, pid := range c.partIds {
			rc, err := observer.GetPart(ctx, tx, pid)
			if errors.Is(err, partstore.ErrPartNotFound) {
				out.Inner.Vals[i] = "NOTFOUND"
				continue
			}
			if err != nil {
				out.Inner.Vals[i] = "ERR:" + errString(err)
				continue
			}
			b, err := io.ReadAll(rc)
			rc.Close()
			if err != nil {
				out.Inner.Vals[i] = "ERR:" + errString(err)
				continue
			}
			out.Inner.Vals[i] = c18Name(i, b)
		}
		return nil
	})
	if err != nil {
		out.Inner.Err = err.Error()
	}
	_ = observer.Stop(context.Background())

	out.Hist = c.hist
	sort.Slice(out.Hist, func(i, j int) bool { return out.Hist[i].Call < out.Hist[j].Call })
	out.Events = c.events
	out.Stale = c.stale
	out.counters["stale_replays_after_lost_claim"] = int64(len(c.stale))
	out.hookHits = verifhook.Counts()
	c.repo.mu.Lock()
	out.counters["worker_claims"] = c.repo.claims
	out.counters["lease_takeovers"] = c.repo.takeovers
	out.counters["lease_takeovers_before_expiry"] = c.repo.prematureN
	out.counters["entries_finalized_by_non_owner"] = c.repo.nonOwnerFinN
	out.counters["worker_finalized"] = c.repo.finalized
	out.counters["worker_finalize_lost"] = c.repo.finalizeLost
	out.counters["worker_released"] = c.repo.released
	out.counters["heartbeats_extended"] = c.repo.heartbeats
	out.counters["heartbeats_lost_claim"] = c.repo.hbLost
	c.repo.mu.Unlock()
	out.counters["hook_sleeps"] = c.hookSleeps.Load()
	out.counters["inner_stall_sleeps"] = c.stallSleeps.Load()
	out.counters["inner_put_calls"] = c.innerPuts.Load()
	out.counters["inner_delete_calls"] = c.innerDels.Load()
	return out
}

// interleavingSignature is the observed order of call/return events at the
// client boundary plus what happened to the leases.
func c18InterleavingSignature(spec c18Spec, out *c18Outcome) string {
	type ev struct {
		t int64
		s string
	}
	var evs []ev
	for _, r := range out.Hist {
		if r.Client == 99 {
			continue
		}
		evs = append(evs, ev{r.Call, fmt.Sprintf("%d%s%d(", r.Client, r.Kind[:1], r.Id)}, ev{r.Ret, fmt.Sprintf("%d%s%d)", r.Client, r.Kind[:1], r.Id)})
	}
	sort.Slice(evs, func(i, j int) bool { return evs[i].t < evs[j].t })
	h := fnv.New64a()
	for _, e := range evs {
		h.Write([]byte(e.s))
	}
	var wk []string
	for _, e := range out.Events {
		if e.Who != "harness" && !strings.HasPrefix(e.Ev, "inner-") {
			wk = append(wk, e.Who+e.Ev[:min(len(e.Ev), 9)])
		}
	}
	h2 := fnv.New64a()
	h2.Write([]byte(strings.Join(wk, ",")))
	return fmt.Sprintf("%s/%s/n%d|clients=%016x|workers=%016x", spec.Profile, spec.Inner, spec.Instances, h.Sum64(), h2.Sum64())
}
