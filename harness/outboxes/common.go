package main

import (
	"bufio"
	"encoding/json"
	"fmt"
	"os"
	"os/exec"
	"path/filepath"
	"sort"
	"strconv"
	"strings"
	"sync"
	"sync/atomic"
	"time"

	"github.com/jdillenkofer/pithos/internal/verif/vkit"
)

// ---- one process-wide logical clock (never wall time) ----

var tickCounter atomic.Int64

func tick() int64 { return tickCounter.Add(1) }

// ---- case results (child -> parent protocol) ----

type violationRec struct {
	Signature string `json:"signature"`
	What      string `json:"what"`
	Witness   any    `json:"witness"`
}

type caseResult struct {
	Index        int                 `json:"index"`
	Sig          string              `json:"sig"`
	Counters     map[string]int64    `json:"counters,omitempty"`
	Seen         map[string][]string `json:"seen,omitempty"`
	Violations   []violationRec      `json:"violations,omitempty"`
	Inconclusive string              `json:"inconclusive,omitempty"`
	Sample       any                 `json:"sample,omitempty"`
	WallMs       int64               `json:"wall_ms"`
	mu           sync.Mutex
}

func newCaseResult(idx int) *caseResult {
	return &caseResult{Index: idx, Counters: map[string]int64{}, Seen: map[string][]string{}}
}

func (c *caseResult) count(name string, by int64) {
	c.mu.Lock()
	c.Counters[name] += by
	c.mu.Unlock()
}
func (c *caseResult) seen(set, member string) {
	c.mu.Lock()
	defer c.mu.Unlock()
	for _, m := range c.Seen[set] {
		if m == member {
			return
		}
	}
	c.Seen[set] = append(c.Seen[set], member)
}
func (c *caseResult) violate(sig, what string, witness any) {
	c.mu.Lock()
	defer c.mu.Unlock()
	for _, v := range c.Violations {
		if v.Signature == sig {
			return // one witness per signature and case
		}
	}
	c.Violations = append(c.Violations, violationRec{Signature: sig, What: what, Witness: witness})
}

// batchFile is what a child process executes.
type batchFile struct {
	Prop string    `json:"prop"`
	Dir  string    `json:"dir"`
	C18  []c18Spec `json:"c18,omitempty"`
	C21  []c21Spec `json:"c21,omitempty"`
}

func runChild(path string) {
	vkit.QuietLogs()
	b, err := os.ReadFile(path)
	if err != nil {
		fmt.Fprintln(os.Stderr, "child: cannot read batch:", err)
		os.Exit(3)
	}
	var bf batchFile
	if err := json.Unmarshal(b, &bf); err != nil {
		fmt.Fprintln(os.Stderr, "child: bad batch:", err)
		os.Exit(3)
	}
	_ = os.Setenv("TMPDIR", bf.Dir)
	out := bufio.NewWriterSize(os.Stdout, 1<<20)
	emit := func(res *caseResult) {
		j, _ := json.Marshal(res)
		fmt.Fprintf(out, "RESULT %s\n", j)
		out.Flush()
	}
	switch bf.Prop {
	case "C18":
		for _, spec := range bf.C18 {
			fmt.Fprintf(out, "CASE %d\n", spec.Index)
			out.Flush()
			dir := filepath.Join(bf.Dir, fmt.Sprintf("case-%d", spec.Index))
			res := runC18Case(spec, dir)
			_ = os.RemoveAll(dir)
			emit(res)
		}
	case "C21":
		for _, spec := range bf.C21 {
			fmt.Fprintf(out, "CASE %d\n", spec.Index)
			out.Flush()
			dir := filepath.Join(bf.Dir, fmt.Sprintf("case-%d", spec.Index))
			res := runC21Case(spec, dir)
			_ = os.RemoveAll(dir)
			emit(res)
		}
	}
	fmt.Fprintln(out, "DONE")
	out.Flush()
}

func parallelism(r *vkit.Run, quick, thorough int) int {
	if v := os.Getenv("VERIF_PAR"); v != "" {
		if n, err := strconv.Atoi(v); err == nil && n > 0 {
			return n
		}
	}
	return r.N(quick, thorough)
}

// runBatches executes the cases (already split into batch files) in child
// processes and merges what they observed into r. specOf returns the spec of a
// case index (for witnesses of dead children). stallSeconds is the no-progress
// watchdog per child (-> inconclusive).
func runBatches(r *vkit.Run, batches []batchFile, specOf func(idx int) any, stallSeconds int, onResult func(res *caseResult)) {
	bin := os.Getenv("VERIF_BIN")
	if bin == "" {
		bin, _ = os.Executable()
	}
	var wg sync.WaitGroup
	var mergeMu sync.Mutex
	for bi := range batches {
		bf := batches[bi]
		wg.Add(1)
		go func(bi int, bf batchFile) {
			defer wg.Done()
			_ = os.MkdirAll(bf.Dir, 0o755)
			path := filepath.Join(bf.Dir, "batch.json")
			j, _ := json.Marshal(bf)
			if err := os.WriteFile(path, j, 0o644); err != nil {
				r.Inconclusive("cannot write batch file: " + err.Error())
				return
			}
			cmd := exec.Command(bin, "-child", path)
			cmd.Env = append(os.Environ(), "VERIF_HOOKS=")
			stdout, err := cmd.StdoutPipe()
			if err != nil {
				r.Inconclusive("child pipe: " + err.Error())
				return
			}
			errPath := filepath.Join(bf.Dir, "stderr.log")
			errFile, _ := os.Create(errPath)
			cmd.Stderr = errFile
			if err := cmd.Start(); err != nil {
				r.Inconclusive("child start: " + err.Error())
				return
			}
			var lastProgress atomic.Int64
			lastProgress.Store(time.Now().UnixNano())
			var killedByWatchdog atomic.Bool
			doneCh := make(chan struct{})
			go func() {
				t := time.NewTicker(time.Second)
				defer t.Stop()
				for {
					select {
					case <-doneCh:
						return
					case <-t.C:
						if time.Since(time.Unix(0, lastProgress.Load())) > time.Duration(stallSeconds)*time.Second {
							killedByWatchdog.Store(true)
							_ = cmd.Process.Kill()
							return
						}
					}
				}
			}()
			sc := bufio.NewScanner(stdout)
			sc.Buffer(make([]byte, 1<<20), 256<<20)
			lastCase := -1
			finished := false
			for sc.Scan() {
				line := sc.Text()
				lastProgress.Store(time.Now().UnixNano())
				switch {
				case strings.HasPrefix(line, "CASE "):
					lastCase, _ = strconv.Atoi(strings.TrimPrefix(line, "CASE "))
				case strings.HasPrefix(line, "RESULT "):
					var res caseResult
					if err := json.Unmarshal([]byte(strings.TrimPrefix(line, "RESULT ")), &res); err != nil {
						r.Inconclusive("unparsable child result: " + err.Error())
						continue
					}
					mergeMu.Lock()
					onResult(&res)
					mergeMu.Unlock()
					lastCase = -1
				case line == "DONE":
					finished = true
				}
			}
			werr := cmd.Wait()
			close(doneCh)
			if errFile != nil {
				errFile.Close()
			}
			if finished && werr == nil {
				return
			}
			tail := tailOfFile(errPath, 6000)
			if killedByWatchdog.Load() {
				r.Inconclusive(fmt.Sprintf("child %d made no progress for %ds at case %d", bi, stallSeconds, lastCase))
				return
			}
			var spec any
			if lastCase >= 0 {
				spec = specOf(lastCase)
			}
			what := fmt.Sprintf("child process died (%v) while executing case %d", werr, lastCase)
			sig := "child-died"
			if strings.Contains(tail, "panic:") {
				sig = "child-died:panic"
			} else if strings.Contains(tail, "fatal error:") {
				sig = "child-died:fatal-error"
			}
			r.Violation(sig, what, map[string]any{"spec": spec, "stderr_tail": tail})
		}(bi, bf)
	}
	wg.Wait()
}

func tailOfFile(path string, n int) string {
	b, err := os.ReadFile(path)
	if err != nil {
		return ""
	}
	if len(b) > n {
		b = b[len(b)-n:]
	}
	return string(b)
}

// mergeResult folds one case's observations into the run.
func mergeResult(r *vkit.Run, res *caseResult) {
	r.Eval(res.Sig)
	for k, v := range res.Counters {
		r.Count(k, v)
	}
	for set, ms := range res.Seen {
		for _, m := range ms {
			r.Seen(set, m)
		}
	}
	for _, v := range res.Violations {
		r.Violation(v.Signature, v.What, v.Witness)
	}
	if res.Sample != nil {
		r.Sample(res.Sample)
	}
}

// countRaceReports counts data-race reports the race detector wrote for this
// check invocation (GORACE log_path set by ./check); they are evidence, not
// verdicts, for these two properties.
func countRaceReports() int {
	gr := os.Getenv("GORACE")
	for _, f := range strings.Fields(gr) {
		if strings.HasPrefix(f, "log_path=") {
			files, _ := filepath.Glob(strings.TrimPrefix(f, "log_path=") + ".*")
			n := 0
			for _, p := range files {
				b, err := os.ReadFile(p)
				if err == nil {
					n += strings.Count(string(b), "WARNING: DATA RACE")
				}
			}
			return n
		}
	}
	return 0
}

func sortedInts(m map[int]struct{}) []int {
	out := make([]int, 0, len(m))
	for k := range m {
		out = append(out, k)
	}
	sort.Ints(out)
	return out
}

func errString(err error) string {
	if err == nil {
		return ""
	}
	s := err.Error()
	if len(s) > 160 {
		s = s[:160]
	}
	return s
}

func readReplay(path string, witness any) (seed uint64, signature string) {
	b, err := os.ReadFile(path)
	if err != nil {
		fmt.Println("cannot read replay:", err)
		os.Exit(3)
	}
	var w struct {
		Seed      uint64          `json:"seed"`
		Signature string          `json:"signature"`
		Witness   json.RawMessage `json:"witness"`
	}
	if err := json.Unmarshal(b, &w); err != nil {
		fmt.Println("bad replay file:", err)
		os.Exit(3)
	}
	if err := json.Unmarshal(w.Witness, witness); err != nil {
		fmt.Println("bad replay witness:", err)
		os.Exit(3)
	}
	return w.Seed, w.Signature
}
