package main

import (
	"bytes"
	"context"
	"database/sql"
	"errors"
	"fmt"
	"hash/fnv"
	"io"
	"os"
	"path/filepath"
	"sort"
	"strings"
	"sync"
	"sync/atomic"
	"time"

	"github.com/prometheus/client_golang/prometheus"

	"github.com/jdillenkofer/pithos/internal/storage"
	"github.com/jdillenkofer/pithos/internal/storage/database"
	repositoryfactory "github.com/jdillenkofer/pithos/internal/storage/database/repository"
	"github.com/jdillenkofer/pithos/internal/storage/database/repository/storageoutboxentry"
	"github.com/jdillenkofer/pithos/internal/storage/database/sqlite"
	"github.com/jdillenkofer/pithos/internal/storage/metadatapart"
	storageoutbox "github.com/jdillenkofer/pithos/internal/storage/outbox"
	"github.com/jdillenkofer/pithos/internal/verif/vkit"
	"github.com/jdillenkofer/pithos/internal/verifhook"
)

// ---------------------------------------------------------------------------
// case specification
// ---------------------------------------------------------------------------

type c21Spec struct {
	Index      int         `json:"index"`
	Seed       uint64      `json:"seed"`
	Variant    string      `json:"variant"` // seq | conc3
	SharedDB   bool        `json:"shared_db"`
	InnerParts string      `json:"inner_parts"` // part store of the inner metadata-part storage
	Hooks      []hookRule  `json:"hooks,omitempty"`
	Steps      []c21Step   `json:"steps,omitempty"`   // seq: the whole history; conc3: sequential setup
	Clients    [][]c21Step `json:"clients,omitempty"` // conc3
	Excluded   int         `json:"poison_candidates_excluded"`
	LeaseMs    int         `json:"lease_ms,omitempty"` // lease of the foreign claim of steps marked leased
}

var c21Buckets = []string{"c21-bkt-a", "c21-bkt-b", "c21-bkt-c"}
var c21Keys = []string{"k0", "k1", "k2", "dir/k3"}

func genC21Spec(rng *vkit.Rand, index int) c21Spec {
	rg := rng.Fork(fmt.Sprintf("c21-case-%d", index))
	s := c21Spec{Index: index, Seed: rg.Uint64(), Variant: "seq", InnerParts: "sql"}
	if index%4 == 3 {
		s.Variant = "conc3"
	}
	s.SharedDB = rg.Chance(40)
	if rg.Chance(25) {
		s.InnerParts = "fs"
	}
	if rg.Chance(75) {
		s.Hooks = append(s.Hooks, hookRule{Point: "storageoutbox.after-replay", Hits: pickHits(rg, 3, 14), DelayMs: rg.Range(30, 260)})
	}
	if rg.Chance(50) {
		s.Hooks = append(s.Hooks, hookRule{Point: vkit.Pick(rg, []string{"tx.commit.before-db", "tx.commit.after-db", "tx.commit.enter"}), Every: rg.Range(2, 6), DelayMs: rg.Range(1, 6)})
	}
	if s.Variant == "seq" && index%8 == 1 {
		s.LeaseMs = 1200
	}
	if s.Variant == "seq" {
		genC21Seq(rg, &s)
	} else {
		genC21Conc(rg, &s)
	}
	return s
}

func putStep(rg *vkit.Rand, b, k string, seq int) c21Step {
	st := c21Step{Op: "put", Bucket: b, Key: k, Seq: seq, CType: vkit.Pick(rg, c21CTypes), Tags: genTags(rg), Meta: genMeta(rg), Class: vkit.Pick(rg, c21Classes)}
	switch {
	case rg.Chance(10):
		st.Size = 0
	case rg.Chance(10):
		st.Size = rg.Range(30000, 90000)
	default:
		st.Size = rg.Range(1, 1500)
	}
	return st
}

// genC21Seq generates one sequential history against a generation-time model;
// only writes that are valid at acceptance order are emitted.
func genC21Seq(rg *vkit.Rand, s *c21Spec) {
	m := newC21Model()
	seq := 0
	fake := func() *mObj { seq++; return &mObj{FP: objFP{Content: fmt.Sprintf("gen-%d", seq)}} }
	n := 25
	leasedDone := false
	for len(s.Steps) < n {
		names := m.bucketNames()
		if len(names) == 0 {
			b := vkit.Pick(rg, c21Buckets)
			m.createBucket(b)
			s.Steps = append(s.Steps, c21Step{Op: "create-bucket", Bucket: b})
			continue
		}
		b := vkit.Pick(rg, names)
		bk := m.bucket(b)
		k := vkit.Pick(rg, c21Keys)
		present := m.keys(b)
		roll := rg.Intn(100)
		seq++
		switch {
		case roll < 22:
			st := putStep(rg, b, k, seq)
			m.set(b, k, fake())
			if s.LeaseMs > 0 && !leasedDone && !bk.EverVersioned && len(s.Steps) >= 2 {
				// the entry of this put stays leased by a foreign owner; a later write of the
				// same key is accepted right behind it
				leasedDone = true
				st.Leased = true
				s.Steps = append(s.Steps, st)
				seq++
				if rg.Chance(60) {
					s.Steps = append(s.Steps, putStep(rg, b, k, seq))
				} else {
					m.set(b, k, nil)
					s.Steps = append(s.Steps, c21Step{Op: "delete", Bucket: b, Key: k})
				}
				continue
			}
			s.Steps = append(s.Steps, st)
		case roll < 33:
			// delete of an existing key (mostly) or of a key that does not exist
			if len(present) > 0 && rg.Chance(80) {
				k = vkit.Pick(rg, present)
			}
			m.set(b, k, nil)
			s.Steps = append(s.Steps, c21Step{Op: "delete", Bucket: b, Key: k})
		case roll < 37:
			var ks []string
			for _, x := range c21Keys {
				if rg.Chance(50) {
					ks = append(ks, x)
				}
			}
			if len(ks) == 0 {
				ks = []string{k}
			}
			for _, x := range ks {
				m.set(b, x, nil)
			}
			s.Steps = append(s.Steps, c21Step{Op: "delete-multi", Bucket: b, Keys: ks})
		case roll < 44:
			st := putStep(rg, b, k, seq)
			st.Op = "cond-put"
			exists := m.get(b, k) != nil
			switch {
			case rg.Chance(50):
				st.Cond = "none-match-star"
				if !exists {
					m.set(b, k, fake())
				}
			case exists && rg.Chance(70):
				st.Cond = "match-current"
				m.set(b, k, fake())
			default:
				st.Cond = "match-bogus"
			}
			s.Steps = append(s.Steps, st)
		case roll < 51:
			if len(present) == 0 {
				continue
			}
			src := vkit.Pick(rg, present)
			db := b
			if rg.Chance(30) {
				db = vkit.Pick(rg, names)
			}
			dk := vkit.Pick(rg, c21Keys)
			if db == b && dk == src {
				continue
			}
			st := c21Step{Op: "copy", Bucket: b, Key: src, Bucket2: db, Key2: dk, CopyMode: vkit.Pick(rg, []string{"plain", "plain", "class", "replace-tags", "replace-meta"})}
			switch st.CopyMode {
			case "class":
				st.Class = vkit.Pick(rg, c21Classes[2:])
			case "replace-tags":
				st.Tags = map[string]string{"copied": fmt.Sprintf("v%d", rg.Intn(50))}
			case "replace-meta":
				st.CType = "text/x-copied"
				st.Meta = &mMeta{CacheControl: "no-store", User: map[string]string{"u9": "copy"}}
			}
			m.set(db, dk, fake())
			s.Steps = append(s.Steps, st)
		case roll < 57:
			if len(present) > 0 && rg.Chance(85) {
				k = vkit.Pick(rg, present)
			}
			tags := map[string]string{"retag": fmt.Sprintf("v%d", rg.Intn(100))}
			if m.get(b, k) != nil {
				m.set(b, k, fake())
			}
			s.Steps = append(s.Steps, c21Step{Op: "put-tagging", Bucket: b, Key: k, Tags: tags})
		case roll < 59:
			if len(present) == 0 {
				continue
			}
			k = vkit.Pick(rg, present)
			m.set(b, k, fake())
			s.Steps = append(s.Steps, c21Step{Op: "delete-tagging", Bucket: b, Key: k})
		case roll < 62:
			status := "Enabled"
			if bk.Versioning == "Enabled" && rg.Chance(60) {
				status = "Suspended"
			}
			bk.Versioning = status
			bk.EverVersioned = true
			s.Steps = append(s.Steps, c21Step{Op: "versioning", Bucket: b, Status: status})
		case roll < 66:
			var free []string
			for _, x := range c21Buckets {
				if m.bucket(x) == nil {
					free = append(free, x)
				}
			}
			if len(free) == 0 {
				s.Excluded++ // a queued CreateBucket of an existing bucket would be retried forever
				continue
			}
			nb := vkit.Pick(rg, free)
			m.createBucket(nb)
			s.Steps = append(s.Steps, c21Step{Op: "create-bucket", Bucket: nb})
		case roll < 69:
			if len(present) > 0 || bk.EverVersioned {
				s.Excluded++ // a queued DeleteBucket of a non-empty bucket would be retried forever
				continue
			}
			m.deleteBucket(b)
			s.Steps = append(s.Steps, c21Step{Op: "delete-bucket", Bucket: b})
		case roll < 74 && roll >= 72:
			// a plain append (no write offset) on a key that exists at acceptance order; it is
			// usually issued while the put that created the key is still queued
			if len(present) == 0 {
				continue
			}
			k = vkit.Pick(rg, present)
			m.set(b, k, fake())
			s.Steps = append(s.Steps, c21Step{Op: "append", Bucket: b, Key: k, Seq: seq, Size: rg.Range(1, 700)})
		case roll < 72:
			st := putStep(rg, b, k, seq)
			st.Op, st.Meta, st.Class = "bad-put", nil, ""
			if st.Size == 0 {
				st.Size = 17
			}
			st.Cond = vkit.Pick(rg, []string{"etag", "crc32", "sha256"})
			s.Steps = append(s.Steps, st)
		case roll < 78:
			s.Steps = append(s.Steps, c21Step{Op: "head", Bucket: b, Key: k})
		case roll < 85:
			s.Steps = append(s.Steps, c21Step{Op: "get", Bucket: b, Key: k})
		case roll < 90:
			s.Steps = append(s.Steps, c21Step{Op: "list", Bucket: b})
		case roll < 93:
			s.Steps = append(s.Steps, c21Step{Op: "list-buckets"})
		case roll < 96:
			hb := vkit.Pick(rg, c21Buckets)
			s.Steps = append(s.Steps, c21Step{Op: "head-bucket", Bucket: hb})
		case roll < 99:
			s.Steps = append(s.Steps, c21Step{Op: "get-tagging", Bucket: b, Key: k})
		default:
			s.Steps = append(s.Steps, c21Step{Op: "get-versioning", Bucket: b})
		}
	}
	// every history ends by reading back everything that was touched
	for _, b := range m.bucketNames() {
		s.Steps = append(s.Steps, c21Step{Op: "list", Bucket: b})
	}
}

// genC21Conc: two unversioned buckets are created sequentially, then three
// clients issue object-level operations on shared keys. Bucket-level writes
// stay out of the concurrent phase so that every queued write is valid at
// acceptance order whatever the interleaving.
func genC21Conc(rg *vkit.Rand, s *c21Spec) {
	a, b := c21Buckets[0], c21Buckets[1]
	s.Steps = []c21Step{{Op: "create-bucket", Bucket: a}, {Op: "create-bucket", Bucket: b}}
	seq := 0
	type bk struct{ b, k string }
	targets := []bk{{a, "k0"}, {a, "k0"}, {a, "k1"}, {a, "k2"}, {b, "k0"}}
	if rg.Chance(50) {
		seq++
		s.Steps = append(s.Steps, putStep(rg, a, "k0", seq))
	}
	for c := 0; c < 3; c++ {
		var ops []c21Step
		for i := 0; i < rg.Range(7, 9); i++ {
			t := vkit.Pick(rg, targets)
			seq++
			roll := rg.Intn(100)
			var st c21Step
			switch {
			case roll < 36:
				st = putStep(rg, t.b, t.k, seq)
				if st.Size > 20000 {
					st.Size = rg.Range(1, 900)
				}
			case roll < 50:
				st = c21Step{Op: "delete", Bucket: t.b, Key: t.k}
			case roll < 60:
				st = putStep(rg, t.b, t.k, seq)
				st.Op, st.Cond, st.Size = "cond-put", "none-match-star", rg.Range(1, 600)
			case roll < 67:
				st = c21Step{Op: "put-tagging", Bucket: t.b, Key: t.k, Tags: map[string]string{"retag": fmt.Sprintf("c%d-%d", c, seq)}}
			case roll < 80:
				st = c21Step{Op: "head", Bucket: t.b, Key: t.k}
			case roll < 92:
				st = c21Step{Op: "get", Bucket: t.b, Key: t.k}
			default:
				st = c21Step{Op: "list", Bucket: t.b}
			}
			st.PreUs = rg.Intn(6000)
			ops = append(ops, st)
		}
		s.Clients = append(s.Clients, ops)
	}
}

// ---------------------------------------------------------------------------
// execution
// ---------------------------------------------------------------------------

type c21Rec struct {
	Client int      `json:"c"`
	Step   c21Step  `json:"step"`
	Call   int64    `json:"call"`
	Ret    int64    `json:"ret"`
	Out    string   `json:"out"`            // ok | precondition-failed | no-such-key | no-such-bucket | err:<text>
	FP     *objFP   `json:"fp,omitempty"`   // reads of one key: what was observed ("*" = not observed by this call)
	Keys   []string `json:"keys,omitempty"` // list / list-buckets
	Wanted string   `json:"wanted,omitempty"`
}

type c21Run struct {
	spec        c21Spec
	inner       storage.Storage
	ob          storage.Storage
	dbOut       database.Database
	repo        storageoutboxentry.Repository
	res         *caseResult
	hist        []c21Rec
	histMu      sync.Mutex
	sleeps      atomic.Int64
	polled      atomic.Int64
	model       *c21Model
	waitedReads int
}

func ptrOrNil(s string) *string {
	if s == "" {
		return nil
	}
	return &s
}

func toStorageMeta(m *mMeta) *storage.ObjectMetadata {
	if m == nil {
		return nil
	}
	om := &storage.ObjectMetadata{CacheControl: ptrOrNil(m.CacheControl), ContentDisposition: ptrOrNil(m.ContentDisposition), ContentEncoding: ptrOrNil(m.ContentEncoding), ContentLanguage: ptrOrNil(m.ContentLanguage), Expires: ptrOrNil(m.Expires)}
	if len(m.User) > 0 {
		om.UserMetadata = map[string]string{}
		for k, v := range m.User {
			om.UserMetadata[k] = v
		}
	}
	return om
}

func fromStorageMeta(om storage.ObjectMetadata) mMeta {
	m := mMeta{CacheControl: vkit.Deref(om.CacheControl), ContentDisposition: vkit.Deref(om.ContentDisposition), ContentEncoding: vkit.Deref(om.ContentEncoding), ContentLanguage: vkit.Deref(om.ContentLanguage), Expires: vkit.Deref(om.Expires)}
	if len(om.UserMetadata) > 0 {
		m.User = om.UserMetadata
	}
	return m
}

func errKind(err error) string {
	var dm *storage.CurrentDeleteMarkerError
	switch {
	case err == nil:
		return "ok"
	case errors.Is(err, storage.ErrNoSuchKey), errors.As(err, &dm):
		return "no-such-key"
	case errors.Is(err, storage.ErrNoSuchBucket):
		return "no-such-bucket"
	case errors.Is(err, storage.ErrPreconditionFailed):
		return "precondition-failed"
	case errors.Is(err, storage.ErrBadDigest):
		return "bad-digest"
	}
	return "err:" + errString(err)
}

// headFP / getFP / full observation of one key through a storage handle.
func headFP(ctx context.Context, st storage.Storage, b, k string) (objFP, string, string) {
	o, err := st.HeadObject(ctx, storage.MustNewBucketName(b), storage.MustNewObjectKey(k), nil)
	if kind := errKind(err); kind != "ok" {
		return fpAbsent, kind, ""
	}
	return objFP{Content: fmt.Sprintf("*/%d", o.Size), CType: vkit.Deref(o.ContentType), Meta: metaFP(fromStorageMeta(o.Metadata)), Tags: mapFP(o.Tags), Class: classFP(vkit.Deref(o.StorageClass))}, "ok", o.ETag
}

func getFP(ctx context.Context, st storage.Storage, b, k string) (objFP, string) {
	o, readers, err := st.GetObject(ctx, storage.MustNewBucketName(b), storage.MustNewObjectKey(k), nil, nil)
	if kind := errKind(err); kind != "ok" {
		return fpAbsent, kind
	}
	var buf bytes.Buffer
	var rerr error
	for _, r := range readers {
		if _, e := io.Copy(&buf, r); e != nil && rerr == nil {
			rerr = e
		}
		r.Close()
	}
	if rerr != nil {
		return fpAbsent, "err:read:" + errString(rerr)
	}
	return objFP{Content: contentFP(buf.Bytes()), CType: vkit.Deref(o.ContentType), Meta: metaFP(fromStorageMeta(o.Metadata)), Tags: mapFP(o.Tags), Class: classFP(vkit.Deref(o.StorageClass))}, "ok"
}

func tagsFP(ctx context.Context, st storage.Storage, b, k string) (objFP, string) {
	t, err := st.GetObjectTagging(ctx, storage.MustNewBucketName(b), storage.MustNewObjectKey(k), nil)
	if kind := errKind(err); kind != "ok" {
		return fpAbsent, kind
	}
	return objFP{Content: "*", CType: "*", Meta: "*", Tags: mapFP(t), Class: "*"}, "ok"
}

// fpMatches compares an observation (fields may be "*" = not observed, content
// may be "*/<size>") with a model state.
func fpMatches(state, obs objFP) []string {
	if state == fpAbsent || obs == fpAbsent {
		if state == obs {
			return nil
		}
		return []string{"presence"}
	}
	var d []string
	switch {
	case obs.Content == "*":
	case strings.HasPrefix(obs.Content, "*/"):
		if state.Content[strings.Index(state.Content, "/"):] != obs.Content[1:] {
			d = append(d, "size")
		}
	case obs.Content != state.Content:
		d = append(d, "content")
	}
	if obs.CType != "*" && obs.CType != state.CType {
		d = append(d, "content-type")
	}
	if obs.Meta != "*" && obs.Meta != state.Meta {
		d = append(d, "metadata")
	}
	if obs.Tags != "*" && obs.Tags != state.Tags {
		d = append(d, "tags")
	}
	if obs.Class != "*" && obs.Class != state.Class {
		d = append(d, "storage-class")
	}
	return d
}

func (c *c21Run) record(r c21Rec) {
	c.histMu.Lock()
	c.hist = append(c.hist, r)
	c.histMu.Unlock()
}

func (c *c21Run) pending() (int, error) {
	n := 0
	err := database.WithTx(context.Background(), c.dbOut, &sql.TxOptions{ReadOnly: true}, func(ctx context.Context, tx database.Tx) error {
		var err error
		n, err = c.repo.Count(ctx, tx.SqlTx(), "c21")
		return err
	})
	return n, err
}

func (c *c21Run) waitDrained(limit time.Duration) bool {
	deadline := time.Now().Add(limit)
	stable := 0
	for time.Now().Before(deadline) {
		n, err := c.pending()
		if err == nil && n == 0 && c.sleeps.Load() == 0 {
			stable++
			if stable >= 2 {
				return true
			}
		} else {
			stable = 0
		}
		time.Sleep(15 * time.Millisecond)
	}
	return false
}

// exec runs one step through the outbox storage and returns what the client saw.
func (c *c21Run) exec(client int, st c21Step) c21Rec {
	if st.Leased {
		return c.execLeased(client, st)
	}
	return c.execOn(context.Background(), c.ob, client, st)
}

// execLeased accepts the write like any other, but in the same transaction the
// freshly queued entry (the head of the drained queue) is claimed by a foreign
// owner with a short lease - the state a second instance sharing the outbox id,
// or a process that died after claiming, leaves behind. The foreign owner never
// finishes; this instance takes the entry over when the lease has expired.
// Convergence must still follow acceptance order.
func (c *c21Run) execLeased(client int, st c21Step) c21Rec {
	var rec c21Rec
	if !c.waitDrained(60 * time.Second) {
		rec = c21Rec{Client: client, Step: st, Out: "err:not-drained-before-leased-step"}
		return rec
	}
	ts, ok := c.ob.(storage.TransactionalStorage)
	if !ok {
		return c.execOn(context.Background(), c.ob, client, st)
	}
	claimedOK := false
	err := ts.WithTransaction(context.Background(), &sql.TxOptions{}, func(ctx context.Context, tx storage.Storage) error {
		rec = c.execOn(ctx, tx, client, st)
		if rec.Out != "ok" {
			return nil
		}
		return database.WithTx(ctx, c.dbOut, &sql.TxOptions{}, func(ctx context.Context, dtx database.Tx) error {
			now := time.Now().UTC()
			_, claimed, err := c.repo.ClaimFirstStorageOutboxEntry(ctx, dtx.SqlTx(), "c21", "c21:foreign-owner-that-died", now, now.Add(time.Duration(c.spec.LeaseMs)*time.Millisecond))
			claimedOK = claimed
			return err
		})
	})
	if err != nil {
		rec.Out = "err:leased-step-tx:" + err.Error()
		return rec
	}
	if claimedOK {
		c.res.count("entries_left_leased_by_foreign_owner", 1)
	} else {
		c.res.count("foreign_claim_not_taken", 1)
	}
	return rec
}

func (c *c21Run) execOn(ctx context.Context, ob storage.Storage, client int, st c21Step) c21Rec {
	rec := c21Rec{Client: client, Step: st}
	bn := func(s string) storage.BucketName { return storage.MustNewBucketName(s) }
	kn := func(s string) storage.ObjectKey { return storage.MustNewObjectKey(s) }
	pendingBefore, _ := c.pending()
	rec.Call = tick()
	switch st.Op {
	case "create-bucket":
		rec.Out = errKind(ob.CreateBucket(ctx, bn(st.Bucket)))
	case "delete-bucket":
		rec.Out = errKind(ob.DeleteBucket(ctx, bn(st.Bucket)))
	case "put", "cond-put":
		opts := &storage.PutObjectOptions{Tags: st.Tags, Metadata: toStorageMeta(st.Meta), StorageClass: ptrOrNil(st.Class)}
		switch st.Cond {
		case "none-match-star":
			opts.IfNoneMatchStar = true
		case "match-current":
			// the precondition names the ETag the client saw last (read through the outbox storage)
			_, _, etag := headFP(ctx, ob, st.Bucket, st.Key)
			if etag == "" {
				etag = "\"00000000000000000000000000000000\""
			}
			opts.IfMatchETag = &etag
		case "match-bogus":
			e := "\"ffffffffffffffffffffffffffffffff\""
			opts.IfMatchETag = &e
		}
		if st.Op == "put" && st.Tags == nil && st.Meta == nil && st.Class == "" {
			opts = nil
		}
		_, err := ob.PutObject(ctx, bn(st.Bucket), kn(st.Key), ptrOrNil(st.CType), bytes.NewReader(c21Content(st.Key, client, st.Seq, st.Size)), nil, opts)
		rec.Out = errKind(err)
	case "bad-put":
		// the declared checksum does not describe the body: the write must be rejected and leave no trace
		bogus := &storage.ChecksumInput{}
		switch st.Cond {
		case "etag":
			e := "\"ffffffffffffffffffffffffffffffff\""
			bogus.ETag = &e
		case "crc32":
			v := "AAAAAA=="
			bogus.ChecksumCRC32 = &v
		default:
			v := "47DEQpj8HBSa+/TImW+5JCeuQeRkm5NMpJWZG3hSuFU="
			bogus.ChecksumSHA256 = &v
		}
		var opts *storage.PutObjectOptions
		if st.Tags != nil {
			opts = &storage.PutObjectOptions{Tags: st.Tags}
		}
		_, err := ob.PutObject(ctx, bn(st.Bucket), kn(st.Key), ptrOrNil(st.CType), bytes.NewReader(c21Content(st.Key, client, st.Seq, st.Size)), bogus, opts)
		rec.Out = errKind(err)
	case "append":
		_, err := ob.AppendObject(ctx, bn(st.Bucket), kn(st.Key), bytes.NewReader(c21Content(st.Key, client, st.Seq, st.Size)), nil, nil)
		rec.Out = errKind(err)
	case "delete":
		_, err := ob.DeleteObject(ctx, bn(st.Bucket), kn(st.Key), nil)
		rec.Out = errKind(err)
	case "delete-multi":
		var in []storage.DeleteObjectsInputEntry
		for _, k := range st.Keys {
			in = append(in, storage.DeleteObjectsInputEntry{Key: kn(k)})
		}
		_, err := ob.DeleteObjects(ctx, bn(st.Bucket), in)
		rec.Out = errKind(err)
	case "copy":
		var opts *storage.CopyObjectOptions
		switch st.CopyMode {
		case "class":
			opts = &storage.CopyObjectOptions{StorageClass: ptrOrNil(st.Class)}
		case "replace-tags":
			opts = &storage.CopyObjectOptions{ReplaceTags: true, Tags: st.Tags}
		case "replace-meta":
			opts = &storage.CopyObjectOptions{ReplaceMetadata: true, ContentType: ptrOrNil(st.CType), Metadata: toStorageMeta(st.Meta)}
		}
		_, err := ob.CopyObject(ctx, bn(st.Bucket), kn(st.Key), bn(st.Bucket2), kn(st.Key2), opts)
		rec.Out = errKind(err)
	case "put-tagging":
		rec.Out = errKind(ob.PutObjectTagging(ctx, bn(st.Bucket), kn(st.Key), st.Tags, nil))
	case "delete-tagging":
		rec.Out = errKind(ob.DeleteObjectTagging(ctx, bn(st.Bucket), kn(st.Key), nil))
	case "versioning":
		status := storage.BucketVersioningStatus(st.Status)
		rec.Out = errKind(ob.PutBucketVersioningConfiguration(ctx, bn(st.Bucket), &storage.BucketVersioningConfiguration{Status: &status}))
	case "head":
		fp, kind, _ := headFP(ctx, ob, st.Bucket, st.Key)
		rec.Out, rec.FP = kind, &fp
	case "get":
		fp, kind := getFP(ctx, ob, st.Bucket, st.Key)
		rec.Out, rec.FP = kind, &fp
	case "get-tagging":
		fp, kind := tagsFP(ctx, ob, st.Bucket, st.Key)
		rec.Out, rec.FP = kind, &fp
	case "list":
		objs, err := storage.ListAllObjectsOfBucket(ctx, ob, bn(st.Bucket))
		rec.Out = errKind(err)
		rec.Keys = []string{}
		for _, o := range objs {
			rec.Keys = append(rec.Keys, fmt.Sprintf("%s/%d", o.Key.String(), o.Size))
		}
		sort.Strings(rec.Keys)
	case "list-buckets":
		bs, err := ob.ListBuckets(ctx)
		rec.Out = errKind(err)
		rec.Keys = []string{}
		for _, b := range bs {
			rec.Keys = append(rec.Keys, b.Name.String())
		}
		sort.Strings(rec.Keys)
	case "head-bucket":
		_, err := ob.HeadBucket(ctx, bn(st.Bucket))
		rec.Out = errKind(err)
	case "get-versioning":
		cfg, err := ob.GetBucketVersioningConfiguration(ctx, bn(st.Bucket))
		rec.Out = errKind(err)
		if err == nil && cfg.Status != nil {
			rec.Keys = []string{string(*cfg.Status)}
		} else {
			rec.Keys = []string{""}
		}
	}
	rec.Ret = tick()
	if os.Getenv("VERIF_TRACE") != "" {
		fmt.Fprintf(os.Stderr, "%s c%d %-14s %s/%s size=%d cond=%s -> %s (pending before: %d)\n", time.Now().Format("15:04:05.000"), client, st.Op, st.Bucket, st.Key, st.Size, st.Cond, rec.Out, pendingBefore)
	}
	if pendingBefore > 0 {
		c.res.count("ops_started_with_pending_entries", 1)
		if isRead(st.Op) {
			c.res.count("reads_started_with_pending_entries", 1)
		}
	}
	c.res.count("ops:"+st.Op, 1)
	c.record(rec)
	return rec
}

func isRead(op string) bool {
	switch op {
	case "head", "get", "get-tagging", "list", "list-buckets", "head-bucket", "get-versioning":
		return true
	}
	return false
}

type c21Stack struct {
	inner, ob storage.Storage
	dbIn      database.Database
	dbOut     database.Database
	repo      storageoutboxentry.Repository
}

func openC21Stack(spec c21Spec, dir string) (*c21Stack, error) {
	dbIn, err := sqlite.OpenDatabase(filepath.Join(dir, "inner", "pithos.db"))
	if err != nil {
		return nil, err
	}
	env := vkit.OpenEnvWithDB(filepath.Join(dir, "inner"), dbIn)
	ms, err := env.NewMetadataStore()
	if err != nil {
		return nil, err
	}
	ps, err := env.BuildPartStore(spec.InnerParts)
	if err != nil {
		return nil, err
	}
	inner, err := metadatapart.NewStorage(dbIn, ms, ps, metadatapart.WithGCInterval(time.Hour))
	if err != nil {
		return nil, err
	}
	var dbOut database.Database = dbIn
	if !spec.SharedDB {
		dbOut, err = sqlite.OpenDatabase(filepath.Join(dir, "outbox", "pithos.db"))
		if err != nil {
			return nil, err
		}
	}
	repo, err := repositoryfactory.NewStorageOutboxEntryRepository(dbOut)
	if err != nil {
		return nil, err
	}
	ob, err := storageoutbox.NewStorage(dbOut, "c21", inner, repo, prometheus.NewRegistry(), 0)
	if err != nil {
		return nil, err
	}
	if err := ob.Start(context.Background()); err != nil {
		return nil, err
	}
	return &c21Stack{inner: inner, ob: ob, dbIn: dbIn, dbOut: dbOut, repo: repo}, nil
}

func (s *c21Stack) close() {
	sctx, cancel := context.WithTimeout(context.Background(), 40*time.Second)
	_ = s.ob.Stop(sctx)
	cancel()
	if s.dbOut != s.dbIn {
		_ = s.dbOut.Close()
	}
	_ = s.dbIn.Close()
}

func runC21Case(spec c21Spec, dir string) *caseResult {
	t0 := time.Now()
	res := newCaseResult(spec.Index)
	res.count("cases:"+spec.Variant, 1)
	res.count("poison_entries_excluded_by_generator", int64(spec.Excluded))
	if spec.SharedDB {
		res.count("cases_outbox_tables_in_inner_db", 1)
	} else {
		res.count("cases_outbox_tables_in_own_db", 1)
	}
	_ = os.RemoveAll(dir)
	if err := os.MkdirAll(dir, 0o755); err != nil {
		res.Inconclusive = "setup: " + err.Error()
		return res
	}
	stack, err := openC21Stack(spec, dir)
	if err != nil {
		res.Inconclusive = "setup: " + err.Error()
		return res
	}
	c := &c21Run{spec: spec, inner: stack.inner, ob: stack.ob, dbOut: stack.dbOut, repo: stack.repo, res: res, model: newC21Model()}
	verifhook.Clear()
	defer verifhook.Clear()
	for i := range spec.Hooks {
		rule := spec.Hooks[i]
		verifhook.Set(rule.Point, func(_ string, n int64) error {
			fire := rule.Every > 0 && n%int64(rule.Every) == 0
			for _, h := range rule.Hits {
				if int64(h) == n {
					fire = true
				}
			}
			if fire {
				c.sleeps.Add(1)
				res.count("hook_sleeps", 1)
				time.Sleep(time.Duration(rule.DelayMs) * time.Millisecond)
				c.sleeps.Add(-1)
			}
			return nil
		})
	}
	done := make(chan struct{})
	go func() {
		defer close(done)
		if spec.Variant == "seq" {
			c.runSeq()
		} else {
			c.runConc()
		}
	}()
	select {
	case <-done:
	case <-time.After(150 * time.Second):
		res.Inconclusive = "case watchdog (150 s): an operation through the outbox storage did not return"
		res.count("case_watchdog_expired", 1)
		res.WallMs = time.Since(t0).Milliseconds()
		// the stuck goroutine is abandoned; the child process goes on with a fresh stack
		return res
	}
	res.count("hook_hits:storageoutbox.after-replay", verifhook.Count("storageoutbox.after-replay"))
	stack.close()
	res.Sig = c21Signature(spec, c.hist)
	res.WallMs = time.Since(t0).Milliseconds()
	if spec.Index < 2 {
		res.Sample = map[string]any{"variant": spec.Variant, "shared_db": spec.SharedDB, "inner_parts": spec.InnerParts, "hooks": spec.Hooks, "first_steps": firstRecs(c.hist, 10)}
	}
	return res
}

func firstRecs(h []c21Rec, n int) []c21Rec {
	if len(h) > n {
		return h[:n]
	}
	return h
}

func c21Signature(spec c21Spec, hist []c21Rec) string {
	h := fnv.New64a()
	type ev struct {
		t int64
		s string
	}
	var evs []ev
	for _, r := range hist {
		evs = append(evs, ev{r.Call, fmt.Sprintf("%d:%s:%s/%s(", r.Client, r.Step.Op, r.Step.Bucket, r.Step.Key)}, ev{r.Ret, fmt.Sprintf("%d:%s)%s", r.Client, r.Step.Op, r.Out)})
	}
	sort.Slice(evs, func(i, j int) bool { return evs[i].t < evs[j].t })
	for _, e := range evs {
		h.Write([]byte(e.s))
	}
	return fmt.Sprintf("%s/shared=%v/%s|%016x", spec.Variant, spec.SharedDB, spec.InnerParts, h.Sum64())
}

func (c *c21Run) witness(extra map[string]any) map[string]any {
	w := map[string]any{"spec": c.spec, "history": c.hist}
	for k, v := range extra {
		w[k] = v
	}
	return w
}
