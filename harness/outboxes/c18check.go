package main

import (
	"fmt"
	"os"
	"path/filepath"
	"sort"
	"strings"
	"time"

	"github.com/anishathalye/porcupine"

	"github.com/jdillenkofer/pithos/internal/verif/vkit"
)

// ---------------------------------------------------------------------------
// oracle 1a: porcupine, per part id, register with put / delete / get
// ---------------------------------------------------------------------------

type regIn struct {
	Op  string // put | del | get
	Val string
}

const regAbsent = "-"

var c18Model = porcupine.Model{
	Init: func() interface{} { return regAbsent },
	Step: func(state, input, output interface{}) (bool, interface{}) {
		in := input.(regIn)
		st := state.(string)
		switch in.Op {
		case "put":
			return true, in.Val
		case "del":
			return true, regAbsent
		default:
			got := output.(string)
			if got == "NOTFOUND" {
				return st == regAbsent, st
			}
			return st == got, st
		}
	},
	Equal: func(a, b interface{}) bool { return a.(string) == b.(string) },
	DescribeOperation: func(in, out interface{}) string {
		i := in.(regIn)
		if i.Op == "get" {
			return fmt.Sprintf("get -> %v", out)
		}
		return i.Op + " " + i.Val
	},
}

// relevant writes for one read (real-time order only):
// latest = maximal writes that returned before the read was called,
// conc   = writes overlapping the read.
func c18Frontier(writes []c18Rec, call, ret int64) (latest, conc []c18Rec, anyBefore bool) {
	var before []c18Rec
	for _, w := range writes {
		switch {
		case w.Ret < call:
			before = append(before, w)
		case ret < w.Call:
		default:
			conc = append(conc, w)
		}
	}
	for _, w := range before {
		maximal := true
		for _, w2 := range before {
			if w.Ret < w2.Call {
				maximal = false
				break
			}
		}
		if maximal {
			latest = append(latest, w)
		}
	}
	return latest, conc, len(before) > 0
}

func writeVal(w c18Rec) string {
	if w.Kind == "del" {
		return regAbsent
	}
	return w.Val
}

func describeWrites(ws []c18Rec) string {
	var s []string
	for _, w := range ws {
		s = append(s, fmt.Sprintf("%s(%s)@[%d,%d]", w.Kind, w.Val, w.Call, w.Ret))
	}
	return strings.Join(s, " ")
}

// classifyRead names the way a single get is wrong with respect to the
// real-time order ("" = this get alone is admissible).
func classifyRead(r c18Rec, writes []c18Rec) (class, why, expClass, gotClass string) {
	latest, conc, anyBefore := c18Frontier(writes, r.Call, r.Ret)
	allowed := map[string]bool{}
	for _, w := range latest {
		allowed[writeVal(w)] = true
	}
	for _, w := range conc {
		allowed[writeVal(w)] = true
	}
	if !anyBefore {
		allowed[regAbsent] = true
	}
	got := r.Val
	if got == "NOTFOUND" {
		got = regAbsent
	}
	if allowed[got] {
		return "", "", "", ""
	}
	ctx := fmt.Sprintf("get(%s,P%d)@[%d,%d] returned %s; latest committed before it: %s; concurrent writes: %s", r.Mode, r.Id, r.Call, r.Ret, r.Val, describeWrites(latest), describeWrites(conc))
	// frontierHasEmptyPut: an empty put is among the writes that could be the
	// last one before this get (a delete among them would have made NOTFOUND
	// admissible, so none of them is a delete when NOTFOUND is judged).
	latestAllDel, frontierHasEmptyPut := len(latest) > 0, false
	for _, w := range latest {
		if w.Kind != "del" {
			latestAllDel = false
		}
	}
	for _, w := range append(append([]c18Rec{}, latest...), conc...) {
		if w.Kind == "put" && w.Val == "EMPTY" {
			frontierHasEmptyPut = true
		}
	}
	switch {
	case !anyBefore:
		expClass = "never-written"
	case latestAllDel:
		expClass = "committed-delete"
	case frontierHasEmptyPut:
		expClass = "committed-empty-put"
	default:
		expClass = "committed-put"
	}
	switch {
	case strings.HasPrefix(got, "TORN"):
		return "get-returned-bytes-nobody-wrote:mixed-or-truncated", ctx, expClass, "torn-bytes"
	case strings.HasPrefix(got, "FOREIGN"):
		return "get-returned-other-parts-bytes", ctx, expClass, "foreign-bytes"
	case got == "EMPTY":
		// an empty part although no empty put is admissible here: a truncated
		// (or freshly re-created, not yet written) part file
		return "get-returned-bytes-nobody-wrote:mixed-or-truncated", ctx, expClass, "empty-part"
	case got == regAbsent:
		if frontierHasEmptyPut {
			return "get-notfound-after-committed-empty-put", ctx, expClass, "absent"
		}
		return "get-notfound-after-committed-put", ctx, expClass, "absent"
	default:
		var src *c18Rec
		for i := range writes {
			if writes[i].Kind == "put" && writes[i].Val == got {
				src = &writes[i]
			}
		}
		if src == nil {
			return "get-returned-value-of-unknown-put", ctx, expClass, "unknown-value"
		}
		if r.Ret < src.Call {
			return "get-returned-value-from-the-future", ctx, expClass, "future-value"
		}
		if latestAllDel {
			return "stale-get:deleted-part-resurrected", ctx, expClass, "older-value"
		}
		return "stale-get:overwritten-value", ctx, expClass, "older-value"
	}
}

type c18Verdict struct {
	res            *caseResult
	innerTag       string
	spec           c18Spec
	out            *c18Outcome
	porcupineUnkn  int
	skippedWriteEr bool
}

// sig qualifies a violation class with the inner store kind and, unless the
// class is fully determined by the input class "empty part", with a measured
// property of the history: for part-level classes whether a lease on an entry
// of that part was lost (takeover / lost finalize), for get classes whether a
// worker's inner-store replay of that part overlapped the get.
func (v *c18Verdict) sig(base string, tag string) string {
	if tag == "" || strings.Contains(base, "committed-empty-put") || strings.Contains(base, "committed-empty-part") {
		return fmt.Sprintf("%s:inner=%s", base, v.innerTag)
	}
	return fmt.Sprintf("%s:inner=%s:%s", base, v.innerTag, tag)
}

// partSig names a violation observed on one part at tick t (0 = at idle). If
// a worker that had lost its claim replayed an entry of that part into the
// inner store before t and the observed effect is what such a stale replay
// produces, the signature names that measured cause and the effect, whoever
// observed it (get, GetPartIds or the idle-state check); otherwise it is the
// observation class qualified by inner store kind and tag.
func (v *c18Verdict) partSig(part int, t int64, expClass, gotClass, class, tag string) string {
	var stalePut, staleDel, premature, nonOwnerFin bool
	for _, so := range v.out.Stale {
		if so.Part == part && (t == 0 || so.Begin < t) {
			if so.Kind == "stale-put" {
				stalePut = true
			} else {
				staleDel = true
			}
			premature = premature || so.Premature
			nonOwnerFin = nonOwnerFin || so.FinalizedByNonOwner
		}
	}
	if gotClass == "other-committed-value" {
		gotClass = "older-value"
	}
	expPresent := expClass == "committed-put" || expClass == "committed-empty-put"
	cause, effect := "", ""
	switch {
	case staleDel && gotClass == "absent" && expPresent:
		cause, effect = "stale-delete", "committed-part-removed"
	case stalePut && gotClass == "empty-part" && expPresent:
		cause, effect = "stale-put", "committed-part-truncated"
	case stalePut && (gotClass == "empty-part" || gotClass == "present") && !expPresent:
		cause, effect = "stale-put", "deleted-part-resurrected"
	case stalePut && gotClass == "older-value" && expPresent:
		cause, effect = "stale-put", "committed-part-overwritten-by-older-value"
	case stalePut && gotClass == "older-value" && !expPresent:
		cause, effect = "stale-put", "deleted-part-resurrected-with-old-value"
	}
	if cause != "" {
		how := "replay-after-lost-claim"
		if premature {
			how = "replay-after-takeover-before-lease-expiry"
		}
		if nonOwnerFin {
			how = "replay-of-entry-finalized-by-non-owner"
		}
		return fmt.Sprintf("%s:%s:%s:inner=%s", how, cause, effect, v.innerTag)
	}
	return v.sig(class, tag)
}

// leaseTag: was a lease on an entry of this part lost (part<0: any part)?
func (v *c18Verdict) leaseTag(part int) string {
	for _, e := range v.out.Events {
		if (part < 0 || e.Part == part) && (strings.HasPrefix(e.Ev, "takeover") || e.Ev == "finalize-lost") {
			return "lease-lost"
		}
	}
	return "no-lease-lost"
}

// replayTag: did an inner-store replay call for this part overlap [call,ret]?
func (v *c18Verdict) replayTag(part int, call, ret int64) string {
	open := map[string]int64{}
	for _, e := range v.out.Events {
		if e.Part != part || !strings.HasPrefix(e.Ev, "inner-") {
			continue
		}
		if strings.HasSuffix(e.Ev, "-begin") {
			open[e.Who+e.Ev[:9]] = e.T
		} else if b, ok := open[e.Who+e.Ev[:9]]; ok {
			if !(e.T < call || ret < b) {
				return "replay-overlaps-get"
			}
			delete(open, e.Who+e.Ev[:9])
		}
	}
	for _, b := range open {
		if b <= ret {
			return "replay-overlaps-get"
		}
	}
	return "no-replay-overlap"
}

func (v *c18Verdict) witness(extra map[string]any) map[string]any {
	w := map[string]any{"spec": v.spec, "history": v.out.Hist, "worker_events": v.out.Events, "stale_replays": v.out.Stale, "inner_at_idle": v.out.Inner}
	for k, x := range extra {
		w[k] = x
	}
	return w
}

func checkC18(spec c18Spec, out *c18Outcome) *caseResult {
	res := newCaseResult(spec.Index)
	v := &c18Verdict{res: res, spec: spec, out: out, innerTag: spec.Inner}
	for k, n := range out.counters {
		res.count(k, n)
	}
	for p, n := range out.hookHits {
		if strings.HasPrefix(p, "partoutbox.") {
			res.count("hook_hits:"+p, n)
		}
	}
	res.count("cases:"+spec.Profile+"/"+spec.Inner, 1)
	if out.SetupErr != "" {
		res.Inconclusive = "setup failed: " + out.SetupErr
		return res
	}
	lost := out.counters["lease_takeovers"] + out.counters["worker_finalize_lost"]
	if lost > 0 {
		res.count("cases_with_lost_lease", 1)
	}
	if out.Restarted {
		res.count("worker_restarts", 1)
	}

	// --- split history
	writes := map[int][]c18Rec{}
	reads := map[int][]c18Rec{}
	var idsOps []c18Rec
	for _, r := range out.Hist {
		res.count("ops:"+r.Kind, 1)
		switch r.Kind {
		case "put", "del":
			if r.Err != "" {
				res.count("write_errors", 1)
				res.seen("write_error_kinds", r.Err)
				v.skippedWriteEr = true
			}
			writes[r.Id] = append(writes[r.Id], r)
		case "get":
			switch {
			case r.Val == "ERR":
				res.count("get_result:error", 1)
				res.seen("get_error_kinds", r.Err)
			case r.Val == "NOTFOUND":
				res.count("get_result:notfound", 1)
				reads[r.Id] = append(reads[r.Id], r)
			default:
				res.count("get_result:value", 1)
				reads[r.Id] = append(reads[r.Id], r)
			}
			res.count("get_mode:"+r.Mode, 1)
		case "ids":
			if r.Err != "" {
				res.count("ids_errors", 1)
				res.seen("ids_error_kinds", r.Err)
			} else {
				idsOps = append(idsOps, r)
			}
		}
	}
	if v.skippedWriteEr {
		// a write whose transaction reported an error may or may not have committed:
		// the committed history is unknown, nothing can be decided from this case.
		res.Inconclusive = "a client write transaction returned an error"
		res.count("cases_skipped_write_error", 1)
		return res
	}

	// --- overlap measurement
	var overlapRW, overlapWW, readsDuringReplay int64
	for id := 0; id < spec.NIds; id++ {
		ws := writes[id]
		for i, w := range ws {
			for j := i + 1; j < len(ws); j++ {
				if !(w.Ret < ws[j].Call || ws[j].Ret < w.Call) {
					overlapWW++
				}
			}
			for _, r := range reads[id] {
				if r.Client != 99 && !(w.Ret < r.Call || r.Ret < w.Call) {
					overlapRW++
				}
			}
		}
		for _, r := range reads[id] {
			for _, e := range out.Events {
				if e.Part == id && strings.HasPrefix(e.Ev, "inner-") && strings.HasSuffix(e.Ev, "-begin") && e.T > r.Call && e.T < r.Ret {
					readsDuringReplay++
					break
				}
			}
		}
	}
	res.count("overlap_pairs_read_write", overlapRW)
	res.count("overlap_pairs_write_write", overlapWW)
	res.count("gets_spanning_a_replay_of_their_part", readsDuringReplay)

	// --- oracle 1a: per-get admissibility + porcupine per id
	for id := 0; id < spec.NIds; id++ {
		single := false
		for _, r := range reads[id] {
			if class, why, expC, gotC := classifyRead(r, writes[id]); class != "" {
				single = true
				res.violate(v.partSig(id, r.Ret, expC, gotC, class, v.replayTag(id, r.Call, r.Ret)), why, v.witness(map[string]any{"part": id, "culprit": r}))
			}
		}
		var ops []porcupine.Operation
		for _, w := range writes[id] {
			ops = append(ops, porcupine.Operation{ClientId: w.Client % 100, Input: regIn{Op: w.Kind, Val: w.Val}, Call: w.Call, Output: "", Return: w.Ret})
		}
		for _, r := range reads[id] {
			ops = append(ops, porcupine.Operation{ClientId: r.Client % 100, Input: regIn{Op: "get"}, Call: r.Call, Output: r.Val, Return: r.Ret})
		}
		if len(ops) == 0 {
			continue
		}
		verdict, _ := porcupine.CheckOperationsVerbose(c18Model, ops, 20*time.Second)
		res.count("porcupine_histories", 1)
		switch verdict {
		case porcupine.Ok:
			res.count("porcupine_ok", 1)
		case porcupine.Unknown:
			res.count("porcupine_unknown", 1)
			v.porcupineUnkn++
		case porcupine.Illegal:
			res.count("porcupine_illegal", 1)
			if !single {
				res.violate(v.sig("nonlinearizable-part-history:no-single-get-at-fault", v.leaseTag(id)),
					fmt.Sprintf("history of part P%d is not linearizable against a put/delete/get register although every get alone is admissible", id),
					v.witness(map[string]any{"part": id}))
			}
		}
	}

	// --- oracle 1b: containment rule for GetPartIds
	for _, r := range idsOps {
		present := map[int]bool{}
		for _, i := range r.Ids {
			present[i] = true
			if i < 0 {
				res.violate(v.sig("ids-lists-unknown-part", ""), "GetPartIds returned an id nobody wrote", v.witness(map[string]any{"culprit": r}))
			}
		}
		for id := 0; id < spec.NIds; id++ {
			latest, conc, anyBefore := c18Frontier(writes[id], r.Call, r.Ret)
			if len(conc) > 0 {
				res.count("ids_checks_skipped_concurrent_write", 1)
				continue
			}
			allPut, allDel, allEmpty := len(latest) > 0, true, true
			for _, w := range latest {
				if w.Kind == "put" {
					allDel = false
					if w.Val != "EMPTY" {
						allEmpty = false
					}
				} else {
					allPut = false
				}
			}
			if !anyBefore {
				allDel = true
			}
			res.count("ids_checks", 1)
			ctx := fmt.Sprintf("GetPartIds@[%d,%d] = %v; latest committed op(s) on P%d: %s", r.Call, r.Ret, r.Ids, id, describeWrites(latest))
			if allPut && !present[id] {
				class := "ids-misses-committed-part"
				if allEmpty {
					class = "ids-misses-committed-empty-part"
				}
				expC := "committed-put"
				if allEmpty {
					expC = "committed-empty-put"
				}
				res.violate(v.partSig(id, r.Ret, expC, "absent", class, v.leaseTag(id)), ctx, v.witness(map[string]any{"part": id, "culprit": r}))
			}
			if allDel && present[id] {
				expC := "committed-delete"
				if !anyBefore {
					expC = "never-written"
				}
				res.violate(v.partSig(id, r.Ret, expC, "present", "ids-lists-deleted-part", v.leaseTag(id)), ctx, v.witness(map[string]any{"part": id, "culprit": r}))
			}
		}
	}

	// --- oracle 2: at idle the inner store equals the committed map
	if !out.IdleReached {
		res.Inconclusive = "idle state not reached within the watchdog"
		res.count("idle_watchdog_expired", 1)
	} else if out.Inner.Err != "" {
		res.Inconclusive = "inner store could not be read at idle: " + out.Inner.Err
	} else {
		res.count("idle_state_checks", 1)
		innerHas := map[int]bool{}
		for _, i := range out.Inner.Ids {
			innerHas[i] = true
			if i < 0 {
				res.violate(v.sig("idle-divergence:inner-holds-unknown-part", ""), "inner store lists a part id nobody wrote", v.witness(nil))
			}
		}
		for id := 0; id < spec.NIds; id++ {
			var last *c18Rec
			for i := range writes[id] {
				if last == nil || writes[id][i].InTx > last.InTx {
					last = &writes[id][i]
				}
			}
			exp, expClass := regAbsent, "never-written"
			if last != nil {
				exp = writeVal(*last)
				switch {
				case last.Kind == "del":
					expClass = "committed-delete"
				case last.Val == "EMPTY":
					expClass = "committed-empty-put"
				default:
					expClass = "committed-put"
				}
			}
			got := out.Inner.Vals[id]
			if got == "NOTFOUND" {
				got = regAbsent
			}
			gotClass := ""
			switch {
			case got == exp:
			case got == regAbsent:
				gotClass = "inner-absent"
			case got == "EMPTY":
				gotClass = "inner-empty-part"
			case strings.HasPrefix(got, "TORN"):
				gotClass = "inner-torn-bytes"
			case strings.HasPrefix(got, "ERR"):
				gotClass = "inner-unreadable"
			default:
				gotClass = "inner-other-committed-value"
			}
			if gotClass != "" {
				res.violate(v.partSig(id, 0, expClass, strings.TrimPrefix(gotClass, "inner-"), "idle-divergence:"+expClass+"->"+gotClass, v.leaseTag(id)),
					fmt.Sprintf("workers idle, entry table empty: committed state of P%d is %s (last committed op %+v) but the inner store holds %s", id, exp, last, out.Inner.Vals[id]),
					v.witness(map[string]any{"part": id}))
			}
			if (got != regAbsent) != innerHas[id] && !strings.HasPrefix(got, "ERR") {
				res.violate(v.sig("idle-divergence:inner-ids-disagree-with-inner-get", v.leaseTag(id)),
					fmt.Sprintf("inner GetPartIds=%v but inner GetPart(P%d)=%s", out.Inner.Ids, id, out.Inner.Vals[id]), v.witness(map[string]any{"part": id}))
			}
		}
	}
	if v.porcupineUnkn > 0 && res.Inconclusive == "" {
		res.Inconclusive = "porcupine timed out"
	}
	res.Sig = c18InterleavingSignature(spec, out)
	return res
}

func runC18Case(spec c18Spec, dir string) *caseResult {
	t0 := time.Now()
	out := execC18(spec, dir)
	res := checkC18(spec, out)
	res.WallMs = time.Since(t0).Milliseconds()
	if spec.Index < 2 {
		res.Sample = map[string]any{"profile": spec.Profile, "inner": spec.Inner, "instances": spec.Instances, "hooks": spec.Hooks, "stalls": spec.Stalls, "restart": spec.Restart,
			"history_ops": len(out.Hist), "first_ops": firstN(out.Hist, 8), "worker_events": len(out.Events)}
	}
	return res
}

func firstN(h []c18Rec, n int) []c18Rec {
	if len(h) > n {
		return h[:n]
	}
	return h
}

// ---------------------------------------------------------------------------
// driver
// ---------------------------------------------------------------------------

func runC18(tier, replay string) {
	r := vkit.Begin("C18", "exploration", tier)
	r.SetRule("a case = one generated concurrent schedule: 3 writers + 3 readers over 3 part ids on 1-2 outbox part store instances sharing one outboxId/DB (lease 30 ms), inner store fs or sql, plus an adversary schedule (hook delays at partoutbox.after-claim / after-replay longer than the lease, stalled inner PutPart/DeletePart, held write transactions, worker stop/restart). distinct = distinct (profile, inner, observed order of client call/return events, observed worker claim/takeover/finalize sequence)")
	r.Assume("oracle: porcupine v1.3.0 on per-part put/delete/get registers built from call/return ticks of one atomic counter; idle-state check uses the order of ticks taken inside the clients' own (exclusive) write transactions as commit order")
	r.Assume("lost leases are produced by delays at the compiled-in verifhook points and by a delaying test double in front of the real inner part store; crashes of the flush worker are modelled by Stop() (context cancel) plus a fresh instance, not by SIGKILL")
	r.Assume("get calls that return an I/O error are counted, not judged")
	if replay != "" {
		var w struct {
			Spec c18Spec `json:"spec"`
		}
		_, wantSig := readReplay(replay, &w)
		reproduced := false
		attempts := 6
		for i := 0; i < attempts && !reproduced; i++ {
			res := runC18Case(w.Spec, filepath.Join(r.Dir, fmt.Sprintf("replay-%d", i)))
			mergeResult(r, res)
			for _, v := range res.Violations {
				if v.Signature == wantSig || wantSig == "" {
					reproduced = true
				}
			}
		}
		if reproduced {
			fmt.Println("replay: reproduced")
		} else {
			fmt.Printf("replay: not reproduced (%d re-executions of the recorded concurrent case)\n", attempts)
		}
		r.Finish()
	}

	n := r.N(60, 1500)
	if v := os.Getenv("VERIF_CASES"); v != "" {
		fmt.Sscanf(v, "%d", &n)
	}
	par := parallelism(r, 4, 8)
	rng := r.Rand()
	specs := make([]c18Spec, n)
	batches := make([]batchFile, par)
	for i := range batches {
		batches[i] = batchFile{Prop: "C18", Dir: filepath.Join(r.Dir, fmt.Sprintf("child-%d", i))}
	}
	for i := 0; i < n; i++ {
		specs[i] = genC18Spec(rng, i)
		batches[i%par].C18 = append(batches[i%par].C18, specs[i])
	}
	var inconclusiveCases []string
	runBatches(r, batches, func(idx int) any { return specs[idx] }, 150, func(res *caseResult) {
		mergeResult(r, res)
		if res.Inconclusive != "" {
			inconclusiveCases = append(inconclusiveCases, fmt.Sprintf("case %d: %s", res.Index, res.Inconclusive))
		}
	})
	sort.Strings(inconclusiveCases)
	if len(inconclusiveCases) > 0 {
		r.SetExtra("inconclusive_cases", inconclusiveCases)
		r.Count("cases_inconclusive", int64(len(inconclusiveCases)))
		if len(inconclusiveCases)*10 > n {
			r.Inconclusive(fmt.Sprintf("%d of %d cases undecided (first: %s)", len(inconclusiveCases), n, inconclusiveCases[0]))
		}
	}
	if r.Counter("overlap_pairs_read_write") < int64(n) || r.Counter("overlap_pairs_write_write") == 0 {
		r.Inconclusive("too few overlapping operations observed")
	}
	if r.Counter("lease_takeovers") == 0 || r.Counter("worker_finalize_lost") == 0 {
		r.Inconclusive("no forced lease expiry observed (no takeover / no lost finalize)")
	}
	if r.Counter("hook_hits:partoutbox.after-replay") == 0 || r.Counter("hook_hits:partoutbox.after-claim") == 0 {
		r.Inconclusive("partoutbox hooks never hit")
	}
	if r.Counter("idle_state_checks") == 0 {
		r.Inconclusive("idle state never checked")
	}
	if rr := countRaceReports(); rr > 0 {
		r.SetExtra("race_reports", rr)
	}
	r.Finish()
}
