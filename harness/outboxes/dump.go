package main

import (
	"encoding/json"
	"fmt"
	"os"
	"sort"

	"github.com/jdillenkofer/pithos/internal/verif/vkit"
)

// dumpCase is a developer aid (never used by a registered check).
func dumpCase(prop, tier string, idx int) {
	vkit.QuietLogs()
	seed := uint64(1)
	fmt.Sscanf(os.Getenv("VERIF_SEED"), "%d", &seed)
	rng := vkit.NewRand(seed)
	dir, _ := os.MkdirTemp("", "outboxes-dump-")
	defer os.RemoveAll(dir)
	switch prop {
	case "C18":
		spec := genC18Spec(rng, idx)
		j, _ := json.Marshal(spec)
		fmt.Println("SPEC", string(j))
		out := execC18(spec, dir)
		type line struct {
			t int64
			s string
		}
		var ls []line
		for _, r := range out.Hist {
			ls = append(ls, line{r.Call, fmt.Sprintf("  c%-2d %s P%d %s call (inst %d %s)", r.Client, r.Kind, r.Id, r.Val, r.Inst, r.Mode)})
			ls = append(ls, line{r.Ret, fmt.Sprintf("  c%-2d %s P%d -> %s %v %s", r.Client, r.Kind, r.Id, r.Val, r.Ids, r.Err)})
		}
		for _, e := range out.Events {
			ls = append(ls, line{e.T, fmt.Sprintf("        %s %s P%d %s", e.Who, e.Ev, e.Part, e.Info)})
		}
		sort.Slice(ls, func(i, j int) bool { return ls[i].t < ls[j].t })
		for _, l := range ls {
			fmt.Printf("%6d %s\n", l.t, l.s)
		}
		fmt.Printf("INNER %+v idle=%v\n", out.Inner, out.IdleReached)
		res := checkC18(spec, out)
		for _, v := range res.Violations {
			fmt.Println("VIOLATION", v.Signature, v.What)
		}
		fmt.Println("COUNTERS", res.Counters, res.Inconclusive)
	case "C21":
		dumpC21(rng, idx, dir)
	}
}
