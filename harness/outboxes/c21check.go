package main

import (
	"context"
	"fmt"
	"os"
	"path/filepath"
	"sort"
	"strings"
	"sync"
	"time"

	"github.com/anishathalye/porcupine"

	"github.com/jdillenkofer/pithos/internal/storage"
	"github.com/jdillenkofer/pithos/internal/verif/vkit"
)

// ---------------------------------------------------------------------------
// sequential variant: the model is exact at every step
// ---------------------------------------------------------------------------

func (c *c21Run) stepFP(client int, st c21Step) objFP { return st.objFP(client) }

// applyWrite applies an accepted write to the model; lastWrite remembers the
// kind of the last accepted write per key (for naming stale reads).
func (c *c21Run) applyWrite(client int, st c21Step, lastWrite map[string]string) {
	m := c.model
	switch st.Op {
	case "create-bucket":
		m.createBucket(st.Bucket)
	case "delete-bucket":
		m.deleteBucket(st.Bucket)
	case "put", "cond-put":
		content := c21Content(st.Key, client, st.Seq, st.Size)
		m.set(st.Bucket, st.Key, &mObj{FP: c.stepFP(client, st), Size: len(content), Bytes: content})
		lastWrite[st.Bucket+"/"+st.Key] = "put"
	case "append":
		o := m.get(st.Bucket, st.Key)
		if o == nil {
			return
		}
		nb := append(append([]byte{}, o.Bytes...), c21Content(st.Key, client, st.Seq, st.Size)...)
		fp := o.FP
		fp.Content = contentFP(nb)
		m.set(st.Bucket, st.Key, &mObj{FP: fp, Size: len(nb), Bytes: nb})
		lastWrite[st.Bucket+"/"+st.Key] = "append"
	case "delete":
		m.set(st.Bucket, st.Key, nil)
		lastWrite[st.Bucket+"/"+st.Key] = "delete"
	case "delete-multi":
		for _, k := range st.Keys {
			m.set(st.Bucket, k, nil)
			lastWrite[st.Bucket+"/"+k] = "delete"
		}
	case "copy":
		src := m.get(st.Bucket, st.Key)
		if src == nil {
			return
		}
		fp := src.FP
		fp.Class = classFP("")
		switch st.CopyMode {
		case "class":
			fp.Class = classFP(st.Class)
		case "replace-tags":
			fp.Tags = mapFP(st.Tags)
		case "replace-meta":
			fp.CType = st.CType
			fp.Meta = metaFP(mMeta{})
			if st.Meta != nil {
				fp.Meta = metaFP(*st.Meta)
			}
		}
		m.set(st.Bucket2, st.Key2, &mObj{FP: fp, Size: src.Size, Bytes: src.Bytes})
		lastWrite[st.Bucket2+"/"+st.Key2] = "copy"
	case "put-tagging", "delete-tagging":
		o := m.get(st.Bucket, st.Key)
		if o == nil {
			return
		}
		fp := o.FP
		fp.Tags = mapFP(st.Tags)
		m.set(st.Bucket, st.Key, &mObj{FP: fp, Size: o.Size, Bytes: o.Bytes})
		lastWrite[st.Bucket+"/"+st.Key] = st.Op
	case "versioning":
		if b := m.bucket(st.Bucket); b != nil {
			b.Versioning = st.Status
			b.EverVersioned = true
		}
	}
}

// expectedWriteOutcome: what the outbox storage must answer to a write whose
// outcome depends on the state left by the writes accepted so far.
func (c *c21Run) expectedWriteOutcome(st c21Step) string {
	m := c.model
	switch st.Op {
	case "cond-put":
		exists := m.get(st.Bucket, st.Key) != nil
		switch st.Cond {
		case "none-match-star":
			if exists {
				return "precondition-failed"
			}
			return "ok"
		case "match-current":
			if exists {
				return "ok"
			}
			return "precondition-failed"
		default:
			return "precondition-failed"
		}
	case "copy":
		if m.bucket(st.Bucket) == nil || m.bucket(st.Bucket2) == nil {
			return "no-such-bucket"
		}
		if m.get(st.Bucket, st.Key) == nil {
			return "no-such-key"
		}
		return "ok"
	case "put-tagging", "delete-tagging":
		if m.get(st.Bucket, st.Key) == nil {
			return "no-such-key"
		}
		return "ok"
	case "append":
		return "ok"
	case "bad-put":
		return "bad-digest"
	}
	return "ok"
}

func (c *c21Run) runSeq() {
	res := c.res
	lastWrite := map[string]string{}
	for i, st := range c.spec.Steps {
		var want string
		if !isRead(st.Op) {
			want = c.expectedWriteOutcome(st)
		}
		rec := c.exec(0, st)
		if strings.HasPrefix(rec.Out, "err:") {
			res.Inconclusive = fmt.Sprintf("step %d (%s) returned an unexpected error: %s", i, st.Op, rec.Out)
			res.seen("unexpected_errors", st.Op+": "+rec.Out)
			return
		}
		if !isRead(st.Op) {
			if rec.Out != want {
				class := "sync-write-outcome-ignores-accepted-writes"
				if st.Op == "cond-put" {
					class = "conditional-put-precondition-ignores-accepted-writes"
				}
				if st.Op == "bad-put" {
					class = "put-with-mismatching-checksum-not-rejected"
				}
				res.violate(fmt.Sprintf("%s:%s%s:expected-%s-got-%s", class, st.Op, condSuffix(st), want, rec.Out),
					fmt.Sprintf("step %d %s %s/%s: the writes accepted before it leave the key %s, so the call must answer %s; it answered %s", i, st.Op, st.Bucket, st.Key, c.model.fp(st.Bucket, st.Key), want, rec.Out),
					c.witness(map[string]any{"step": i}))
			}
			if rec.Out == "ok" {
				c.applyWrite(0, st, lastWrite)
				res.count("writes_accepted", 1)
			} else {
				res.count("writes_rejected:"+rec.Out, 1)
			}
			continue
		}
		c.checkSeqRead(i, st, rec, lastWrite)
	}
	c.checkDrain(lastWrite)
}

func condSuffix(st c21Step) string {
	if st.Cond != "" {
		return "(" + st.Cond + ")"
	}
	return ""
}

func (c *c21Run) checkSeqRead(i int, st c21Step, rec c21Rec, lastWrite map[string]string) {
	res, m := c.res, c.model
	res.count("reads_checked", 1)
	switch st.Op {
	case "head", "get", "get-tagging":
		want := m.fp(st.Bucket, st.Key)
		got := *rec.FP
		if rec.Out != "ok" {
			got = fpAbsent
		}
		diff := fpMatches(want, got)
		if len(diff) == 0 {
			return
		}
		lw := lastWrite[st.Bucket+"/"+st.Key]
		if lw == "" {
			lw = "none"
		}
		older := false
		if bk := m.bucket(st.Bucket); bk != nil {
			h := bk.History[st.Key]
			for j := 0; j+1 < len(h); j++ {
				if len(fpMatches(h[j], got)) == 0 {
					older = true
				}
			}
			if got == fpAbsent && want != fpAbsent {
				older = true // at least the state before the first write
			}
		}
		sig := ""
		if older {
			sig = fmt.Sprintf("stale-read-after-accepted-%s:%s", lw, st.Op)
		} else {
			sig = fmt.Sprintf("read-diverges-from-accepted-writes:%s:%s:last-write=%s", st.Op, strings.Join(diff, "+"), lw)
		}
		res.violate(sig, fmt.Sprintf("step %d %s %s/%s: accepted writes leave %s; the read (started after they were accepted) observed %s [%s]", i, st.Op, st.Bucket, st.Key, want, got, rec.Out),
			c.witness(map[string]any{"step": i}))
	case "list":
		if m.bucket(st.Bucket) == nil {
			if rec.Out == "ok" {
				res.violate("list-of-deleted-bucket-succeeds", fmt.Sprintf("step %d: bucket %s does not exist after the accepted writes", i, st.Bucket), c.witness(map[string]any{"step": i}))
			}
			return
		}
		want := []string{}
		for _, k := range m.keys(st.Bucket) {
			want = append(want, fmt.Sprintf("%s/%d", k, m.get(st.Bucket, k).Size))
		}
		c.compareListing(i, "list", want, rec, "put", "delete")
	case "list-buckets":
		c.compareListing(i, "list-buckets", m.bucketNames(), rec, "create-bucket", "delete-bucket")
	case "head-bucket":
		exists := m.bucket(st.Bucket) != nil
		if exists && rec.Out != "ok" {
			res.violate("stale-read-after-accepted-create-bucket:head-bucket", fmt.Sprintf("step %d: HeadBucket(%s) = %s after CreateBucket was accepted", i, st.Bucket, rec.Out), c.witness(map[string]any{"step": i}))
		}
		if !exists && rec.Out == "ok" {
			res.violate("stale-read-after-accepted-delete-bucket:head-bucket", fmt.Sprintf("step %d: HeadBucket(%s) succeeds although the bucket does not exist after the accepted writes", i, st.Bucket), c.witness(map[string]any{"step": i}))
		}
	case "get-versioning":
		if b := m.bucket(st.Bucket); b != nil && rec.Out == "ok" && rec.Keys[0] != b.Versioning {
			res.violate("stale-read-after-accepted-versioning-change", fmt.Sprintf("step %d: versioning status %q, accepted %q", i, rec.Keys[0], b.Versioning), c.witness(map[string]any{"step": i}))
		}
	}
}

func (c *c21Run) compareListing(i int, op string, want []string, rec c21Rec, addOp, delOp string) {
	res := c.res
	if rec.Out != "ok" {
		res.violate(op+"-fails-for-existing-bucket:"+rec.Out, fmt.Sprintf("step %d %s: %s", i, op, rec.Out), c.witness(map[string]any{"step": i}))
		return
	}
	ws, gs := map[string]bool{}, map[string]bool{}
	for _, x := range want {
		ws[x] = true
	}
	for _, x := range rec.Keys {
		gs[x] = true
	}
	var missing, extra []string
	for x := range ws {
		if !gs[x] {
			missing = append(missing, x)
		}
	}
	for x := range gs {
		if !ws[x] {
			extra = append(extra, x)
		}
	}
	sort.Strings(missing)
	sort.Strings(extra)
	if len(missing) > 0 {
		res.violate(fmt.Sprintf("stale-read-after-accepted-%s:%s-misses-entry", addOp, op), fmt.Sprintf("step %d %s: expected %v, got %v (missing %v)", i, op, want, rec.Keys, missing), c.witness(map[string]any{"step": i}))
	}
	if len(extra) > 0 {
		res.violate(fmt.Sprintf("stale-read-after-accepted-%s:%s-shows-removed-entry", delOp, op), fmt.Sprintf("step %d %s: expected %v, got %v (unexpected %v)", i, op, want, rec.Keys, extra), c.witness(map[string]any{"step": i}))
	}
}

// observeFull reads one key directly from the inner storage (after drain).
func observeFull(ctx context.Context, st storage.Storage, b, k string) (objFP, string) {
	h, kind, _ := headFP(ctx, st, b, k)
	if kind != "ok" {
		return fpAbsent, kind
	}
	g, kind := getFP(ctx, st, b, k)
	if kind != "ok" {
		return fpAbsent, "get:" + kind
	}
	t, kind := tagsFP(ctx, st, b, k)
	if kind != "ok" {
		return fpAbsent, "tagging:" + kind
	}
	if d := fpMatches(g, h); len(d) > 0 {
		return g, "head-and-get-disagree:" + strings.Join(d, "+")
	}
	g.Tags = t.Tags
	return g, "ok"
}

// checkDrain: after the outbox table is empty the inner storage must equal the
// model obtained by applying the accepted writes in acceptance order.
func (c *c21Run) checkDrain(lastWrite map[string]string) {
	res, m := c.res, c.model
	if !c.waitDrained(60 * time.Second) {
		res.Inconclusive = "outbox not drained within 60 s"
		res.count("drain_watchdog_expired", 1)
		return
	}
	res.count("drain_checks", 1)
	ctx := context.Background()
	bs, err := c.inner.ListBuckets(ctx)
	if err != nil {
		res.Inconclusive = "inner ListBuckets: " + err.Error()
		return
	}
	got := map[string]bool{}
	for _, b := range bs {
		got[b.Name.String()] = true
		if m.bucket(b.Name.String()) == nil {
			res.violate("drain-divergence:bucket-exists-but-delete-was-accepted-last", "inner storage still has bucket "+b.Name.String(), c.witness(nil))
		}
	}
	for _, b := range m.bucketNames() {
		if !got[b] {
			res.violate("drain-divergence:accepted-bucket-missing", "inner storage lacks bucket "+b, c.witness(nil))
			continue
		}
		bn := storage.MustNewBucketName(b)
		cfg, err := c.inner.GetBucketVersioningConfiguration(ctx, bn)
		status := ""
		if err == nil && cfg.Status != nil {
			status = string(*cfg.Status)
		}
		if status != m.bucket(b).Versioning {
			res.violate("drain-divergence:versioning-status", fmt.Sprintf("bucket %s versioning %q, accepted %q", b, status, m.bucket(b).Versioning), c.witness(nil))
		}
		objs, err := storage.ListAllObjectsOfBucket(ctx, c.inner, bn)
		if err != nil {
			res.Inconclusive = "inner ListObjects: " + err.Error()
			return
		}
		listed := map[string]bool{}
		for _, o := range objs {
			listed[o.Key.String()] = true
			if m.get(b, o.Key.String()) == nil {
				lw := lastWrite[b+"/"+o.Key.String()]
				res.violate("drain-divergence:object-survives-accepted-"+orNone(lw), fmt.Sprintf("inner storage lists %s/%s which the accepted writes leave absent", b, o.Key.String()), c.witness(nil))
			}
		}
		for _, k := range m.keys(b) {
			want := m.get(b, k).FP
			obs, kind := observeFull(ctx, c.inner, b, k)
			res.count("drain_objects_compared", 1)
			lw := orNone(lastWrite[b+"/"+k])
			if kind != "ok" {
				if obs == fpAbsent {
					res.violate("drain-divergence:accepted-object-missing:last-write="+lw, fmt.Sprintf("%s/%s: accepted writes leave %s, inner storage: %s", b, k, want, kind), c.witness(nil))
				} else {
					res.violate("drain-divergence:"+kind, fmt.Sprintf("%s/%s", b, k), c.witness(nil))
				}
				continue
			}
			if !listed[k] {
				res.violate("drain-divergence:object-readable-but-not-listed", fmt.Sprintf("%s/%s", b, k), c.witness(nil))
			}
			diff := fpMatches(want, obs)
			if len(diff) == 0 {
				continue
			}
			older := false
			h := m.bucket(b).History[k]
			for j := 0; j+1 < len(h); j++ {
				if h[j] == obs {
					older = true
				}
			}
			switch {
			case older:
				res.violate("drain-divergence:older-write-won:last-write="+lw, fmt.Sprintf("%s/%s: accepted writes leave %s, inner storage holds the earlier state %s", b, k, want, obs), c.witness(nil))
			case !contains(diff, "content"):
				res.violate(fmt.Sprintf("drain-divergence:%s-options-lost:%s", lw, strings.Join(diff, "+")), fmt.Sprintf("%s/%s: accepted writes leave %s, inner storage holds %s", b, k, want, obs), c.witness(nil))
			default:
				res.violate(fmt.Sprintf("drain-divergence:content-differs:last-write=%s", lw), fmt.Sprintf("%s/%s: accepted writes leave %s, inner storage holds %s", b, k, want, obs), c.witness(nil))
			}
		}
		if !m.bucket(b).EverVersioned {
			vs, err := c.inner.ListObjectVersions(ctx, bn, storage.ListObjectVersionsOptions{MaxKeys: 1000})
			if err == nil && len(vs.Versions) != len(m.keys(b)) {
				res.violate("drain-divergence:extra-versions-in-never-versioned-bucket", fmt.Sprintf("bucket %s: %d versions/markers for %d objects", b, len(vs.Versions), len(m.keys(b))), c.witness(nil))
			}
		}
	}
}

func orNone(s string) string {
	if s == "" {
		return "none"
	}
	return s
}

func contains(xs []string, x string) bool {
	for _, y := range xs {
		if y == x {
			return true
		}
	}
	return false
}

// ---------------------------------------------------------------------------
// 3-client variant: per-key porcupine + containment rule for listings
// ---------------------------------------------------------------------------

type kvIn struct {
	Op   string // put | del | condput | retag | read
	FP   objFP
	Tags string
}

type kvOut struct {
	Kind string // ok | precondition-failed | no-such-key (reads: ok | absent)
	FP   objFP
}

var c21KeyModel = porcupine.Model{
	Init: func() interface{} { return fpAbsent },
	Step: func(state, input, output interface{}) (bool, interface{}) {
		st := state.(objFP)
		in := input.(kvIn)
		out := output.(kvOut)
		switch in.Op {
		case "put":
			return true, in.FP
		case "del":
			return true, fpAbsent
		case "condput":
			if out.Kind == "ok" {
				return st == fpAbsent, in.FP
			}
			return st != fpAbsent, st
		case "retag":
			if out.Kind == "ok" {
				if st == fpAbsent {
					return false, st
				}
				st.Tags = in.Tags
				return true, st
			}
			return st == fpAbsent, st
		default:
			if out.Kind != "ok" {
				return st == fpAbsent, st
			}
			return len(fpMatches(st, out.FP)) == 0, st
		}
	},
	Equal: func(a, b interface{}) bool { return a.(objFP) == b.(objFP) },
	DescribeOperation: func(in, out interface{}) string {
		return fmt.Sprintf("%s %v -> %v", in.(kvIn).Op, in.(kvIn).FP, out.(kvOut))
	},
}

func (c *c21Run) runConc() {
	res := c.res
	lastWrite := map[string]string{}
	for i, st := range c.spec.Steps { // sequential setup
		rec := c.exec(0, st)
		if rec.Out != "ok" {
			res.Inconclusive = fmt.Sprintf("setup step %d (%s) failed: %s", i, st.Op, rec.Out)
			return
		}
		c.applyWrite(0, st, lastWrite)
	}
	var wg sync.WaitGroup
	start := make(chan struct{})
	for ci, ops := range c.spec.Clients {
		wg.Add(1)
		go func(client int, ops []c21Step) {
			defer wg.Done()
			<-start
			for _, st := range ops {
				if st.PreUs > 0 {
					time.Sleep(time.Duration(st.PreUs) * time.Microsecond)
				}
				c.exec(client, st)
			}
		}(ci+1, ops)
	}
	close(start)
	wg.Wait()
	if !c.waitDrained(60 * time.Second) {
		res.Inconclusive = "outbox not drained within 60 s"
		res.count("drain_watchdog_expired", 1)
		return
	}
	res.count("drain_checks", 1)
	// final state of every key, read from the inner storage directly
	ctx := context.Background()
	type bk struct{ b, k string }
	keys := map[bk]bool{}
	hist := append([]c21Rec(nil), c.hist...)
	for _, r := range hist {
		if r.Step.Key != "" {
			keys[bk{r.Step.Bucket, r.Step.Key}] = true
		}
	}
	finals := map[bk]c21Rec{}
	for key := range keys {
		rec := c21Rec{Client: 99, Step: c21Step{Op: "inner-read", Bucket: key.b, Key: key.k}, Call: tick()}
		fp, kind := observeFull(ctx, c.inner, key.b, key.k)
		rec.Ret = tick()
		rec.Out, rec.FP = kind, &fp
		if kind != "ok" && fp != fpAbsent {
			res.violate("drain-divergence:"+kind, fmt.Sprintf("%s/%s", key.b, key.k), c.witness(nil))
		}
		finals[key] = rec
		c.record(rec)
	}
	// overlap measurement + per key check
	var overlaps int64
	for key := range keys {
		var ops []porcupine.Operation
		var writes []c21Rec
		bad := false
		for _, r := range hist {
			if r.Step.Bucket != key.b || r.Step.Key != key.k {
				continue
			}
			if strings.HasPrefix(r.Out, "err:") {
				bad = true
				res.seen("unexpected_errors", r.Step.Op+": "+r.Out)
			}
			var in kvIn
			out := kvOut{Kind: r.Out}
			switch r.Step.Op {
			case "put":
				in = kvIn{Op: "put", FP: r.Step.objFP(r.Client)}
				writes = append(writes, r)
			case "delete":
				in = kvIn{Op: "del"}
				writes = append(writes, r)
			case "cond-put":
				in = kvIn{Op: "condput", FP: r.Step.objFP(r.Client)}
				writes = append(writes, r)
			case "put-tagging":
				in = kvIn{Op: "retag", Tags: mapFP(r.Step.Tags)}
				writes = append(writes, r)
			case "head", "get", "get-tagging":
				in = kvIn{Op: "read"}
				out.FP = *r.FP
			default:
				continue
			}
			ops = append(ops, porcupine.Operation{ClientId: r.Client, Input: in, Call: r.Call, Output: out, Return: r.Ret})
		}
		if bad {
			res.Inconclusive = "an operation returned an unexpected error (outcome unknown)"
			continue
		}
		for i, w := range writes {
			for _, r2 := range hist {
				if r2.Step.Bucket == key.b && r2.Step.Key == key.k && r2.Client != w.Client && r2.Call > w.Call && !(w.Ret < r2.Call || r2.Ret < w.Call) {
					overlaps++
				}
			}
			_ = i
		}
		if len(ops) == 0 {
			continue
		}
		verdict, _ := porcupine.CheckOperationsVerbose(c21KeyModel, ops, 20*time.Second)
		res.count("porcupine_histories", 1)
		if verdict == porcupine.Unknown {
			res.count("porcupine_unknown", 1)
			res.Inconclusive = "porcupine timed out"
			continue
		}
		if verdict == porcupine.Illegal {
			res.count("porcupine_illegal", 1)
			res.violate("concurrent-clients:key-history-not-linearizable", fmt.Sprintf("operations on %s/%s through the outbox storage admit no order in which every read reflects the writes accepted before it started", key.b, key.k), c.witness(map[string]any{"key": key.b + "/" + key.k}))
			continue
		}
		res.count("porcupine_ok", 1)
		fin := finals[key]
		out := kvOut{Kind: fin.Out, FP: *fin.FP}
		if fin.Out != "ok" {
			out.Kind = "absent"
		}
		ops = append(ops, porcupine.Operation{ClientId: 99, Input: kvIn{Op: "read"}, Call: fin.Call, Output: out, Return: fin.Ret})
		verdict, _ = porcupine.CheckOperationsVerbose(c21KeyModel, ops, 20*time.Second)
		res.count("drain_objects_compared", 1)
		if verdict == porcupine.Illegal {
			res.violate("drain-divergence:concurrent-clients:final-state-is-not-a-possible-last-accepted-write", fmt.Sprintf("%s/%s: inner storage after drain holds %s, which no admissible acceptance order of the recorded writes produces", key.b, key.k, *fin.FP), c.witness(map[string]any{"key": key.b + "/" + key.k}))
		}
	}
	res.count("overlapping_op_pairs_same_key", overlaps)
	// listing containment: keys without a concurrent write must be listed iff
	// the last accepted write(s) before the listing started leave them present
	for _, l := range hist {
		if l.Step.Op != "list" || l.Out != "ok" {
			continue
		}
		listed := map[string]bool{}
		for _, x := range l.Keys {
			listed[x[:strings.LastIndex(x, "/")]] = true
		}
		for key := range keys {
			if key.b != l.Step.Bucket {
				continue
			}
			var before, conc []c21Rec
			for _, w := range hist {
				if w.Step.Bucket != key.b || w.Step.Key != key.k || w.Out != "ok" {
					continue
				}
				switch w.Step.Op {
				case "put", "delete", "cond-put":
				default:
					continue
				}
				switch {
				case w.Ret < l.Call:
					before = append(before, w)
				case l.Ret < w.Call:
				default:
					conc = append(conc, w)
				}
			}
			if len(conc) > 0 {
				continue
			}
			allPut, allDel := len(before) > 0, true
			for _, w := range before {
				maximal := true
				for _, w2 := range before {
					if w.Ret < w2.Call {
						maximal = false
					}
				}
				if !maximal {
					continue
				}
				if w.Step.Op == "delete" {
					allPut = false
				} else {
					allDel = false
				}
			}
			res.count("list_containment_checks", 1)
			if allPut && !listed[key.k] {
				res.violate("stale-read-after-accepted-put:list-misses-entry:concurrent-clients", fmt.Sprintf("ListObjects(%s)@[%d,%d] = %v lacks %s", key.b, l.Call, l.Ret, l.Keys, key.k), c.witness(nil))
			}
			if allDel && listed[key.k] {
				res.violate("stale-read-after-accepted-delete:list-shows-removed-entry:concurrent-clients", fmt.Sprintf("ListObjects(%s)@[%d,%d] = %v shows %s", key.b, l.Call, l.Ret, l.Keys, key.k), c.witness(nil))
			}
		}
	}
}

// ---------------------------------------------------------------------------
// driver
// ---------------------------------------------------------------------------

func runC21(tier, replay string) {
	r := vkit.Begin("C21", "exploration", tier)
	r.SetRule("a case = one generated history through outbox.NewStorage over a real SQLite metadata-part storage with the worker flushing asynchronously: 3 of 4 cases sequential (25 steps: create/delete bucket, puts with tags/metadata/storage class/content type, deletes, multi-deletes, conditional puts, copies, tagging, versioning toggles, reads), 1 of 4 with three concurrent clients on shared keys; hook delays at storageoutbox.after-replay and tx.commit.* move the worker. distinct = distinct (variant, db layout, observed order of call/return events and outcomes)")
	r.Assume("reference model written for this check: current-object view per key (content hash, size, content type, user-controllable metadata, tags, storage class), bucket set, versioning status; version lists are only counted for never-versioned buckets")
	r.Assume("a write is accepted iff the call returned nil; the generator only emits writes that are valid at acceptance order (a queued CreateBucket of an existing bucket / DeleteBucket of a non-empty bucket / put into a missing bucket is retried forever by the worker; such candidates are counted as poison_entries_excluded_by_generator, not executed)")
	r.Assume("convergence is decided after a bounded drain (outbox table empty, 60 s watchdog -> inconclusive)")
	if replay != "" {
		var w struct {
			Spec c21Spec `json:"spec"`
		}
		_, wantSig := readReplay(replay, &w)
		reproduced := false
		attempts := 1
		if w.Spec.Variant != "seq" {
			attempts = 6
		}
		for i := 0; i < attempts && !reproduced; i++ {
			res := runC21Case(w.Spec, filepath.Join(r.Dir, fmt.Sprintf("replay-%d", i)))
			mergeResult(r, res)
			for _, v := range res.Violations {
				if v.Signature == wantSig || wantSig == "" {
					reproduced = true
				}
			}
		}
		if reproduced {
			fmt.Println("replay: reproduced")
		} else {
			fmt.Printf("replay: not reproduced (%d re-execution(s))\n", attempts)
		}
		r.Finish()
	}
	n := r.N(40, 600)
	if v := os.Getenv("VERIF_CASES"); v != "" {
		fmt.Sscanf(v, "%d", &n)
	}
	par := parallelism(r, 6, 8)
	rng := r.Rand()
	specs := make([]c21Spec, n)
	batches := make([]batchFile, par)
	for i := range batches {
		batches[i] = batchFile{Prop: "C21", Dir: filepath.Join(r.Dir, fmt.Sprintf("child-%d", i))}
	}
	for i := 0; i < n; i++ {
		specs[i] = genC21Spec(rng, i)
		batches[i%par].C21 = append(batches[i%par].C21, specs[i])
	}
	var inconclusiveCases []string
	runBatches(r, batches, func(idx int) any { return specs[idx] }, 200, func(res *caseResult) {
		mergeResult(r, res)
		if res.Inconclusive != "" {
			inconclusiveCases = append(inconclusiveCases, fmt.Sprintf("case %d: %s", res.Index, res.Inconclusive))
		}
	})
	sort.Strings(inconclusiveCases)
	if len(inconclusiveCases) > 0 {
		r.SetExtra("inconclusive_cases", inconclusiveCases)
		r.Count("cases_inconclusive", int64(len(inconclusiveCases)))
		if len(inconclusiveCases)*10 > n {
			r.Inconclusive(fmt.Sprintf("%d of %d cases undecided (first: %s)", len(inconclusiveCases), n, inconclusiveCases[0]))
		}
	}
	if r.Counter("reads_started_with_pending_entries") < int64(n)/2 {
		r.Inconclusive("too few reads were issued while the outbox still held entries")
	}
	if r.Counter("drain_checks") == 0 || r.Counter("drain_objects_compared") == 0 {
		r.Inconclusive("drain state never compared")
	}
	if n >= 16 && r.Counter("entries_left_leased_by_foreign_owner") == 0 {
		r.Inconclusive("no entry was ever left leased by a foreign owner")
	}
	if r.Counter("hook_hits:storageoutbox.after-replay") == 0 {
		r.Inconclusive("storageoutbox.after-replay hook never hit")
	}
	if r.Counter("cases:conc3") > 0 && r.Counter("overlapping_op_pairs_same_key") == 0 {
		r.Inconclusive("no overlapping operations observed in the 3-client variant")
	}
	if rr := countRaceReports(); rr > 0 {
		r.SetExtra("race_reports", rr)
	}
	r.Finish()
}

func dumpC21(rng *vkit.Rand, idx int, dir string) {
	spec := genC21Spec(rng, idx)
	res := runC21Case(spec, dir)
	fmt.Printf("SPEC variant=%s shared=%v parts=%s hooks=%+v excluded=%d\n", spec.Variant, spec.SharedDB, spec.InnerParts, spec.Hooks, spec.Excluded)
	for _, v := range res.Violations {
		fmt.Println("VIOLATION", v.Signature, "::", v.What)
	}
	fmt.Println("COUNTERS", res.Counters, "INCONCLUSIVE:", res.Inconclusive, "wall_ms", res.WallMs)
}
