package vmodel

import (
	"crypto/md5"
	"crypto/sha1"
	"crypto/sha256"
	"encoding/base64"
	"encoding/binary"
	"encoding/hex"
	"hash/crc32"
	"hash/crc64"
)

// Independent reference checksums (standard library only; the CRC-64/NVME
// polynomial is written out here, reflected form).
var (
	castagnoli = crc32.MakeTable(crc32.Castagnoli)
	nvme       = crc64.MakeTable(0x9a6c9329ac4bc9b5)
)

type Sums struct{ ETag, MD5Hex, CRC32, CRC32C, CRC64NVME, SHA1, SHA256 string }

func RefChecksums(b []byte) Sums {
	m := md5.Sum(b)
	s1 := sha1.Sum(b)
	s2 := sha256.Sum256(b)
	b4 := func(v uint32) string {
		x := make([]byte, 4)
		binary.BigEndian.PutUint32(x, v)
		return base64.StdEncoding.EncodeToString(x)
	}
	b8 := func(v uint64) string {
		x := make([]byte, 8)
		binary.BigEndian.PutUint64(x, v)
		return base64.StdEncoding.EncodeToString(x)
	}
	return Sums{
		ETag:      "\"" + hex.EncodeToString(m[:]) + "\"",
		MD5Hex:    hex.EncodeToString(m[:]),
		CRC32:     b4(crc32.ChecksumIEEE(b)),
		CRC32C:    b4(crc32.Checksum(b, castagnoli)),
		CRC64NVME: b8(crc64.Checksum(b, nvme)),
		SHA1:      base64.StdEncoding.EncodeToString(s1[:]),
		SHA256:    base64.StdEncoding.EncodeToString(s2[:]),
	}
}
