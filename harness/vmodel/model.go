package vmodel

import (
	"bytes"
	"crypto/md5"
	"encoding/hex"
	"fmt"
	"sort"
	"strconv"

	"github.com/jdillenkofer/pithos/internal/storage"
)

// MPart is one stored part of a model version (for the ETag rule).
type MPart struct {
	Size int64
	MD5  [16]byte
}

// MVersion is one version (object or delete marker) of a key in the model.
type MVersion struct {
	ID          string // the id pithos returned ("null" for the null version)
	Marker      bool
	Content     []byte
	ContentType *string
	Meta        storage.ObjectMetadata
	Tags        map[string]string
	Class       string // effective class, "STANDARD" default
	Parts       []MPart
	Multipart   bool   // ETag has the "-N" form
	CksumType   string // FULL_OBJECT / COMPOSITE
	Seq         int64  // write recency
}

func (v *MVersion) ETag() string {
	if v.Marker {
		return ""
	}
	if !v.Multipart {
		s := md5.Sum(v.Content)
		return "\"" + hex.EncodeToString(s[:]) + "\""
	}
	h := md5.New()
	for _, p := range v.Parts {
		h.Write(p.MD5[:])
	}
	return "\"" + hex.EncodeToString(h.Sum(nil)) + "-" + strconv.Itoa(len(v.Parts)) + "\""
}

type MUploadPart struct {
	Content []byte
}

type MUpload struct {
	ID          string
	Key         string
	ContentType *string
	Meta        storage.ObjectMetadata
	Tags        map[string]string
	Class       string
	CksumType   string
	Parts       map[int32]*MUploadPart
	Seq         int64
}

type MBucket struct {
	Name       string
	Versioning string // "", "Enabled", "Suspended"
	Keys       map[string][]*MVersion
	Uploads    map[string]*MUpload
}

type Model struct {
	Buckets map[string]*MBucket
	seq     int64
	// Finished remembers upload ids that were completed or aborted, so that the
	// generator can re-use them: they must answer NoSuchUpload and touch nothing.
	Finished []FinishedUpload
}

type FinishedUpload struct {
	Bucket, Key, ID string
	How             string // completed | aborted
}

func (m *Model) finish(bucket, key, id, how string) {
	m.Finished = append(m.Finished, FinishedUpload{Bucket: bucket, Key: key, ID: id, How: how})
	if len(m.Finished) > 24 {
		m.Finished = m.Finished[len(m.Finished)-24:]
	}
}

func NewModel() *Model { return &Model{Buckets: map[string]*MBucket{}} }

func (m *Model) nextSeq() int64 { m.seq++; return m.seq }

// Current returns the most recently written surviving version of key (may be a marker) or nil.
func (b *MBucket) Current(key string) *MVersion {
	var cur *MVersion
	for _, v := range b.Keys[key] {
		if cur == nil || v.Seq > cur.Seq {
			cur = v
		}
	}
	return cur
}

// CurrentObject returns the current version if it is an object (not a marker).
func (b *MBucket) CurrentObject(key string) *MVersion {
	c := b.Current(key)
	if c == nil || c.Marker {
		return nil
	}
	return c
}

func (b *MBucket) Find(key, id string) *MVersion {
	for _, v := range b.Keys[key] {
		if v.ID == id {
			return v
		}
	}
	return nil
}

func (b *MBucket) remove(key string, v *MVersion) {
	vs := b.Keys[key]
	for i, x := range vs {
		if x == v {
			vs = append(vs[:i:i], vs[i+1:]...)
			break
		}
	}
	if len(vs) == 0 {
		delete(b.Keys, key)
	} else {
		b.Keys[key] = vs
	}
}

func (b *MBucket) Empty() bool { return len(b.Keys) == 0 && len(b.Uploads) == 0 }

func effClass(c *string) string {
	if c == nil || *c == "" {
		return "STANDARD"
	}
	return *c
}

func cloneTags(t map[string]string) map[string]string {
	if len(t) == 0 {
		return nil
	}
	o := make(map[string]string, len(t))
	for k, v := range t {
		o[k] = v
	}
	return o
}

func cloneMeta(m *storage.ObjectMetadata) storage.ObjectMetadata {
	if m == nil {
		return storage.ObjectMetadata{}
	}
	o := *m
	o.UserMetadata = cloneTags(m.UserMetadata)
	return o
}

func singlePart(content []byte) []MPart {
	return []MPart{{Size: int64(len(content)), MD5: md5.Sum(content)}}
}

// Expect is what the model predicts for an operation.
type Expect struct {
	Kind string // expected error kind; "" = success
	// AltKinds are other error kinds that are the same class for the property
	// statements (recorded as observations when they differ).
	AltKinds []string
	// for successful reads
	Version *MVersion
	Content []byte
	Tags    map[string]string
}

func absentAlts(k string) []string {
	switch k {
	case "NoSuchKey", "DeleteMarker", "MethodNotAllowed":
		return []string{"NoSuchKey", "DeleteMarker", "MethodNotAllowed"}
	}
	return nil
}

// resolve finds the version a read/copy/tagging/transition addresses.
func (m *Model) resolve(bucket, key string, versionID *string) (*MBucket, *MVersion, string) {
	b := m.Buckets[bucket]
	if b == nil {
		return nil, nil, "NoSuchBucket"
	}
	if versionID != nil {
		v := b.Find(key, *versionID)
		if v == nil {
			return b, nil, "NoSuchKey"
		}
		if v.Marker {
			return b, nil, "MethodNotAllowed"
		}
		return b, v, ""
	}
	c := b.Current(key)
	if c == nil {
		return b, nil, "NoSuchKey"
	}
	if c.Marker {
		return b, nil, "DeleteMarker"
	}
	return b, c, ""
}

func precond(cur *MVersion, ifNoneMatchStar bool, ifMatch *string) string {
	if ifMatch != nil {
		if cur == nil {
			return "PreconditionFailed"
		}
		if *ifMatch != "*" && cur.ETag() != *ifMatch {
			return "PreconditionFailed"
		}
	}
	if ifNoneMatchStar && cur != nil {
		return "PreconditionFailed"
	}
	return ""
}

// write installs a new object version according to the bucket's versioning
// state. id is the version id pithos returned (used only when Enabled).
func (m *Model) write(b *MBucket, key string, nv *MVersion, realID *string) *MVersion {
	nv.Seq = m.nextSeq()
	if b.Versioning == "Enabled" {
		nv.ID = "?"
		if realID != nil {
			nv.ID = *realID
		}
	} else {
		if old := b.Find(key, "null"); old != nil {
			b.remove(key, old)
		}
		nv.ID = "null"
	}
	b.Keys[key] = append(b.Keys[key], nv)
	return nv
}

// Predict computes the expected outcome of op without changing the model.
func (m *Model) Predict(op *Op) Expect {
	switch op.Kind {
	case OpCreateBucket:
		if m.Buckets[op.Bucket] != nil {
			return Expect{Kind: "BucketAlreadyExists"}
		}
		return Expect{}
	case OpDeleteBucket:
		b := m.Buckets[op.Bucket]
		if b == nil {
			return Expect{Kind: "NoSuchBucket"}
		}
		if !b.Empty() {
			return Expect{Kind: "BucketNotEmpty"}
		}
		return Expect{}
	case OpVersioning:
		if m.Buckets[op.Bucket] == nil {
			return Expect{Kind: "NoSuchBucket"}
		}
		return Expect{}
	case OpPut:
		b := m.Buckets[op.Bucket]
		if b == nil {
			return Expect{Kind: "NoSuchBucket"}
		}
		if k := checksumMismatch(op.Checksum, op.Body); k != "" {
			return Expect{Kind: k}
		}
		if k := precond(b.CurrentObject(op.Key), op.IfNoneMatchStar, op.IfMatch); k != "" {
			return Expect{Kind: k}
		}
		return Expect{}
	case OpGet, OpHead:
		_, v, k := m.resolve(op.Bucket, op.Key, op.VersionID)
		if k != "" {
			return Expect{Kind: k, AltKinds: absentAlts(k)}
		}
		content := v.Content
		if op.Range != nil {
			st, en := op.Range[0], op.Range[1]
			if en > int64(len(content)) {
				en = int64(len(content))
			}
			if st < 0 || st >= en {
				return Expect{Kind: "InvalidRange"}
			}
			content = content[st:en]
		}
		return Expect{Version: v, Content: content}
	case OpDelete:
		b := m.Buckets[op.Bucket]
		if b == nil {
			return Expect{Kind: "NoSuchBucket"}
		}
		if op.VersionID != nil {
			v := b.Find(op.Key, *op.VersionID)
			if v == nil {
				if op.IfMatch != nil {
					return Expect{Kind: "PreconditionFailed"}
				}
				return Expect{}
			}
			if op.IfMatch != nil && *op.IfMatch != "*" && (v.Marker || v.ETag() != *op.IfMatch) {
				return Expect{Kind: "PreconditionFailed"}
			}
			return Expect{Version: v}
		}
		if op.IfMatch != nil {
			if k := precond(b.CurrentObject(op.Key), false, op.IfMatch); k != "" {
				return Expect{Kind: k}
			}
		}
		return Expect{}
	case OpMultiDelete:
		if m.Buckets[op.Bucket] == nil {
			return Expect{Kind: "NoSuchBucket"}
		}
		return Expect{}
	case OpCopy:
		if m.Buckets[op.SrcBucket] == nil {
			return Expect{Kind: "NoSuchBucket"}
		}
		_, sv, k := m.resolve(op.SrcBucket, op.SrcKey, op.SrcVersionID)
		if k != "" {
			return Expect{Kind: k, AltKinds: absentAlts(k)}
		}
		if op.SrcIfMatch != nil && *op.SrcIfMatch != "*" && *op.SrcIfMatch != sv.ETag() {
			return Expect{Kind: "PreconditionFailed"}
		}
		if op.SrcIfNone != nil && (*op.SrcIfNone == "*" || *op.SrcIfNone == sv.ETag()) {
			return Expect{Kind: "PreconditionFailed"}
		}
		if op.Range != nil {
			st, en := op.Range[0], op.Range[1]
			if en > int64(len(sv.Content)) {
				en = int64(len(sv.Content))
			}
			if st < 0 || st >= en {
				return Expect{Kind: "InvalidRange"}
			}
		}
		if m.Buckets[op.Bucket] == nil {
			return Expect{Kind: "NoSuchBucket"}
		}
		return Expect{Version: sv}
	case OpAppend:
		b := m.Buckets[op.Bucket]
		if b == nil {
			return Expect{Kind: "NoSuchBucket"}
		}
		cur := b.CurrentObject(op.Key)
		if op.WriteOffset != nil {
			var size int64
			if cur != nil {
				size = int64(len(cur.Content))
			}
			if *op.WriteOffset != size {
				return Expect{Kind: "InvalidWriteOffset"}
			}
		}
		if k := checksumMismatch(op.Checksum, op.Body); k != "" {
			return Expect{Kind: k}
		}
		if cur != nil && len(cur.Parts)+1 > 10000 {
			return Expect{Kind: "TooManyParts"}
		}
		return Expect{Version: cur}
	case OpMpuCreate:
		if m.Buckets[op.Bucket] == nil {
			return Expect{Kind: "NoSuchBucket"}
		}
		return Expect{}
	case OpMpuPart, OpMpuPartCopy, OpMpuAbort, OpMpuComplete:
		b := m.Buckets[op.Bucket]
		if b == nil {
			return Expect{Kind: "NoSuchBucket"}
		}
		u := b.Uploads[op.UploadID]
		if op.Kind == OpMpuPartCopy {
			if m.Buckets[op.SrcBucket] == nil {
				return Expect{Kind: "NoSuchBucket"}
			}
			_, sv, k := m.resolve(op.SrcBucket, op.SrcKey, op.SrcVersionID)
			if k != "" {
				return Expect{Kind: k, AltKinds: absentAlts(k)}
			}
			if op.Range != nil {
				st, en := op.Range[0], op.Range[1]
				if en > int64(len(sv.Content)) {
					en = int64(len(sv.Content))
				}
				if st < 0 || st >= en {
					return Expect{Kind: "InvalidRange"}
				}
			} else if len(sv.Content) == 0 {
				return Expect{Kind: "InvalidRange"}
			}
			if u == nil || u.Key != op.Key {
				return Expect{Kind: "NoSuchUpload", AltKinds: []string{"NoSuchUpload", "NoSuchKey"}}
			}
			return Expect{Version: sv}
		}
		if u == nil || u.Key != op.Key {
			return Expect{Kind: "NoSuchUpload", AltKinds: []string{"NoSuchUpload", "NoSuchKey"}}
		}
		if op.Kind == OpMpuPart {
			if k := checksumMismatch(op.Checksum, op.Body); k != "" {
				return Expect{Kind: k}
			}
		}
		if op.Kind == OpMpuComplete {
			if op.PartsGiven {
				prev := int32(0)
				for _, p := range op.Parts {
					if p.PartNumber <= prev {
						return Expect{Kind: "InvalidPartOrder"}
					}
					prev = p.PartNumber
					up := u.Parts[p.PartNumber]
					if up == nil {
						return Expect{Kind: "InvalidPart"}
					}
					s := md5.Sum(up.Content)
					if p.ETag != "" && trimQ(p.ETag) != hex.EncodeToString(s[:]) {
						return Expect{Kind: "InvalidPart"}
					}
				}
				if len(op.Parts) != len(u.Parts) {
					return Expect{Kind: "InvalidPart"}
				}
			}
			if k := precond(b.CurrentObject(op.Key), op.IfNoneMatchStar, op.IfMatch); k != "" {
				return Expect{Kind: k}
			}
		}
		return Expect{}
	case OpPutTags, OpDelTags, OpGetTags:
		_, v, k := m.resolve(op.Bucket, op.Key, op.VersionID)
		if k != "" {
			return Expect{Kind: k, AltKinds: absentAlts(k)}
		}
		return Expect{Version: v, Tags: v.Tags}
	case OpTransition:
		_, v, k := m.resolve(op.Bucket, op.Key, op.VersionID)
		if !storage.IsValidStorageClass(op.TargetClass) {
			return Expect{Kind: "InvalidStorageClass"}
		}
		if k != "" {
			return Expect{Kind: k, AltKinds: absentAlts(k)}
		}
		if op.IfMatch != nil && *op.IfMatch != "*" && v.ETag() != *op.IfMatch {
			return Expect{Kind: "PreconditionFailed"}
		}
		return Expect{Version: v}
	}
	return Expect{Kind: "other"}
}

func trimQ(s string) string {
	if len(s) >= 2 && s[0] == '"' && s[len(s)-1] == '"' {
		return s[1 : len(s)-1]
	}
	return s
}

// checksumMismatch returns "BadDigest" if a supplied checksum disagrees with body.
func checksumMismatch(ci *storage.ChecksumInput, body []byte) string {
	if ci == nil {
		return ""
	}
	ref := RefChecksums(body)
	if ci.ETag != nil && *ci.ETag != ref.ETag {
		return "BadDigest"
	}
	if ci.ChecksumCRC32 != nil && *ci.ChecksumCRC32 != ref.CRC32 {
		return "BadDigest"
	}
	if ci.ChecksumCRC32C != nil && *ci.ChecksumCRC32C != ref.CRC32C {
		return "BadDigest"
	}
	if ci.ChecksumCRC64NVME != nil && *ci.ChecksumCRC64NVME != ref.CRC64NVME {
		return "BadDigest"
	}
	if ci.ChecksumSHA1 != nil && *ci.ChecksumSHA1 != ref.SHA1 {
		return "BadDigest"
	}
	if ci.ChecksumSHA256 != nil && *ci.ChecksumSHA256 != ref.SHA256 {
		return "BadDigest"
	}
	return ""
}

// Apply updates the model for an operation that the model predicted to
// succeed and that really succeeded (res carries the ids pithos chose).
// It returns the version written/affected (if any).
func (m *Model) Apply(op *Op, res *Result) *MVersion {
	switch op.Kind {
	case OpCreateBucket:
		m.Buckets[op.Bucket] = &MBucket{Name: op.Bucket, Keys: map[string][]*MVersion{}, Uploads: map[string]*MUpload{}}
	case OpDeleteBucket:
		delete(m.Buckets, op.Bucket)
	case OpVersioning:
		m.Buckets[op.Bucket].Versioning = op.Status
	case OpPut:
		b := m.Buckets[op.Bucket]
		nv := &MVersion{Content: op.Body, ContentType: op.ContentType, Meta: cloneMeta(op.Meta), Tags: cloneTags(op.Tags), Class: effClass(op.Class), Parts: singlePart(op.Body), CksumType: "FULL_OBJECT"}
		return m.write(b, op.Key, nv, res.VersionID)
	case OpDelete:
		b := m.Buckets[op.Bucket]
		if op.VersionID != nil {
			if v := b.Find(op.Key, *op.VersionID); v != nil {
				b.remove(op.Key, v)
				return v
			}
			return nil
		}
		return m.keyDelete(b, op.Key, res.VersionID)
	case OpMultiDelete:
		b := m.Buckets[op.Bucket]
		for i, e := range op.Entries {
			var re *storage.DeleteObjectsEntry
			if i < len(res.Entries) {
				re = &res.Entries[i]
			}
			if e.VersionID != nil {
				v := b.Find(e.Key, *e.VersionID)
				if v == nil {
					continue
				}
				if e.IfMatch != nil && *e.IfMatch != "*" && (v.Marker || v.ETag() != *e.IfMatch) {
					continue
				}
				b.remove(e.Key, v)
				continue
			}
			if e.IfMatch != nil && precond(b.CurrentObject(e.Key), false, e.IfMatch) != "" {
				continue
			}
			var id *string
			if re != nil {
				id = re.DeleteMarkerVersionID
			}
			m.keyDelete(b, e.Key, id)
		}
	case OpCopy:
		_, sv, _ := m.resolve(op.SrcBucket, op.SrcKey, op.SrcVersionID)
		b := m.Buckets[op.Bucket]
		nv := &MVersion{CksumType: sv.CksumType}
		if op.Range != nil {
			st, en := op.Range[0], op.Range[1]
			if en > int64(len(sv.Content)) {
				en = int64(len(sv.Content))
			}
			nv.Content = append([]byte{}, sv.Content[st:en]...)
			nv.Parts = singlePart(nv.Content)
			nv.CksumType = "FULL_OBJECT"
		} else {
			nv.Content = sv.Content
			nv.Parts = append([]MPart{}, sv.Parts...)
			nv.Multipart = sv.Multipart
		}
		if op.ReplaceMeta {
			nv.ContentType = op.ContentType
			nv.Meta = cloneMeta(op.Meta)
		} else {
			nv.ContentType = sv.ContentType
			nv.Meta = cloneMeta(&sv.Meta)
			nv.Meta.WebsiteRedirectLocation = nil
			if op.Meta != nil {
				nv.Meta.WebsiteRedirectLocation = op.Meta.WebsiteRedirectLocation
			}
		}
		if op.ReplaceTags {
			nv.Tags = cloneTags(op.Tags)
		} else {
			nv.Tags = cloneTags(sv.Tags)
		}
		nv.Class = effClass(op.Class)
		return m.write(b, op.Key, nv, res.VersionID)
	case OpAppend:
		b := m.Buckets[op.Bucket]
		cur := b.CurrentObject(op.Key)
		nv := &MVersion{Multipart: true, CksumType: "FULL_OBJECT", Class: "STANDARD"}
		if cur != nil {
			nv.Content = append(append([]byte{}, cur.Content...), op.Body...)
			nv.Parts = append(append([]MPart{}, cur.Parts...), singlePart(op.Body)...)
			nv.ContentType, nv.Meta, nv.Tags, nv.Class = cur.ContentType, cloneMeta(&cur.Meta), cloneTags(cur.Tags), cur.Class
		} else {
			nv.Content = append([]byte{}, op.Body...)
			nv.Parts = singlePart(op.Body)
		}
		return m.write(b, op.Key, nv, res.VersionID)
	case OpMpuCreate:
		b := m.Buckets[op.Bucket]
		ct := "FULL_OBJECT"
		if op.ChecksumType != nil {
			ct = *op.ChecksumType
		}
		b.Uploads[res.UploadID] = &MUpload{ID: res.UploadID, Key: op.Key, ContentType: op.ContentType, Meta: cloneMeta(op.Meta), Tags: cloneTags(op.Tags), Class: effClass(op.Class), CksumType: ct, Parts: map[int32]*MUploadPart{}, Seq: m.nextSeq()}
	case OpMpuPart:
		u := m.Buckets[op.Bucket].Uploads[op.UploadID]
		u.Parts[op.PartNumber] = &MUploadPart{Content: op.Body}
	case OpMpuPartCopy:
		_, sv, _ := m.resolve(op.SrcBucket, op.SrcKey, op.SrcVersionID)
		content := sv.Content
		if op.Range != nil {
			st, en := op.Range[0], op.Range[1]
			if en > int64(len(content)) {
				en = int64(len(content))
			}
			content = content[st:en]
		}
		u := m.Buckets[op.Bucket].Uploads[op.UploadID]
		u.Parts[op.PartNumber] = &MUploadPart{Content: append([]byte{}, content...)}
	case OpMpuAbort:
		m.finish(op.Bucket, op.Key, op.UploadID, "aborted")
		delete(m.Buckets[op.Bucket].Uploads, op.UploadID)
	case OpMpuComplete:
		b := m.Buckets[op.Bucket]
		u := b.Uploads[op.UploadID]
		m.finish(op.Bucket, op.Key, op.UploadID, "completed")
		nums := make([]int, 0, len(u.Parts))
		for n := range u.Parts {
			nums = append(nums, int(n))
		}
		sort.Ints(nums)
		nv := &MVersion{Multipart: true, CksumType: u.CksumType, ContentType: u.ContentType, Meta: cloneMeta(&u.Meta), Tags: cloneTags(u.Tags), Class: u.Class}
		var buf bytes.Buffer
		for _, n := range nums {
			c := u.Parts[int32(n)].Content
			buf.Write(c)
			nv.Parts = append(nv.Parts, MPart{Size: int64(len(c)), MD5: md5.Sum(c)})
		}
		nv.Content = buf.Bytes()
		delete(b.Uploads, op.UploadID)
		return m.write(b, op.Key, nv, res.VersionID)
	case OpPutTags:
		_, v, _ := m.resolve(op.Bucket, op.Key, op.VersionID)
		v.Tags = cloneTags(op.Tags)
		return v
	case OpDelTags:
		_, v, _ := m.resolve(op.Bucket, op.Key, op.VersionID)
		v.Tags = nil
		return v
	case OpTransition:
		_, v, _ := m.resolve(op.Bucket, op.Key, op.VersionID)
		v.Class = op.TargetClass
		return v
	}
	return nil
}

// keyDelete models a key-only delete in the bucket's versioning state.
func (m *Model) keyDelete(b *MBucket, key string, markerID *string) *MVersion {
	switch b.Versioning {
	case "Enabled", "Suspended":
		if b.Versioning == "Suspended" {
			if old := b.Find(key, "null"); old != nil {
				b.remove(key, old)
			}
		}
		id := "?"
		if markerID != nil {
			id = *markerID
		}
		mk := &MVersion{ID: id, Marker: true, Seq: m.nextSeq()}
		b.Keys[key] = append(b.Keys[key], mk)
		return mk
	default:
		if cur := b.Current(key); cur != nil {
			b.remove(key, cur)
			return cur
		}
	}
	return nil
}

// Describe is a compact rendering of a key's version list (for witnesses).
func (b *MBucket) Describe(key string) string {
	vs := append([]*MVersion{}, b.Keys[key]...)
	sort.Slice(vs, func(i, j int) bool { return vs[i].Seq > vs[j].Seq })
	s := ""
	for _, v := range vs {
		if v.Marker {
			s += fmt.Sprintf("[%s marker seq=%d]", v.ID, v.Seq)
		} else {
			s += fmt.Sprintf("[%s %dB seq=%d]", v.ID, len(v.Content), v.Seq)
		}
	}
	return s
}
