package vmodel

import (
	"bytes"
	"fmt"

	"github.com/jdillenkofer/pithos/internal/storage"
)

// Divergence is one disagreement between pithos and the reference model.
// Field routes it to the property that decides it:
//
//	existence, content, size, content-type, bucket         -> C01
//	version-id, latest, marker, version-content            -> C02 / C13
//	etag, checksum                                         -> C04
//	meta, tags, class                                      -> C11 (class also C14)
type Divergence struct {
	Field string `json:"field"`
	Sig   string `json:"signature"`
	What  string `json:"what"`
}

// Observation is a difference the property statements do not constrain.
type Observation struct{ What string }

func inList(s string, l []string) bool {
	for _, x := range l {
		if x == s {
			return true
		}
	}
	return false
}

// Check compares the real result with the model's expectation.
func Check(op *Op, exp Expect, res *Result, b *MBucket) (divs []Divergence, obs []Observation) {
	add := func(field, sig, what string) {
		divs = append(divs, Divergence{Field: field, Sig: sig, What: what})
	}
	if exp.Kind != "" {
		switch {
		case res.Kind == exp.Kind:
		case res.Kind == "":
			field := "existence"
			switch exp.Kind {
			case "BadDigest":
				field = "checksum"
			case "PreconditionFailed":
				field = "precondition"
			case "InvalidPart", "InvalidPartOrder", "NoSuchUpload", "TooManyParts":
				field = "multipart"
			case "InvalidWriteOffset":
				field = "append"
			case "BucketNotEmpty", "BucketAlreadyExists", "NoSuchBucket":
				field = "bucket"
			case "InvalidRange":
				field = "range"
			}
			if op.VersionID != nil && field == "existence" {
				field = "by-version"
			}
			add(field, fmt.Sprintf("unexpected-success:%s:expected-%s", op.Kind, exp.Kind), fmt.Sprintf("%s succeeded, model expects %s", op, exp.Kind))
		case inList(res.Kind, exp.AltKinds):
			obs = append(obs, Observation{fmt.Sprintf("%s: error kind %s where model says %s (same class)", op.Kind, res.Kind, exp.Kind)})
		default:
			obs = append(obs, Observation{fmt.Sprintf("%s: error kind %s (%s) where model says %s", op.Kind, res.Kind, res.ErrText, exp.Kind)})
		}
		return
	}
	if res.Kind != "" {
		field := "existence"
		switch op.Kind {
		case OpCreateBucket, OpDeleteBucket, OpVersioning:
			field = "bucket"
		case OpPutTags, OpDelTags, OpGetTags:
			field = "tags"
		case OpTransition:
			field = "class"
		}
		if op.VersionID != nil && field == "existence" {
			field = "by-version" // version-id addressed reads are decided by C02/C13
		}
		sig := fmt.Sprintf("unexpected-error:%s:%s", op.Kind, res.Kind)
		if op.VersionID != nil {
			sig += ":by-version-id"
		}
		if (op.Kind == OpGet) && res.Kind == "InvalidRange" && op.Range == nil && len(exp.Content) == 0 {
			sig = "get-empty-object-invalid-range"
		}
		add(field, sig, fmt.Sprintf("%s failed with %s (%s), model expects success", op, res.Kind, res.ErrText))
		return
	}
	// both succeeded: compare outputs
	switch op.Kind {
	case OpGet, OpHead:
		v := exp.Version
		o := res.Obj
		if o != nil && op.VersionID == nil && b != nil {
			gotID := deref(o.VersionID)
			if gotID == "" {
				gotID = "null"
			}
			if gotID != v.ID {
				if other := b.Find(op.Key, gotID); other != nil {
					// pithos resolved the key to a different live version than the most
					// recently written one: a versioning (C02) root cause, not a content one.
					add("latest", "current-is-not-newest-version", fmt.Sprintf("%s: key resolves to version %s, most recently written surviving version is %s [%s]", op, gotID, v.ID, b.Describe(op.Key)))
					return
				}
			}
		}
		if op.Kind == OpGet {
			if res.ReadErr != nil {
				add("content", "read-error:"+string(op.Kind), fmt.Sprintf("%s: body stream failed: %v", op, res.ReadErr))
			} else if !bytes.Equal(res.Body, exp.Content) {
				add("content", "content-mismatch", fmt.Sprintf("%s: body %dB/%s, model %dB/%s", op, len(res.Body), hashHex(res.Body), len(exp.Content), hashHex(exp.Content)))
			}
		}
		if o == nil {
			add("existence", "nil-object", fmt.Sprintf("%s returned nil object", op))
			return
		}
		if o.Size != int64(len(v.Content)) {
			add("size", "size-mismatch", fmt.Sprintf("%s: size %d, model %d", op, o.Size, len(v.Content)))
		}
		if deref(o.ContentType) != deref(v.ContentType) {
			add("content-type", "content-type-mismatch", fmt.Sprintf("%s: content type %q, model %q", op, deref(o.ContentType), deref(v.ContentType)))
		}
		if o.ETag != v.ETag() {
			add("etag", "etag-mismatch:read", fmt.Sprintf("%s: ETag %s, reference %s (parts=%d multipart=%v)", op, o.ETag, v.ETag(), len(v.Parts), v.Multipart))
		}
		divs = append(divs, checkObjChecksums(op, o, v)...)
		gotID := deref(o.VersionID)
		if gotID == "" {
			gotID = "null"
		}
		if gotID != v.ID {
			add("version-id", "version-id-mismatch:read", fmt.Sprintf("%s: version id %s, model %s [%s]", op, gotID, v.ID, b.Describe(op.Key)))
		}
		if effClass(o.StorageClass) != v.Class {
			add("class", "class-mismatch:read", fmt.Sprintf("%s: storage class %s, model %s", op, effClass(o.StorageClass), v.Class))
		}
		_, gm := metaString(nil, o.Metadata)
		_, wm := metaString(nil, v.Meta)
		if gm != wm {
			add("meta", "metadata-mismatch:read", fmt.Sprintf("%s: metadata %s, model %s", op, gm, wm))
		}
		if sortedTagString(o.Tags) != sortedTagString(v.Tags) {
			add("tags", "tags-mismatch:read", fmt.Sprintf("%s: tags %s, model %s", op, sortedTagString(o.Tags), sortedTagString(v.Tags)))
		}
	case OpGetTags:
		if sortedTagString(res.Tags) != sortedTagString(exp.Tags) {
			add("tags", "tags-mismatch:get-tagging", fmt.Sprintf("%s: tags %s, model %s", op, sortedTagString(res.Tags), sortedTagString(exp.Tags)))
		}
	case OpPut:
		ref := RefChecksums(op.Body)
		if res.ETag != ref.ETag {
			add("etag", "etag-mismatch:put", fmt.Sprintf("%s: returned ETag %s, MD5 is %s", op, res.ETag, ref.ETag))
		}
		if res.Put != nil {
			chk := func(n string, g *string, w string) {
				if g != nil && *g != w {
					add("checksum", "checksum-mismatch:put:"+n, fmt.Sprintf("%s: returned %s %s, reference %s", op, n, *g, w))
				}
			}
			chk("crc32", res.Put.ChecksumCRC32, ref.CRC32)
			chk("crc32c", res.Put.ChecksumCRC32C, ref.CRC32C)
			chk("crc64nvme", res.Put.ChecksumCRC64NVME, ref.CRC64NVME)
			chk("sha1", res.Put.ChecksumSHA1, ref.SHA1)
			chk("sha256", res.Put.ChecksumSHA256, ref.SHA256)
		}
		divs = append(divs, checkWriteVersionID(op, res.VersionID, b)...)
	case OpMpuPart:
		ref := RefChecksums(op.Body)
		if res.ETag != ref.ETag {
			add("etag", "etag-mismatch:upload-part", fmt.Sprintf("%s: returned ETag %s, MD5 is %s", op, res.ETag, ref.ETag))
		}
		if res.Part != nil {
			chk := func(n string, g *string, w string) {
				if g != nil && *g != w {
					add("checksum", "checksum-mismatch:upload-part:"+n, fmt.Sprintf("%s: returned %s %s, reference %s", op, n, *g, w))
				}
			}
			chk("crc32", res.Part.ChecksumCRC32, ref.CRC32)
			chk("crc32c", res.Part.ChecksumCRC32C, ref.CRC32C)
			chk("crc64nvme", res.Part.ChecksumCRC64NVME, ref.CRC64NVME)
			chk("sha1", res.Part.ChecksumSHA1, ref.SHA1)
			chk("sha256", res.Part.ChecksumSHA256, ref.SHA256)
		}
	case OpCopy, OpMpuComplete:
		divs = append(divs, checkWriteVersionID(op, res.VersionID, b)...)
	case OpDelete:
		if op.VersionID == nil && b != nil {
			if b.Versioning == "Enabled" || b.Versioning == "Suspended" {
				if !res.Marker || res.VersionID == nil {
					add("marker", "key-delete-no-marker", fmt.Sprintf("%s in %s bucket: IsDeleteMarker=%v versionId=%v", op, b.Versioning, res.Marker, deref(res.VersionID)))
				}
			}
		}
	}
	return
}

func checkWriteVersionID(op *Op, id *string, b *MBucket) (divs []Divergence) {
	if b == nil {
		return
	}
	if b.Versioning == "Enabled" {
		if id == nil || *id == "" || *id == "null" {
			divs = append(divs, Divergence{Field: "version-id", Sig: "write-without-version-id:" + string(op.Kind), What: fmt.Sprintf("%s in Enabled bucket returned version id %q", op, deref(id))})
		} else if b.Find(op.Key, *id) != nil {
			divs = append(divs, Divergence{Field: "version-id", Sig: "version-id-reused:" + string(op.Kind), What: fmt.Sprintf("%s returned an id that already names a live version: %s", op, *id)})
		}
	} else if id != nil && *id != "null" && *id != "" {
		divs = append(divs, Divergence{Field: "version-id", Sig: "non-null-version-id-when-not-enabled:" + string(op.Kind), What: fmt.Sprintf("%s in %q bucket returned version id %s", op, b.Versioning, *id)})
	}
	return
}

// checkObjChecksums validates the x-amz-checksum values reported for a version
// against independent recomputation. Full-object CRCs are checked whenever
// pithos reports one for a FULL_OBJECT version; SHA values only for
// single-part objects (multipart SHA is not defined for FULL_OBJECT).
func checkObjChecksums(op *Op, o *storage.Object, v *MVersion) (divs []Divergence) {
	if v.CksumType == "COMPOSITE" && v.Multipart {
		return nil // composite values are checksums-of-checksums; only the ETag is stated
	}
	ref := RefChecksums(v.Content)
	chk := func(n string, g *string, w string) {
		if g != nil && *g != w {
			divs = append(divs, Divergence{Field: "checksum", Sig: "checksum-mismatch:read:" + n, What: fmt.Sprintf("%s: reported %s %s, reference over content %s", op, n, *g, w)})
		}
	}
	chk("crc32", o.ChecksumCRC32, ref.CRC32)
	chk("crc32c", o.ChecksumCRC32C, ref.CRC32C)
	chk("crc64nvme", o.ChecksumCRC64NVME, ref.CRC64NVME)
	if !v.Multipart {
		chk("sha1", o.ChecksumSHA1, ref.SHA1)
		chk("sha256", o.ChecksumSHA256, ref.SHA256)
	}
	return
}

func deref(p *string) string {
	if p == nil {
		return ""
	}
	return *p
}
