package vmodel

import (
	"strings"
	"context"
	"database/sql"
	"fmt"
	"path/filepath"
	"sort"

	"github.com/jdillenkofer/pithos/internal/storage"
	"github.com/jdillenkofer/pithos/internal/storage/database"
	"github.com/jdillenkofer/pithos/internal/storage/metadatapart"
	"github.com/jdillenkofer/pithos/internal/storage/metadatapart/partstore"
)

// Inspector reads pithos' SQLite tables directly (read-only) at quiescent points.
type Inspector struct{ db *sql.DB }

func OpenInspector(envDir string) (*Inspector, error) {
	// SQLite URI filenames: '%', '#' and '?' of the path have to be percent-encoded
	uriPath := strings.NewReplacer("%", "%25", "#", "%23", "?", "%3f").Replace(filepath.Join(envDir, "pithos.db"))
	db, err := sql.Open("sqlite3", "file:"+uriPath+"?mode=ro&_busy_timeout=5000")
	if err != nil {
		return nil, err
	}
	db.SetMaxOpenConns(1)
	return &Inspector{db: db}, nil
}

func (i *Inspector) Close() { _ = i.db.Close() }

type PartRef struct {
	PartID string
	Store  string // "default" when NULL
	Seq    int
}

// PartsOf returns the part rows of one object version.
func (i *Inspector) PartsOf(bucket, key, versionID string) ([]PartRef, error) {
	rows, err := i.db.Query(`SELECT p.part_id, COALESCE(p.part_store_name,'default'), p.sequence_number FROM parts p JOIN objects o ON p.object_id = o.id WHERE o.bucket_name = ? AND o.key = ? AND o.version_id = ? AND o.upload_status = 'COMPLETED' ORDER BY p.sequence_number`, bucket, key, versionID)
	if err != nil {
		return nil, err
	}
	defer rows.Close()
	var out []PartRef
	for rows.Next() {
		var p PartRef
		if err := rows.Scan(&p.PartID, &p.Store, &p.Seq); err != nil {
			return nil, err
		}
		out = append(out, p)
	}
	return out, rows.Err()
}

// AllPartRefs returns store -> part id -> number of referencing part rows.
func (i *Inspector) AllPartRefs() (map[string]map[string]int, error) {
	rows, err := i.db.Query(`SELECT part_id, COALESCE(part_store_name,'default'), COUNT(*) FROM parts GROUP BY part_id, COALESCE(part_store_name,'default')`)
	if err != nil {
		return nil, err
	}
	defer rows.Close()
	out := map[string]map[string]int{}
	for rows.Next() {
		var id, st string
		var n int
		if err := rows.Scan(&id, &st, &n); err != nil {
			return nil, err
		}
		if out[st] == nil {
			out[st] = map[string]int{}
		}
		out[st][id] = n
	}
	return out, rows.Err()
}

// Registry returns part id -> ref_count from part_registry.
func (i *Inspector) Registry() (map[string]int, error) {
	rows, err := i.db.Query(`SELECT part_id, ref_count FROM part_registry`)
	if err != nil {
		return nil, err
	}
	defer rows.Close()
	out := map[string]int{}
	for rows.Next() {
		var id string
		var n int
		if err := rows.Scan(&id, &n); err != nil {
			return nil, err
		}
		out[id] = n
	}
	return out, rows.Err()
}

// DedupIndex returns the part ids named by part_dedup_index.
func (i *Inspector) DedupIndex() ([]string, error) {
	rows, err := i.db.Query(`SELECT part_id FROM part_dedup_index`)
	if err != nil {
		return nil, err
	}
	defer rows.Close()
	var out []string
	for rows.Next() {
		var id string
		if err := rows.Scan(&id); err != nil {
			return nil, err
		}
		out = append(out, id)
	}
	return out, rows.Err()
}

// Count returns SELECT COUNT(*) of a table.
func (i *Inspector) Count(table string) (int, error) {
	var n int
	err := i.db.QueryRow("SELECT COUNT(*) FROM " + table).Scan(&n)
	return n, err
}

// ObjectStatus returns the upload_status literal values seen (debug aid).
func (i *Inspector) QueryStrings(q string, args ...any) ([]string, error) {
	rows, err := i.db.Query(q, args...)
	if err != nil {
		return nil, err
	}
	defer rows.Close()
	var out []string
	for rows.Next() {
		var s string
		if err := rows.Scan(&s); err != nil {
			return nil, err
		}
		out = append(out, s)
	}
	return out, rows.Err()
}

// StorePartIDs lists the part ids each configured store of a metadata-part
// storage currently holds (through the store's own GetPartIds).
func StorePartIDs(ctx context.Context, db database.Database, s storage.Storage) (map[string]map[string]bool, error) {
	nps, ok := metadatapart.NamedPartStoresOf(s)
	if !ok {
		return nil, fmt.Errorf("not a metadata-part storage")
	}
	out := map[string]map[string]bool{}
	stores := nps.All()
	names := make([]string, 0, len(stores))
	for n := range stores {
		names = append(names, n)
	}
	sort.Strings(names)
	for _, name := range names {
		st := stores[name]
		var ids []partstore.PartId
		err := database.WithTx(ctx, db, &sql.TxOptions{ReadOnly: true}, func(ctx context.Context, tx database.Tx) error {
			var err error
			ids, err = st.GetPartIds(ctx, tx)
			return err
		})
		if err != nil {
			return nil, fmt.Errorf("GetPartIds(%s): %w", name, err)
		}
		m := map[string]bool{}
		for _, id := range ids {
			m[id.String()] = true
		}
		out[name] = m
	}
	return out, nil
}
