package vmodel

import (
	"context"
	"crypto/sha256"
	"encoding/hex"
	"fmt"
	"io"
	"sort"
	"time"

	"github.com/jdillenkofer/pithos/internal/storage"
)

type VersionSnap struct {
	Key          string
	VersionID    string
	IsLatest     bool
	Marker       bool
	Size         int64
	ETag         string
	Class        string
	ContentHash  string
	ContentType  string
	Meta         string
	Tags         string
	LastModified time.Time
	ReadErr      string
}

type UploadSnap struct {
	Key      string
	UploadID string
	Class    string
	Parts    string // "n:size:etag,..."
}

type BucketSnap struct {
	Name       string
	Versioning string
	Versions   []VersionSnap // sorted by (Key, VersionID)
	Listed     []string      // ListObjects keys (current objects) with size+etag+class
	Uploads    []UploadSnap
}

type Snap struct {
	Buckets []BucketSnap
	Err     string
}

func hashHex(b []byte) string {
	h := sha256.Sum256(b)
	return hex.EncodeToString(h[:10])
}

func metaString(ct *string, m storage.ObjectMetadata) (string, string) {
	s := ""
	add := func(n string, p *string) {
		if p != nil {
			s += n + "=" + *p + ";"
		}
	}
	add("cc", m.CacheControl)
	add("cd", m.ContentDisposition)
	add("ce", m.ContentEncoding)
	add("cl", m.ContentLanguage)
	add("ex", m.Expires)
	add("wr", m.WebsiteRedirectLocation)
	s += "user{" + sortedTagString(m.UserMetadata) + "}"
	c := ""
	if ct != nil {
		c = *ct
	}
	return c, s
}

// SnapOptions tunes what a snapshot reads.
type SnapOptions struct {
	SkipContent bool // do not GET bodies
}

// Snapshot reads the complete observable state of a storage through its API.
func Snapshot(ctx context.Context, s storage.Storage, opt SnapOptions) *Snap {
	sn := &Snap{}
	buckets, err := s.ListBuckets(ctx)
	if err != nil {
		sn.Err = "ListBuckets: " + err.Error()
		return sn
	}
	sort.Slice(buckets, func(i, j int) bool { return buckets[i].Name.String() < buckets[j].Name.String() })
	for _, b := range buckets {
		bs := BucketSnap{Name: b.Name.String()}
		if vc, err := s.GetBucketVersioningConfiguration(ctx, b.Name); err == nil && vc != nil && vc.Status != nil {
			bs.Versioning = string(*vc.Status)
		}
		// versions
		var km, vm *string
		for page := 0; page < 10000; page++ {
			res, err := s.ListObjectVersions(ctx, b.Name, storage.ListObjectVersionsOptions{KeyMarker: km, VersionIDMarker: vm, MaxKeys: 1000})
			if err != nil {
				sn.Err = "ListObjectVersions: " + err.Error()
				return sn
			}
			for _, v := range res.Versions {
				vs := VersionSnap{Key: v.Key.String(), VersionID: v.VersionID, IsLatest: v.IsLatest, Marker: v.IsDeleteMarker, Size: v.Size, Class: effClass(v.StorageClass), LastModified: v.LastModified}
				if v.ETag != nil {
					vs.ETag = *v.ETag
				}
				if !v.IsDeleteMarker {
					vid := v.VersionID
					o, err := s.HeadObject(ctx, b.Name, v.Key, &storage.HeadObjectOptions{VersionID: &vid})
					if err != nil {
						vs.ReadErr = "head: " + err.Error()
					} else {
						vs.ContentType, vs.Meta = metaString(o.ContentType, o.Metadata)
						vs.Tags = sortedTagString(o.Tags)
						if o.ETag != vs.ETag || o.Size != vs.Size {
							vs.ReadErr = fmt.Sprintf("head/list mismatch: head etag=%s size=%d", o.ETag, o.Size)
						}
						if tags, terr := s.GetObjectTagging(ctx, b.Name, v.Key, &storage.ObjectTaggingOptions{VersionID: &vid}); terr == nil {
							if sortedTagString(tags) != vs.Tags {
								vs.ReadErr = "head tags != GetObjectTagging"
							}
						}
					}
					if !opt.SkipContent {
						_, rds, err := s.GetObject(ctx, b.Name, v.Key, nil, &storage.GetObjectOptions{VersionID: &vid})
						if err != nil {
							if !(v.Size == 0 && ErrKind(err) == "InvalidRange") {
								vs.ReadErr += " get: " + err.Error()
							}
							vs.ContentHash = hashHex(nil)
						} else {
							h := sha256.New()
							var n int64
							for _, rd := range rds {
								k, err := io.Copy(h, rd)
								n += k
								if err != nil {
									vs.ReadErr += " read: " + err.Error()
								}
								rd.Close()
							}
							vs.ContentHash = hex.EncodeToString(h.Sum(nil)[:10])
							if n != v.Size {
								vs.ReadErr += fmt.Sprintf(" body %d bytes != size %d", n, v.Size)
							}
						}
					}
				}
				bs.Versions = append(bs.Versions, vs)
			}
			if !res.IsTruncated {
				break
			}
			km, vm = res.NextKeyMarker, res.NextVersionIDMarker
		}
		sort.SliceStable(bs.Versions, func(i, j int) bool {
			if bs.Versions[i].Key != bs.Versions[j].Key {
				return bs.Versions[i].Key < bs.Versions[j].Key
			}
			return bs.Versions[i].VersionID < bs.Versions[j].VersionID
		})
		objs, err := storage.ListAllObjectsOfBucket(ctx, s, b.Name)
		if err != nil {
			sn.Err = "ListObjects: " + err.Error()
			return sn
		}
		for _, o := range objs {
			bs.Listed = append(bs.Listed, fmt.Sprintf("%s|%d|%s|%s", o.Key.String(), o.Size, o.ETag, effClass(o.StorageClass)))
		}
		// uploads
		var ukm, uim *string
		for page := 0; page < 10000; page++ {
			res, err := s.ListMultipartUploads(ctx, b.Name, storage.ListMultipartUploadsOptions{KeyMarker: ukm, UploadIdMarker: uim, MaxUploads: 1000})
			if err != nil {
				sn.Err = "ListMultipartUploads: " + err.Error()
				return sn
			}
			for _, u := range res.Uploads {
				us := UploadSnap{Key: u.Key.String(), UploadID: u.UploadId.String(), Class: effClass(u.StorageClass)}
				lp, err := s.ListParts(ctx, b.Name, u.Key, u.UploadId, storage.ListPartsOptions{MaxParts: 10000})
				if err != nil {
					us.Parts = "ListParts error: " + err.Error()
				} else {
					for _, p := range lp.Parts {
						us.Parts += fmt.Sprintf("%d:%d:%s,", p.PartNumber, p.Size, p.ETag)
					}
				}
				bs.Uploads = append(bs.Uploads, us)
			}
			if !res.IsTruncated {
				break
			}
			nk, ni := res.NextKeyMarker, res.NextUploadIdMarker
			ukm, uim = &nk, &ni
		}
		sort.Slice(bs.Uploads, func(i, j int) bool {
			if bs.Uploads[i].Key != bs.Uploads[j].Key {
				return bs.Uploads[i].Key < bs.Uploads[j].Key
			}
			return bs.Uploads[i].UploadID < bs.Uploads[j].UploadID
		})
		sn.Buckets = append(sn.Buckets, bs)
	}
	return sn
}

// ModelSnap renders the model in the same shape (LastModified zero).
func (m *Model) Snap() *Snap {
	sn := &Snap{}
	names := make([]string, 0, len(m.Buckets))
	for n := range m.Buckets {
		names = append(names, n)
	}
	sort.Strings(names)
	for _, n := range names {
		b := m.Buckets[n]
		bs := BucketSnap{Name: n, Versioning: b.Versioning}
		keys := make([]string, 0, len(b.Keys))
		for k := range b.Keys {
			keys = append(keys, k)
		}
		sort.Strings(keys)
		for _, k := range keys {
			cur := b.Current(k)
			for _, v := range b.Keys[k] {
				vs := VersionSnap{Key: k, VersionID: v.ID, IsLatest: v == cur, Marker: v.Marker}
				if !v.Marker {
					vs.Size = int64(len(v.Content))
					vs.ETag = v.ETag()
					vs.Class = v.Class
					vs.ContentHash = hashHex(v.Content)
					vs.ContentType, vs.Meta = metaString(v.ContentType, v.Meta)
					vs.Tags = sortedTagString(v.Tags)
				} else {
					vs.Class = "STANDARD"
				}
				bs.Versions = append(bs.Versions, vs)
			}
			if cur != nil && !cur.Marker {
				bs.Listed = append(bs.Listed, fmt.Sprintf("%s|%d|%s|%s", k, len(cur.Content), cur.ETag(), cur.Class))
			}
		}
		sort.SliceStable(bs.Versions, func(i, j int) bool {
			if bs.Versions[i].Key != bs.Versions[j].Key {
				return bs.Versions[i].Key < bs.Versions[j].Key
			}
			return bs.Versions[i].VersionID < bs.Versions[j].VersionID
		})
		for _, u := range b.Uploads {
			us := UploadSnap{Key: u.Key, UploadID: u.ID, Class: u.Class}
			nums := make([]int, 0)
			for pn := range u.Parts {
				nums = append(nums, int(pn))
			}
			sort.Ints(nums)
			for _, pn := range nums {
				c := u.Parts[int32(pn)].Content
				us.Parts += fmt.Sprintf("%d:%d:%s,", pn, len(c), RefChecksums(c).ETag)
			}
			bs.Uploads = append(bs.Uploads, us)
		}
		sort.Slice(bs.Uploads, func(i, j int) bool {
			if bs.Uploads[i].Key != bs.Uploads[j].Key {
				return bs.Uploads[i].Key < bs.Uploads[j].Key
			}
			return bs.Uploads[i].UploadID < bs.Uploads[j].UploadID
		})
		sn.Buckets = append(sn.Buckets, bs)
	}
	return sn
}

// DiffOptions selects which fields take part in a snapshot comparison.
type DiffOptions struct {
	LastModified      bool // compare LastModified (real-vs-real only)
	IgnoreIDs         bool // version/upload ids are not comparable (two different storages)
	IgnoreClass       bool
	CurrentOnly       bool // compare only current objects (Listed + their content/metadata)
	IgnoreMarkerClass bool
}

// Diff returns a description of the first differences between two snapshots ("" = equal).
func Diff(a, b *Snap, o DiffOptions) string {
	if a.Err != "" || b.Err != "" {
		if a.Err != b.Err {
			return fmt.Sprintf("snapshot errors differ: %q vs %q", a.Err, b.Err)
		}
	}
	if len(a.Buckets) != len(b.Buckets) {
		return fmt.Sprintf("[bucket] bucket count %d vs %d (%v vs %v)", len(a.Buckets), len(b.Buckets), bucketNames(a), bucketNames(b))
	}
	for i := range a.Buckets {
		x, y := a.Buckets[i], b.Buckets[i]
		if x.Name != y.Name {
			return fmt.Sprintf("[bucket] bucket[%d] name %s vs %s", i, x.Name, y.Name)
		}
		if x.Versioning != y.Versioning && !o.CurrentOnly {
			return fmt.Sprintf("[bucket] bucket %s versioning %q vs %q", x.Name, x.Versioning, y.Versioning)
		}
		if d := diffStrings(x.Listed, y.Listed, true); d != "" {
			return fmt.Sprintf("[listing] bucket %s ListObjects: %s", x.Name, d)
		}
		if d := diffStrings(x.Listed, y.Listed, o.IgnoreClass); d != "" {
			return fmt.Sprintf("[class] bucket %s ListObjects storage class: %s", x.Name, d)
		}
		xv, yv := x.Versions, y.Versions
		if o.CurrentOnly {
			xv, yv = latestObjects(xv), latestObjects(yv)
		}
		if len(xv) != len(yv) {
			return fmt.Sprintf("[version-set] bucket %s version count %d vs %d: %s vs %s", x.Name, len(xv), len(yv), verList(xv), verList(yv))
		}
		if o.IgnoreIDs {
			// compare per key as multisets ordered by (latest first, then content)
			xv, yv = orderNoIDs(xv), orderNoIDs(yv)
		}
		for j := range xv {
			p, q := xv[j], yv[j]
			if o.IgnoreIDs {
				p.VersionID, q.VersionID = "", ""
			}
			if !o.LastModified {
				p.LastModified, q.LastModified = time.Time{}, time.Time{}
			}
			if o.IgnoreClass || (p.Marker && q.Marker) {
				p.Class, q.Class = "", ""
			}
			if p.Marker && q.Marker {
				p.ETag, q.ETag, p.ContentHash, q.ContentHash = "", "", "", ""
			}
			if o.LastModified && !p.LastModified.Equal(q.LastModified) {
				return fmt.Sprintf("[last-modified] bucket %s key %s version %s LastModified %s vs %s", x.Name, p.Key, p.VersionID, p.LastModified.Format(time.RFC3339Nano), q.LastModified.Format(time.RFC3339Nano))
			}
			p.LastModified, q.LastModified = time.Time{}, time.Time{}
			if p != q {
				return fmt.Sprintf("[%s] bucket %s key %s: %+v vs %+v", versionField(p, q), x.Name, p.Key, p, q)
			}
		}
		if o.CurrentOnly {
			continue
		}
		if len(x.Uploads) != len(y.Uploads) {
			return fmt.Sprintf("[uploads] bucket %s upload count %d vs %d", x.Name, len(x.Uploads), len(y.Uploads))
		}
		for j := range x.Uploads {
			p, q := x.Uploads[j], y.Uploads[j]
			if o.IgnoreIDs {
				p.UploadID, q.UploadID = "", ""
			}
			if o.IgnoreClass {
				p.Class, q.Class = "", ""
			}
			if p != q {
				return fmt.Sprintf("[uploads] bucket %s upload: %+v vs %+v", x.Name, p, q)
			}
		}
	}
	return ""
}

// versionField names the first field in which two version snapshots differ.
func versionField(p, q VersionSnap) string {
	switch {
	case p.Key != q.Key || p.VersionID != q.VersionID:
		return "version-set"
	case p.Marker != q.Marker:
		return "marker"
	case p.IsLatest != q.IsLatest:
		return "latest"
	case p.ContentHash != q.ContentHash:
		return "content"
	case p.Size != q.Size:
		return "size"
	case p.ETag != q.ETag:
		return "etag"
	case p.ContentType != q.ContentType:
		return "content-type"
	case p.Class != q.Class:
		return "class"
	case p.Meta != q.Meta:
		return "meta"
	case p.Tags != q.Tags:
		return "tags"
	case p.ReadErr != q.ReadErr:
		return "version-content"
	}
	return "other"
}

func bucketNames(s *Snap) []string {
	var n []string
	for _, b := range s.Buckets {
		n = append(n, b.Name)
	}
	return n
}

func verList(vs []VersionSnap) string {
	s := ""
	for _, v := range vs {
		s += fmt.Sprintf("(%s %s marker=%v latest=%v %dB)", v.Key, v.VersionID, v.Marker, v.IsLatest, v.Size)
	}
	return s
}

func latestObjects(vs []VersionSnap) []VersionSnap {
	var out []VersionSnap
	for _, v := range vs {
		if v.IsLatest && !v.Marker {
			out = append(out, v)
		}
	}
	return out
}

func orderNoIDs(vs []VersionSnap) []VersionSnap {
	out := append([]VersionSnap{}, vs...)
	sort.SliceStable(out, func(i, j int) bool {
		a, b := out[i], out[j]
		if a.Key != b.Key {
			return a.Key < b.Key
		}
		if a.IsLatest != b.IsLatest {
			return a.IsLatest
		}
		if a.Marker != b.Marker {
			return !a.Marker
		}
		if a.ContentHash != b.ContentHash {
			return a.ContentHash < b.ContentHash
		}
		return a.Tags+a.Meta < b.Tags+b.Meta
	})
	return out
}

func diffStrings(a, b []string, ignoreClass bool) string {
	if len(a) != len(b) {
		return fmt.Sprintf("%d entries vs %d: %v vs %v", len(a), len(b), a, b)
	}
	for i := range a {
		x, y := a[i], b[i]
		if ignoreClass {
			x, y = stripLastField(x), stripLastField(y)
		}
		if x != y {
			return fmt.Sprintf("entry %d: %s vs %s", i, x, y)
		}
	}
	return ""
}

func stripLastField(s string) string {
	for i := len(s) - 1; i >= 0; i-- {
		if s[i] == '|' {
			return s[:i]
		}
	}
	return s
}

// ReadErrors lists versions that could not be read back consistently.
func (s *Snap) ReadErrors() []string {
	var out []string
	for _, b := range s.Buckets {
		for _, v := range b.Versions {
			if v.ReadErr != "" {
				out = append(out, fmt.Sprintf("%s/%s@%s: %s", b.Name, v.Key, v.VersionID, v.ReadErr))
			}
		}
	}
	return out
}

// DiffField extracts the "[field]" tag of a Diff description.
func DiffField(d string) string {
	if len(d) > 2 && d[0] == '[' {
		for i := 1; i < len(d); i++ {
			if d[i] == ']' {
				return d[1:i]
			}
		}
	}
	return "other"
}
