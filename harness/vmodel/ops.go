// Package vmodel is the deterministic S3 reference model, the operation
// vocabulary, the executor against a real storage.Storage and the state
// snapshotter shared by the model-based and differential engines.
package vmodel

import (
	"bytes"
	"context"
	"errors"
	"fmt"
	"io"
	"sort"
	"strings"

	"github.com/jdillenkofer/pithos/internal/storage"
)

type OpKind string

const (
	OpCreateBucket OpKind = "create-bucket"
	OpDeleteBucket OpKind = "delete-bucket"
	OpVersioning   OpKind = "put-versioning"
	OpPut          OpKind = "put"
	OpGet          OpKind = "get"
	OpHead         OpKind = "head"
	OpDelete       OpKind = "delete"
	OpMultiDelete  OpKind = "multi-delete"
	OpCopy         OpKind = "copy"
	OpAppend       OpKind = "append"
	OpMpuCreate    OpKind = "mpu-create"
	OpMpuPart      OpKind = "mpu-part"
	OpMpuPartCopy  OpKind = "mpu-part-copy"
	OpMpuComplete  OpKind = "mpu-complete"
	OpMpuAbort     OpKind = "mpu-abort"
	OpPutTags      OpKind = "put-tags"
	OpGetTags      OpKind = "get-tags"
	OpDelTags      OpKind = "delete-tags"
	OpTransition   OpKind = "transition"
)

type DelEntry struct {
	Key       string  `json:"key"`
	VersionID *string `json:"version_id,omitempty"`
	IfMatch   *string `json:"if_match,omitempty"`
}

type CompletePart struct {
	PartNumber int32  `json:"n"`
	ETag       string `json:"etag"`
}

// Op is one client operation with concrete arguments.
type Op struct {
	Kind      OpKind  `json:"kind"`
	Bucket    string  `json:"bucket,omitempty"`
	Key       string  `json:"key,omitempty"`
	VersionID *string `json:"version_id,omitempty"`

	Body        []byte  `json:"-"`
	BodyDesc    string  `json:"body,omitempty"`
	ContentType *string `json:"content_type,omitempty"`

	IfNoneMatchStar bool                    `json:"if_none_match_star,omitempty"`
	IfMatch         *string                 `json:"if_match,omitempty"`
	Tags            map[string]string       `json:"tags,omitempty"`
	Meta            *storage.ObjectMetadata `json:"meta,omitempty"`
	Class           *string                 `json:"class,omitempty"`
	Checksum        *storage.ChecksumInput  `json:"checksum,omitempty"`

	SrcBucket    string    `json:"src_bucket,omitempty"`
	SrcKey       string    `json:"src_key,omitempty"`
	SrcVersionID *string   `json:"src_version_id,omitempty"`
	ReplaceMeta  bool      `json:"replace_meta,omitempty"`
	ReplaceTags  bool      `json:"replace_tags,omitempty"`
	Range        *[2]int64 `json:"range,omitempty"` // [start,endExclusive)
	SrcIfMatch   *string   `json:"src_if_match,omitempty"`
	SrcIfNone    *string   `json:"src_if_none_match,omitempty"`

	WriteOffset *int64 `json:"write_offset,omitempty"`

	UploadID     string         `json:"upload_id,omitempty"`
	PartNumber   int32          `json:"part_number,omitempty"`
	ChecksumType *string        `json:"checksum_type,omitempty"`
	Parts        []CompletePart `json:"parts,omitempty"`
	PartsGiven   bool           `json:"parts_given,omitempty"`

	Entries     []DelEntry `json:"entries,omitempty"`
	TargetClass string     `json:"target_class,omitempty"`
	Status      string     `json:"status,omitempty"`

	Intent string `json:"intent,omitempty"` // what the generator meant ("ok", "fail:<kind>")
}

func (o *Op) String() string {
	var b strings.Builder
	fmt.Fprintf(&b, "%s %s/%s", o.Kind, o.Bucket, o.Key)
	if o.VersionID != nil {
		fmt.Fprintf(&b, " v=%s", *o.VersionID)
	}
	if o.BodyDesc != "" {
		fmt.Fprintf(&b, " body=%s", o.BodyDesc)
	}
	if o.SrcKey != "" {
		fmt.Fprintf(&b, " src=%s/%s", o.SrcBucket, o.SrcKey)
	}
	if o.UploadID != "" {
		fmt.Fprintf(&b, " upload=%s#%d", o.UploadID, o.PartNumber)
	}
	if o.Status != "" {
		fmt.Fprintf(&b, " status=%s", o.Status)
	}
	if o.TargetClass != "" {
		fmt.Fprintf(&b, " ->%s", o.TargetClass)
	}
	if o.IfNoneMatchStar {
		b.WriteString(" if-none-match=*")
	}
	if o.IfMatch != nil {
		fmt.Fprintf(&b, " if-match=%s", *o.IfMatch)
	}
	if o.Intent != "" {
		fmt.Fprintf(&b, " [%s]", o.Intent)
	}
	return b.String()
}

// Result is the normalised observable outcome of an operation.
type Result struct {
	Err       error  `json:"-"`
	Kind      string `json:"err_kind"` // "" = success
	ErrText   string `json:"err_text,omitempty"`
	VersionID *string
	ETag      string
	Size      int64
	Body      []byte          `json:"-"`
	Obj       *storage.Object `json:"-"`
	Marker    bool
	Put       *storage.PutObjectResult               `json:"-"`
	Part      *storage.UploadPartResult              `json:"-"`
	Complete  *storage.CompleteMultipartUploadResult `json:"-"`
	UploadID  string
	Tags      map[string]string
	Entries   []storage.DeleteObjectsEntry `json:"-"`
	SrcVerID  *string
	ReadErr   error `json:"-"` // error while reading the body stream
}

// HeadInCallerCtx, when present in the context given to Exec, makes the follow-up
// HeadObject of an append use that context instead of a detached one.
type HeadInCallerCtx struct{}

// ErrKind maps an error to the kind vocabulary used by the model.
func ErrKind(err error) string {
	if err == nil {
		return ""
	}
	var dm *storage.CurrentDeleteMarkerError
	if errors.As(err, &dm) {
		return "DeleteMarker"
	}
	var mna *storage.VersionDeleteMarkerMethodNotAllowedError
	if errors.As(err, &mna) {
		return "MethodNotAllowed"
	}
	for _, c := range []struct {
		e error
		k string
	}{
		{storage.ErrNoSuchBucket, "NoSuchBucket"}, {storage.ErrNoSuchKey, "NoSuchKey"},
		{storage.ErrBucketAlreadyExists, "BucketAlreadyExists"}, {storage.ErrBucketNotEmpty, "BucketNotEmpty"},
		{storage.ErrPreconditionFailed, "PreconditionFailed"}, {storage.ErrBadDigest, "BadDigest"},
		{storage.ErrInvalidPart, "InvalidPart"}, {storage.ErrInvalidPartOrder, "InvalidPartOrder"},
		{storage.ErrTooManyParts, "TooManyParts"}, {storage.ErrInvalidWriteOffset, "InvalidWriteOffset"},
		{storage.ErrInvalidRange, "InvalidRange"}, {storage.ErrNotModified, "NotModified"},
		{storage.ErrInvalidStorageClass, "InvalidStorageClass"}, {storage.ErrNotImplemented, "NotImplemented"},
		{storage.ErrEntityTooLarge, "EntityTooLarge"},
	} {
		if errors.Is(err, c.e) {
			return c.k
		}
	}
	msg := err.Error()
	for _, k := range []string{"NoSuchUpload", "NoSuchBucket", "NoSuchKey", "PreconditionFailed", "BadDigest", "InvalidPartOrder", "InvalidPart", "InvalidRange", "BucketNotEmpty", "BucketAlreadyExists", "InvalidWriteOffset", "TooManyParts", "MethodNotAllowed"} {
		if strings.Contains(msg, k) {
			return k
		}
	}
	return "other"
}

func bucketName(s string) (storage.BucketName, error) { return storage.NewBucketName(s) }

// Exec performs op on s and normalises the outcome. It never panics on nil
// results: a nil result with nil error is reported as kind "other".
func Exec(ctx context.Context, s storage.Storage, op *Op) *Result {
	r := &Result{}
	fail := func(err error) *Result {
		r.Err = err
		r.Kind = ErrKind(err)
		if err != nil {
			r.ErrText = err.Error()
		}
		return r
	}
	b, err := bucketName(op.Bucket)
	if err != nil {
		return fail(err)
	}
	var k storage.ObjectKey
	if op.Key != "" {
		k, err = storage.NewObjectKey(op.Key)
		if err != nil {
			return fail(err)
		}
	}
	switch op.Kind {
	case OpCreateBucket:
		return fail(s.CreateBucket(ctx, b))
	case OpDeleteBucket:
		return fail(s.DeleteBucket(ctx, b))
	case OpVersioning:
		st := storage.BucketVersioningStatus(op.Status)
		return fail(s.PutBucketVersioningConfiguration(ctx, b, &storage.BucketVersioningConfiguration{Status: &st}))
	case OpPut:
		var opts *storage.PutObjectOptions
		if op.IfNoneMatchStar || op.IfMatch != nil || op.Tags != nil || op.Meta != nil || op.Class != nil {
			opts = &storage.PutObjectOptions{IfNoneMatchStar: op.IfNoneMatchStar, IfMatchETag: op.IfMatch, Tags: op.Tags, Metadata: op.Meta, StorageClass: op.Class}
		}
		res, err := s.PutObject(ctx, b, k, op.ContentType, bytes.NewReader(op.Body), op.Checksum, opts)
		if err != nil {
			return fail(err)
		}
		if res == nil {
			return fail(errors.New("nil result without error"))
		}
		r.Put = res
		r.VersionID = res.VersionID
		if res.ETag != nil {
			r.ETag = *res.ETag
		}
		return r
	case OpGet, OpHead:
		if op.Kind == OpHead {
			var ho *storage.HeadObjectOptions
			if op.VersionID != nil {
				ho = &storage.HeadObjectOptions{VersionID: op.VersionID}
			}
			o, err := s.HeadObject(ctx, b, k, ho)
			if err != nil {
				return fail(err)
			}
			r.Obj, r.ETag, r.Size, r.VersionID = o, o.ETag, o.Size, o.VersionID
			return r
		}
		var gopts *storage.GetObjectOptions
		if op.VersionID != nil {
			gopts = &storage.GetObjectOptions{VersionID: op.VersionID}
		}
		var ranges []storage.ByteRange
		if op.Range != nil {
			st, en := op.Range[0], op.Range[1]
			ranges = []storage.ByteRange{{Start: &st, End: &en}}
		}
		o, readers, err := s.GetObject(ctx, b, k, ranges, gopts)
		if err != nil {
			return fail(err)
		}
		var buf bytes.Buffer
		for _, rd := range readers {
			if _, err := io.Copy(&buf, rd); err != nil && r.ReadErr == nil {
				r.ReadErr = err
			}
		}
		for _, rd := range readers {
			_ = rd.Close()
		}
		r.Obj, r.ETag, r.Size, r.VersionID, r.Body = o, o.ETag, o.Size, o.VersionID, buf.Bytes()
		return r
	case OpDelete:
		var opts *storage.DeleteObjectOptions
		if op.VersionID != nil || op.IfMatch != nil {
			opts = &storage.DeleteObjectOptions{VersionID: op.VersionID, IfMatchETag: op.IfMatch}
		}
		res, err := s.DeleteObject(ctx, b, k, opts)
		if err != nil {
			return fail(err)
		}
		if res != nil {
			r.VersionID, r.Marker = res.VersionID, res.IsDeleteMarker
		}
		return r
	case OpMultiDelete:
		var in []storage.DeleteObjectsInputEntry
		for _, e := range op.Entries {
			in = append(in, storage.DeleteObjectsInputEntry{Key: storage.MustNewObjectKey(e.Key), VersionID: e.VersionID, IfMatchETag: e.IfMatch})
		}
		res, err := s.DeleteObjects(ctx, b, in)
		if err != nil {
			return fail(err)
		}
		if res != nil {
			r.Entries = res.Entries
		}
		return r
	case OpCopy:
		sb, err := bucketName(op.SrcBucket)
		if err != nil {
			return fail(err)
		}
		opts := &storage.CopyObjectOptions{SourceVersionID: op.SrcVersionID, ReplaceMetadata: op.ReplaceMeta, ReplaceTags: op.ReplaceTags, Tags: op.Tags, StorageClass: op.Class}
		if op.ReplaceMeta {
			opts.ContentType = op.ContentType
		}
		opts.Metadata = op.Meta
		if op.Range != nil {
			st, en := op.Range[0], op.Range[1]
			opts.Range = &storage.ByteRange{Start: &st, End: &en}
		}
		opts.CopySourceConditions = storage.CopySourceConditions{IfMatch: op.SrcIfMatch, IfNoneMatch: op.SrcIfNone}
		res, err := s.CopyObject(ctx, sb, storage.MustNewObjectKey(op.SrcKey), b, k, opts)
		if err != nil {
			return fail(err)
		}
		r.ETag, r.VersionID, r.SrcVerID = res.ETag, res.VersionID, res.SourceVersionID
		return r
	case OpAppend:
		var opts *storage.AppendObjectOptions
		if op.WriteOffset != nil {
			opts = &storage.AppendObjectOptions{WriteOffset: op.WriteOffset}
		}
		res, err := s.AppendObject(ctx, b, k, bytes.NewReader(op.Body), op.Checksum, opts)
		if err != nil {
			return fail(err)
		}
		r.ETag, r.Size = res.ETag, res.Size
		// AppendObjectResult carries no version id: learn it from a Head.
		hctx := context.WithoutCancel(context.Background())
		if ctx.Value(HeadInCallerCtx{}) != nil {
			hctx = ctx // the caller runs Exec inside its own transaction: the Head must see it
		}
		if o, herr := s.HeadObject(hctx, b, k, nil); herr == nil {
			r.VersionID = o.VersionID
		}
		return r
	case OpMpuCreate:
		var opts *storage.CreateMultipartUploadOptions
		if op.Tags != nil || op.Meta != nil || op.Class != nil {
			opts = &storage.CreateMultipartUploadOptions{Tags: op.Tags, Metadata: op.Meta, StorageClass: op.Class}
		}
		res, err := s.CreateMultipartUpload(ctx, b, k, op.ContentType, op.ChecksumType, opts)
		if err != nil {
			return fail(err)
		}
		r.UploadID = res.UploadId.String()
		return r
	case OpMpuPart:
		uid, err := storage.NewUploadId(op.UploadID)
		if err != nil {
			return fail(err)
		}
		res, err := s.UploadPart(ctx, b, k, uid, op.PartNumber, bytes.NewReader(op.Body), op.Checksum)
		if err != nil {
			return fail(err)
		}
		r.Part, r.ETag = res, res.ETag
		return r
	case OpMpuPartCopy:
		uid, err := storage.NewUploadId(op.UploadID)
		if err != nil {
			return fail(err)
		}
		sb, err := bucketName(op.SrcBucket)
		if err != nil {
			return fail(err)
		}
		opts := &storage.UploadPartCopyOptions{SourceVersionID: op.SrcVersionID}
		if op.Range != nil {
			st, en := op.Range[0], op.Range[1]
			opts.Range = &storage.ByteRange{Start: &st, End: &en}
		}
		res, err := s.UploadPartCopy(ctx, sb, storage.MustNewObjectKey(op.SrcKey), b, k, uid, op.PartNumber, opts)
		if err != nil {
			return fail(err)
		}
		r.ETag, r.SrcVerID = res.ETag, res.SourceVersionID
		return r
	case OpMpuComplete:
		uid, err := storage.NewUploadId(op.UploadID)
		if err != nil {
			return fail(err)
		}
		var opts *storage.CompleteMultipartUploadOptions
		if op.IfNoneMatchStar || op.IfMatch != nil || op.PartsGiven {
			opts = &storage.CompleteMultipartUploadOptions{IfMatchETag: op.IfMatch, IfNoneMatchStar: op.IfNoneMatchStar}
			for _, p := range op.Parts {
				opts.Parts = append(opts.Parts, storage.CompleteMultipartUploadPart{PartNumber: p.PartNumber, ETag: p.ETag})
			}
		}
		res, err := s.CompleteMultipartUpload(ctx, b, k, uid, op.Checksum, opts)
		if err != nil {
			return fail(err)
		}
		r.Complete, r.ETag, r.VersionID = res, res.ETag, res.VersionID
		return r
	case OpMpuAbort:
		uid, err := storage.NewUploadId(op.UploadID)
		if err != nil {
			return fail(err)
		}
		return fail(s.AbortMultipartUpload(ctx, b, k, uid))
	case OpPutTags:
		var to *storage.ObjectTaggingOptions
		if op.VersionID != nil {
			to = &storage.ObjectTaggingOptions{VersionID: op.VersionID}
		}
		return fail(s.PutObjectTagging(ctx, b, k, op.Tags, to))
	case OpDelTags:
		var to *storage.ObjectTaggingOptions
		if op.VersionID != nil {
			to = &storage.ObjectTaggingOptions{VersionID: op.VersionID}
		}
		return fail(s.DeleteObjectTagging(ctx, b, k, to))
	case OpGetTags:
		var to *storage.ObjectTaggingOptions
		if op.VersionID != nil {
			to = &storage.ObjectTaggingOptions{VersionID: op.VersionID}
		}
		t, err := s.GetObjectTagging(ctx, b, k, to)
		if err != nil {
			return fail(err)
		}
		r.Tags = t
		return r
	case OpTransition:
		var to *storage.TransitionObjectStorageClassOptions
		if op.VersionID != nil || op.IfMatch != nil {
			to = &storage.TransitionObjectStorageClassOptions{VersionID: op.VersionID, IfMatchETag: op.IfMatch}
		}
		return fail(s.TransitionObjectStorageClass(ctx, b, k, op.TargetClass, to))
	}
	return fail(fmt.Errorf("vmodel.Exec: unknown op kind %q", op.Kind))
}

func sortedTagString(t map[string]string) string {
	ks := make([]string, 0, len(t))
	for k := range t {
		ks = append(ks, k)
	}
	sort.Strings(ks)
	var b strings.Builder
	for _, k := range ks {
		fmt.Fprintf(&b, "%s=%s;", k, t[k])
	}
	return b.String()
}
