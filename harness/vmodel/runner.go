package vmodel

import (
	"context"
	"fmt"
	"sort"

	"github.com/jdillenkofer/pithos/internal/storage"
	"github.com/jdillenkofer/pithos/internal/verif/vkit"
)

// HistoryConfig configures one lock-step run of a generated history.
type HistoryConfig struct {
	Storage  storage.Storage
	Rand     *vkit.Rand
	Profile  Profile
	Steps    int
	SnapEach int // full snapshot-vs-model comparison every N steps (0 = only at end)
	// ReadbackVersions re-reads every live version id of the touched keys after each step.
	ReadbackVersions bool
	// Hook is called after every executed step (op, result, model) - used by
	// engines that add their own monitors (placement, LastModified, ...).
	Hook func(step int, op *Op, res *Result, m *Model, applied bool) []Divergence
	// Next, when set, replaces the PRNG generator: it returns the next scripted
	// operation for the current model state, or nil to end the history.
	Next func(step int, m *Model) *Op
	// InScope decides whether a divergence is reported (and ends the history).
	InScope func(d Divergence) bool
}

type StepLog struct {
	N   int    `json:"n"`
	Op  string `json:"op"`
	Res string `json:"result"`
}

type HistoryResult struct {
	Steps        []StepLog
	Divergences  []Divergence // in scope
	OutOfScope   []Divergence
	Observations []string
	OpsByKind    map[string]int
	ErrKinds     map[string]int
	Bigrams      map[string]struct{}
	Aborted      string
	Model        *Model
}

func (h *HistoryResult) Tail(n int) []StepLog {
	if len(h.Steps) <= n {
		return h.Steps
	}
	return h.Steps[len(h.Steps)-n:]
}

func resString(r *Result) string {
	if r.Kind != "" {
		return "ERR " + r.Kind
	}
	s := "ok"
	if r.VersionID != nil {
		s += " v=" + *r.VersionID
	}
	if r.ETag != "" {
		s += " etag=" + r.ETag
	}
	if r.Marker {
		s += " marker"
	}
	if r.UploadID != "" {
		s += " upload=" + r.UploadID
	}
	if r.Body != nil {
		s += fmt.Sprintf(" body=%dB", len(r.Body))
	}
	return s
}

// RunHistory generates and executes a history in lock-step with the model.
func RunHistory(ctx context.Context, cfg HistoryConfig) *HistoryResult {
	m := NewModel()
	g := NewGen(cfg.Rand, cfg.Profile)
	h := &HistoryResult{OpsByKind: map[string]int{}, ErrKinds: map[string]int{}, Bigrams: map[string]struct{}{}, Model: m}
	inScope := cfg.InScope
	if inScope == nil {
		inScope = func(Divergence) bool { return true }
	}
	record := func(divs []Divergence) (stop bool) {
		for _, d := range divs {
			if inScope(d) {
				h.Divergences = append(h.Divergences, d)
				stop = true
			} else {
				h.OutOfScope = append(h.OutOfScope, d)
			}
		}
		return
	}
	prev := ""
	run := func(step int, op *Op) (res *Result, applied, fatal bool) {
		exp := m.Predict(op)
		res = Exec(ctx, cfg.Storage, op)
		h.Steps = append(h.Steps, StepLog{N: step, Op: op.String(), Res: resString(res)})
		h.OpsByKind[string(op.Kind)]++
		if res.Kind != "" {
			h.ErrKinds[res.Kind]++
		}
		h.Bigrams[prev+">"+string(op.Kind)] = struct{}{}
		prev = string(op.Kind)
		divs, obs := Check(op, exp, res, m.Buckets[op.Bucket])
		for _, o := range obs {
			if len(h.Observations) < 50 {
				h.Observations = append(h.Observations, o.What)
			}
		}
		stateDiverged := (exp.Kind == "") != (res.Kind == "")
		stop := record(divs)
		if stateDiverged {
			// The model was not advanced. A call that was to fail but succeeded may have done
			// anything: compare the whole API-visible state with the (unchanged) model, so that
			// its effect is reported under the field it damaged (existence, content, versions,
			// ...) and not only as an unexpected outcome of the call itself.
			if exp.Kind != "" && res.Kind == "" {
				stop = record(CompareSnapshot(ctx, cfg.Storage, m)) || stop
			}
			if !stop {
				h.Aborted = fmt.Sprintf("out-of-scope state divergence at step %d: %s", step, divs[0].What)
			}
			return res, false, true
		}
		if exp.Kind == "" {
			nv := m.Apply(op, res)
			applied = true
			stop = record(postApply(op, res, nv)) || stop
		}
		if cfg.Hook != nil {
			stop = record(cfg.Hook(step, op, res, m, applied)) || stop
		}
		return res, applied, stop
	}

	for step := 0; step < cfg.Steps; step++ {
		var op *Op
		if cfg.Next != nil {
			if op = cfg.Next(step, m); op == nil {
				break
			}
		} else {
			op = g.Next(m)
		}
		_, applied, stop := run(step, op)
		if stop {
			return h
		}
		mutating := applied && op.Kind != OpGet && op.Kind != OpHead && op.Kind != OpGetTags
		if mutating {
			// read back touched keys through the API
			touched := map[keyRef]bool{}
			if op.Key != "" {
				touched[keyRef{op.Bucket, op.Key}] = true
			}
			if op.SrcKey != "" {
				touched[keyRef{op.SrcBucket, op.SrcKey}] = true
			}
			for _, e := range op.Entries {
				touched[keyRef{op.Bucket, e.Key}] = true
			}
			krs := make([]keyRef, 0, len(touched))
			for kr := range touched {
				krs = append(krs, kr)
			}
			sort.Slice(krs, func(i, j int) bool { return krs[i].b+krs[i].k < krs[j].b+krs[j].k })
			for _, kr := range krs {
				if m.Buckets[kr.b] == nil {
					continue
				}
				if _, _, stop := run(step, &Op{Kind: OpGet, Bucket: kr.b, Key: kr.k, Intent: "readback"}); stop {
					return h
				}
				if cfg.ReadbackVersions {
					if stop := record(CheckVersions(ctx, cfg.Storage, m, kr.b, kr.k)); stop {
						return h
					}
				}
			}
		}
		if cfg.SnapEach > 0 && (step+1)%cfg.SnapEach == 0 {
			if stop := record(CompareSnapshot(ctx, cfg.Storage, m)); stop {
				return h
			}
		}
	}
	record(CompareSnapshot(ctx, cfg.Storage, m))
	return h
}

// postApply checks results that need the version the model just wrote.
func postApply(op *Op, res *Result, nv *MVersion) (divs []Divergence) {
	if nv == nil {
		return nil
	}
	add := func(field, sig, what string) { divs = append(divs, Divergence{Field: field, Sig: sig, What: what}) }
	switch op.Kind {
	case OpCopy, OpAppend, OpMpuComplete:
		if res.ETag != nv.ETag() {
			add("etag", "etag-mismatch:"+string(op.Kind), fmt.Sprintf("%s: returned ETag %s, reference %s (parts=%d)", op, res.ETag, nv.ETag(), len(nv.Parts)))
		}
	}
	if op.Kind == OpAppend && res.Size != int64(len(nv.Content)) {
		add("size", "append-size-mismatch", fmt.Sprintf("%s: returned size %d, model %d", op, res.Size, len(nv.Content)))
	}
	if op.Kind == OpMpuComplete && res.Complete != nil && nv.CksumType == "FULL_OBJECT" {
		ref := RefChecksums(nv.Content)
		chk := func(n string, g *string, w string) {
			if g != nil && *g != w {
				add("checksum", "checksum-mismatch:complete:"+n, fmt.Sprintf("%s: FULL_OBJECT %s %s, reference over concatenation %s", op, n, *g, w))
			}
		}
		chk("crc32", res.Complete.ChecksumCRC32, ref.CRC32)
		chk("crc32c", res.Complete.ChecksumCRC32C, ref.CRC32C)
		chk("crc64nvme", res.Complete.ChecksumCRC64NVME, ref.CRC64NVME)
	}
	return
}

// CheckVersions re-reads every live version of a key by id and compares the
// ListObjectVersions view (ids, marker flags, IsLatest) with the model.
func CheckVersions(ctx context.Context, s storage.Storage, m *Model, bucket, key string) (divs []Divergence) {
	b := m.Buckets[bucket]
	if b == nil {
		return nil
	}
	add := func(field, sig, what string) { divs = append(divs, Divergence{Field: field, Sig: sig, What: what}) }
	for _, v := range b.Keys[key] {
		id := v.ID
		op := &Op{Kind: OpGet, Bucket: bucket, Key: key, VersionID: &id, Intent: "readback-version"}
		res := Exec(ctx, s, op)
		if v.Marker {
			if res.Kind == "" {
				add("marker", "marker-readable-as-object", fmt.Sprintf("%s: delete marker returned an object", op))
			}
			continue
		}
		if res.Kind != "" {
			add("version-content", "live-version-unreadable", fmt.Sprintf("%s: live version not readable: %s (%s) [%s]", op, res.Kind, res.ErrText, b.Describe(key)))
			continue
		}
		if res.ReadErr != nil {
			add("version-content", "live-version-read-error", fmt.Sprintf("%s: body stream failed after %dB of %dB: %v", op, len(res.Body), len(v.Content), res.ReadErr))
		} else if string(res.Body) != string(v.Content) {
			add("version-content", "live-version-content-changed", fmt.Sprintf("%s: body %dB/%s, version was written as %dB/%s", op, len(res.Body), hashHex(res.Body), len(v.Content), hashHex(v.Content)))
		}
		if res.Obj != nil && res.Obj.ETag != v.ETag() {
			add("etag", "etag-mismatch:read-version", fmt.Sprintf("%s: ETag %s, reference %s", op, res.Obj.ETag, v.ETag()))
		}
	}
	// listing view
	bn := storage.MustNewBucketName(bucket)
	prefix := key
	res, err := s.ListObjectVersions(ctx, bn, storage.ListObjectVersionsOptions{Prefix: &prefix, MaxKeys: 1000})
	if err != nil {
		add("latest", "list-versions-error", "ListObjectVersions: "+err.Error())
		return
	}
	type lv struct{ marker, latest bool }
	got := map[string]lv{}
	for _, v := range res.Versions {
		if v.Key.String() != key {
			continue
		}
		if _, dup := got[v.VersionID]; dup {
			add("latest", "duplicate-version-in-listing", fmt.Sprintf("%s/%s: version %s listed twice", bucket, key, v.VersionID))
		}
		got[v.VersionID] = lv{v.IsDeleteMarker, v.IsLatest}
	}
	cur := b.Current(key)
	for _, v := range b.Keys[key] {
		g, ok := got[v.ID]
		if !ok {
			add("latest", "live-version-missing-from-listing", fmt.Sprintf("%s/%s: version %s not listed [%s]", bucket, key, v.ID, b.Describe(key)))
			continue
		}
		if g.marker != v.Marker {
			add("marker", "marker-flag-mismatch", fmt.Sprintf("%s/%s: version %s marker=%v, model %v", bucket, key, v.ID, g.marker, v.Marker))
		}
		if g.latest != (v == cur) {
			add("latest", "is-latest-mismatch", fmt.Sprintf("%s/%s: version %s IsLatest=%v, model says current is %s [%s]", bucket, key, v.ID, g.latest, cur.ID, b.Describe(key)))
		}
		delete(got, v.ID)
	}
	for id := range got {
		add("latest", "deleted-version-still-listed", fmt.Sprintf("%s/%s: version %s listed but not live in model [%s]", bucket, key, id, b.Describe(key)))
	}
	return
}

// CompareSnapshot compares the full API-visible state with the model.
func CompareSnapshot(ctx context.Context, s storage.Storage, m *Model) (divs []Divergence) {
	real := Snapshot(ctx, s, SnapOptions{})
	if d := Diff(real, m.Snap(), DiffOptions{}); d != "" {
		field := DiffField(d)
		if field == "listing" {
			field = "existence"
		}
		divs = append(divs, Divergence{Field: field, Sig: "snapshot-diverges-from-model:" + field, What: "real vs model: " + d})
	}
	for _, e := range real.ReadErrors() {
		divs = append(divs, Divergence{Field: "version-content", Sig: "snapshot-read-error", What: e})
	}
	return
}
