package vmodel

import (
	"fmt"
	"sort"

	"github.com/jdillenkofer/pithos/internal/storage"
	"github.com/jdillenkofer/pithos/internal/verif/vkit"
)

// Profile tunes the generator.
type Profile struct {
	Name        string
	Buckets     []string
	Keys        []string
	Weights     map[OpKind]int
	FailPct     int // share of deliberately failing requests
	PoolPct     int // share of bodies drawn from the small shared pool (dedup collisions); 0 = 25
	MaxBody     int // upper bound for "large" bodies
	BigBodyPct  int // chance of a large body
	MetaPct     int // chance that a write carries metadata/tags/class
	Classes     []string
	Versioning  bool // emit versioning toggles
	NoAppend    bool
	NoVersionID bool // never address explicit version ids (C23/C38)
	NoMultipart bool
	Conditional bool // emit If-Match / If-None-Match writes
}

var AllClasses = []string{"STANDARD", "REDUCED_REDUNDANCY", "STANDARD_IA", "ONEZONE_IA", "INTELLIGENT_TIERING", "GLACIER_IR", "GLACIER", "DEEP_ARCHIVE", "EXPRESS_ONEZONE", "OUTPOSTS"}

func GeneralProfile() Profile {
	return Profile{
		Name: "general", Buckets: []string{"bkt-a", "bkt-b", "bkt-c"}, Keys: []string{"k1", "k2", "dir/k3", "k4"},
		Weights: map[OpKind]int{
			OpCreateBucket: 6, OpDeleteBucket: 3, OpVersioning: 3, OpPut: 22, OpGet: 6, OpHead: 3, OpDelete: 8, OpMultiDelete: 3,
			OpCopy: 8, OpAppend: 7, OpMpuCreate: 5, OpMpuPart: 8, OpMpuPartCopy: 3, OpMpuComplete: 5, OpMpuAbort: 2,
			OpPutTags: 3, OpDelTags: 1, OpGetTags: 1, OpTransition: 2,
		},
		FailPct: 20, MaxBody: 3 << 20, BigBodyPct: 2, MetaPct: 35, Classes: AllClasses, Versioning: true, Conditional: true,
	}
}

func VersioningProfile() Profile {
	p := GeneralProfile()
	p.Name = "versioning"
	p.Buckets = []string{"bkt-v"}
	p.Keys = []string{"k1", "k2"}
	p.Weights = map[OpKind]int{
		OpCreateBucket: 1, OpVersioning: 14, OpPut: 22, OpGet: 3, OpDelete: 22, OpMultiDelete: 3, OpCopy: 7, OpAppend: 8,
		OpMpuCreate: 5, OpMpuPart: 6, OpMpuComplete: 7, OpPutTags: 3, OpTransition: 3,
	}
	p.FailPct = 5
	p.BigBodyPct = 0
	p.MaxBody = 4096
	return p
}

func MetaProfile() Profile {
	p := GeneralProfile()
	p.Name = "meta"
	p.Buckets = []string{"bkt-m", "bkt-n"}
	p.Weights = map[OpKind]int{
		OpCreateBucket: 2, OpVersioning: 3, OpPut: 25, OpHead: 4, OpDelete: 4, OpCopy: 22, OpAppend: 8,
		OpMpuCreate: 6, OpMpuPart: 7, OpMpuComplete: 6, OpPutTags: 5, OpDelTags: 2, OpGetTags: 3, OpTransition: 6,
	}
	p.FailPct = 3
	p.MetaPct = 85
	p.BigBodyPct = 0
	p.MaxBody = 2048
	return p
}

func TransitionProfile() Profile {
	p := MetaProfile()
	p.Name = "transition"
	p.Weights = map[OpKind]int{
		OpCreateBucket: 2, OpVersioning: 3, OpPut: 20, OpGet: 5, OpDelete: 5, OpCopy: 12, OpAppend: 5,
		OpMpuCreate: 4, OpMpuPart: 6, OpMpuPartCopy: 3, OpMpuComplete: 5, OpPutTags: 2, OpTransition: 28,
	}
	p.MetaPct = 60
	p.MaxBody = 200000
	p.BigBodyPct = 5
	return p
}

// Gen generates operations in lock-step with a model.
type Gen struct {
	R        *vkit.Rand
	P        Profile
	bodyPool [][]byte
	n        int
}

func NewGen(r *vkit.Rand, p Profile) *Gen {
	g := &Gen{R: r, P: p}
	// a small pool of bodies reused across keys -> content-dedup collisions
	for _, sz := range []int{0, 1, 700, 5000} {
		g.bodyPool = append(g.bodyPool, g.mkBody(sz, 0))
	}
	return g
}

var boundarySizes = []int{0, 1, 2, 1023, 1024, 1025, 3000, 65535, 65536, 65537, 131016 - 1, 131016, 131016 + 1, 2048, 2049, 3072, 131072, 131073}

func (g *Gen) mkBody(size int, kind int) []byte {
	switch kind % 4 {
	case 0:
		return g.R.Bytes(size)
	case 1: // highly compressible
		b := make([]byte, size)
		for i := range b {
			b[i] = byte('a' + (i/97)%3)
		}
		return b
	case 2: // compressible head, incompressible tail
		b := g.R.Bytes(size)
		for i := 0; i < size/2; i++ {
			b[i] = 'z'
		}
		return b
	default:
		b := g.R.Bytes(size)
		if size > 0 {
			b[0] = byte(g.n)
		}
		return b
	}
}

func (g *Gen) body() []byte {
	r := g.R
	pool := g.P.PoolPct
	if pool == 0 {
		pool = 25
	}
	switch {
	case r.Chance(pool):
		return vkit.Pick(r, g.bodyPool)
	case r.Chance(g.P.BigBodyPct) && g.P.MaxBody > 200000:
		return g.mkBody(r.Range(200000, g.P.MaxBody), r.Intn(4))
	case r.Chance(30):
		sz := vkit.Pick(r, boundarySizes)
		if sz > g.P.MaxBody {
			sz = g.P.MaxBody
		}
		return g.mkBody(sz, r.Intn(4))
	default:
		max := 4096
		if g.P.MaxBody < max {
			max = g.P.MaxBody
		}
		return g.mkBody(r.Intn(max+1), r.Intn(4))
	}
}

func (g *Gen) smallBody() []byte {
	if g.R.Chance(30) {
		return vkit.Pick(g.R, g.bodyPool)
	}
	return g.mkBody(g.R.Intn(3000), g.R.Intn(4))
}

func (g *Gen) tags() map[string]string {
	r := g.R
	n := r.Intn(4)
	if r.Chance(10) {
		n = 10
	}
	t := map[string]string{}
	for i := 0; i < n; i++ {
		t[fmt.Sprintf("t%d", r.Intn(12))] = fmt.Sprintf("v%d", r.Intn(100))
	}
	if len(t) == 0 && r.Bool() {
		return nil
	}
	return t
}

func (g *Gen) meta() *storage.ObjectMetadata {
	r := g.R
	m := &storage.ObjectMetadata{}
	if r.Chance(40) {
		m.CacheControl = vkit.Ptr(fmt.Sprintf("max-age=%d", r.Intn(1000)))
	}
	if r.Chance(30) {
		m.ContentDisposition = vkit.Ptr(fmt.Sprintf("attachment; filename=\"f%d.bin\"", r.Intn(100)))
	}
	if r.Chance(25) {
		m.ContentEncoding = vkit.Ptr(vkit.Pick(r, []string{"identity", "br", "deflate"}))
	}
	if r.Chance(25) {
		m.ContentLanguage = vkit.Ptr(vkit.Pick(r, []string{"en", "de-DE", "fr"}))
	}
	if r.Chance(25) {
		m.Expires = vkit.Ptr("Wed, 21 Oct 2099 07:28:00 GMT")
	}
	if r.Chance(25) {
		m.WebsiteRedirectLocation = vkit.Ptr(fmt.Sprintf("/redir-%d", r.Intn(100)))
	}
	n := r.Intn(4)
	if n > 0 {
		m.UserMetadata = map[string]string{}
		for i := 0; i < n; i++ {
			m.UserMetadata[fmt.Sprintf("um%d", r.Intn(8))] = fmt.Sprintf("val-%d", r.Intn(1000))
		}
	}
	return m
}

func (g *Gen) class() *string {
	if len(g.P.Classes) == 0 || g.R.Chance(30) {
		return nil
	}
	return vkit.Ptr(vkit.Pick(g.R, g.P.Classes))
}

func (g *Gen) contentType() *string {
	if g.R.Chance(35) {
		return nil
	}
	return vkit.Ptr(vkit.Pick(g.R, []string{"text/plain", "application/octet-stream", "image/png", "application/json; charset=utf-8"}))
}

func (g *Gen) decorate(op *Op) {
	if g.R.Chance(g.P.MetaPct) {
		if g.R.Chance(70) {
			op.Tags = g.tags()
		}
		if g.R.Chance(70) {
			op.Meta = g.meta()
		}
		op.Class = g.class()
	}
	op.ContentType = g.contentType()
}

func existingBuckets(m *Model) []string {
	var l []string
	for n := range m.Buckets {
		l = append(l, n)
	}
	sort.Strings(l)
	return l
}

type keyRef struct{ b, k string }

func objectKeys(m *Model, withObject bool) []keyRef {
	var l []keyRef
	for _, bn := range existingBuckets(m) {
		b := m.Buckets[bn]
		ks := make([]string, 0, len(b.Keys))
		for k := range b.Keys {
			ks = append(ks, k)
		}
		sort.Strings(ks)
		for _, k := range ks {
			if !withObject || b.CurrentObject(k) != nil {
				l = append(l, keyRef{bn, k})
			}
		}
	}
	return l
}

type uploadRef struct {
	b string
	u *MUpload
}

func uploads(m *Model) []uploadRef {
	var l []uploadRef
	for _, bn := range existingBuckets(m) {
		b := m.Buckets[bn]
		ids := make([]string, 0, len(b.Uploads))
		for id := range b.Uploads {
			ids = append(ids, id)
		}
		sort.Slice(ids, func(i, j int) bool { return b.Uploads[ids[i]].Seq < b.Uploads[ids[j]].Seq })
		for _, id := range ids {
			l = append(l, uploadRef{bn, b.Uploads[id]})
		}
	}
	return l
}

// staleUploadOp re-uses, now and then, the id of an upload that was already
// completed or aborted (a retried Complete, a late UploadPart, an Abort racing
// the client's own Complete): the call must fail and leave the object alone.
func (g *Gen) staleUploadOp(m *Model, kind OpKind) *Op {
	r := g.R
	if len(m.Finished) == 0 || !r.Chance(12) {
		return nil
	}
	f := m.Finished[r.Intn(len(m.Finished))]
	if m.Buckets[f.Bucket] == nil {
		return nil
	}
	op := &Op{Kind: kind, Bucket: f.Bucket, Key: f.Key, UploadID: f.ID, Intent: "upload id of an already " + f.How + " upload"}
	if kind == OpMpuPart {
		op.PartNumber = int32(r.Range(1, 2))
		op.Body = g.body()
		op.BodyDesc = vkit.Brief(op.Body)
	}
	return op
}

func (g *Gen) pickKind() OpKind {
	total := 0
	kinds := make([]OpKind, 0, len(g.P.Weights))
	for k := range g.P.Weights {
		kinds = append(kinds, k)
	}
	sort.Slice(kinds, func(i, j int) bool { return kinds[i] < kinds[j] })
	for _, k := range kinds {
		total += g.P.Weights[k]
	}
	x := g.R.Intn(total)
	for _, k := range kinds {
		x -= g.P.Weights[k]
		if x < 0 {
			return k
		}
	}
	return OpPut
}

// someVersion picks a live version of a key (any, incl. markers) or nil.
func (g *Gen) someVersion(b *MBucket, key string) *MVersion {
	vs := b.Keys[key]
	if len(vs) == 0 {
		return nil
	}
	return vkit.Pick(g.R, vs)
}

// Next generates the next operation for the current model state.
func (g *Gen) Next(m *Model) *Op {
	g.n++
	r := g.R
	for tries := 0; tries < 50; tries++ {
		kind := g.pickKind()
		bs := existingBuckets(m)
		fail := r.Chance(g.P.FailPct)
		if len(bs) == 0 && kind != OpCreateBucket && !fail {
			kind = OpCreateBucket
		}
		pickBucket := func() string {
			if fail && r.Chance(25) || len(bs) == 0 {
				return "bkt-missing"
			}
			return vkit.Pick(r, bs)
		}
		switch kind {
		case OpCreateBucket:
			var cands []string
			for _, b := range g.P.Buckets {
				if (m.Buckets[b] != nil) == fail {
					cands = append(cands, b)
				}
			}
			if len(cands) == 0 {
				continue
			}
			return &Op{Kind: kind, Bucket: vkit.Pick(r, cands), Intent: intent(fail, "BucketAlreadyExists")}
		case OpDeleteBucket:
			if len(bs) == 0 {
				continue
			}
			b := vkit.Pick(r, bs)
			if m.Buckets[b].Empty() && !fail && len(bs) == 1 && r.Chance(70) {
				continue // keep at least one bucket most of the time
			}
			return &Op{Kind: kind, Bucket: b}
		case OpVersioning:
			if !g.P.Versioning || len(bs) == 0 {
				continue
			}
			return &Op{Kind: kind, Bucket: pickBucket(), Status: vkit.Pick(r, []string{"Enabled", "Enabled", "Suspended"})}
		case OpPut:
			op := &Op{Kind: kind, Bucket: pickBucket(), Key: vkit.Pick(r, g.P.Keys), Body: g.body()}
			g.decorate(op)
			b := m.Buckets[op.Bucket]
			if g.P.Conditional && b != nil && r.Chance(25) {
				cur := b.CurrentObject(op.Key)
				switch r.Intn(4) {
				case 0:
					op.IfNoneMatchStar = true
				case 1:
					if cur != nil {
						op.IfMatch = vkit.Ptr(cur.ETag())
					} else {
						op.IfMatch = vkit.Ptr("*")
					}
				case 2:
					op.IfMatch = vkit.Ptr("\"00000000000000000000000000000000\"")
				case 3:
					op.IfMatch = vkit.Ptr("*")
				}
			}
			if r.Chance(20) {
				ref := RefChecksums(op.Body)
				ci := &storage.ChecksumInput{}
				wrong := fail && r.Chance(60)
				val := func(s string) *string {
					if wrong {
						return vkit.Ptr(flipOne(s))
					}
					return vkit.Ptr(s)
				}
				switch r.Intn(6) {
				case 0:
					ci.ETag = val(ref.ETag)
				case 1:
					ci.ChecksumCRC32 = val(ref.CRC32)
				case 2:
					ci.ChecksumCRC32C = val(ref.CRC32C)
				case 3:
					ci.ChecksumCRC64NVME = val(ref.CRC64NVME)
				case 4:
					ci.ChecksumSHA1 = val(ref.SHA1)
				case 5:
					ci.ChecksumSHA256 = val(ref.SHA256)
				}
				op.Checksum = ci
			}
			op.BodyDesc = vkit.Brief(op.Body)
			return op
		case OpGet, OpHead, OpGetTags:
			op := &Op{Kind: kind, Bucket: pickBucket(), Key: vkit.Pick(r, g.P.Keys)}
			if b := m.Buckets[op.Bucket]; b != nil && !g.P.NoVersionID && r.Chance(30) {
				if v := g.someVersion(b, op.Key); v != nil {
					op.VersionID = vkit.Ptr(v.ID)
				}
			}
			return op
		case OpDelete:
			op := &Op{Kind: kind, Bucket: pickBucket(), Key: vkit.Pick(r, g.P.Keys)}
			b := m.Buckets[op.Bucket]
			if b != nil && !g.P.NoVersionID && r.Chance(45) {
				if cur := b.Current(op.Key); cur != nil && r.Chance(50) {
					// deleting the newest version by id forces a promotion of its predecessor
					op.VersionID = vkit.Ptr(cur.ID)
				} else if v := g.someVersion(b, op.Key); v != nil {
					op.VersionID = vkit.Ptr(v.ID)
				} else if r.Chance(20) {
					op.VersionID = vkit.Ptr("01JZZZZZZZZZZZZZZZZZZZZZZZ")
				}
			}
			if b != nil && g.P.Conditional && r.Chance(15) {
				cur := b.CurrentObject(op.Key)
				if op.VersionID != nil {
					if v := b.Find(op.Key, *op.VersionID); v != nil && !v.Marker {
						cur = v
					}
				}
				if cur != nil && !fail {
					op.IfMatch = vkit.Ptr(cur.ETag())
				} else {
					op.IfMatch = vkit.Ptr("\"11111111111111111111111111111111\"")
				}
			}
			return op
		case OpMultiDelete:
			op := &Op{Kind: kind, Bucket: pickBucket()}
			b := m.Buckets[op.Bucket]
			seen := map[string]bool{}
			for i := 0; i < r.Range(1, 3); i++ {
				e := DelEntry{Key: vkit.Pick(r, g.P.Keys)}
				if b != nil && !g.P.NoVersionID && r.Chance(35) {
					if v := g.someVersion(b, e.Key); v != nil {
						e.VersionID = vkit.Ptr(v.ID)
					}
				}
				id := e.Key + "@" + vkit.Deref(e.VersionID)
				if seen[e.Key] || seen[id] {
					continue
				}
				seen[e.Key], seen[id] = true, true
				op.Entries = append(op.Entries, e)
			}
			if len(op.Entries) == 0 {
				continue
			}
			return op
		case OpCopy, OpMpuPartCopy:
			srcs := objectKeys(m, !fail)
			if len(srcs) == 0 || len(bs) == 0 {
				continue
			}
			src := vkit.Pick(r, srcs)
			op := &Op{Kind: kind, SrcBucket: src.b, SrcKey: src.k, Bucket: pickBucket(), Key: vkit.Pick(r, g.P.Keys)}
			sb := m.Buckets[src.b]
			var sv *MVersion
			if !g.P.NoVersionID && r.Chance(25) {
				if v := g.someVersion(sb, src.k); v != nil {
					op.SrcVersionID = vkit.Ptr(v.ID)
					if !v.Marker {
						sv = v
					}
				}
			} else {
				sv = sb.CurrentObject(src.k)
			}
			if sv != nil && len(sv.Content) > 0 && r.Chance(30) {
				st := int64(r.Intn(len(sv.Content)))
				en := st + 1 + int64(r.Intn(len(sv.Content)-int(st)))
				if fail && r.Chance(50) {
					st, en = int64(len(sv.Content))+5, int64(len(sv.Content))+9
				}
				op.Range = &[2]int64{st, en}
			}
			if kind == OpMpuPartCopy {
				ups := uploads(m)
				if len(ups) == 0 {
					continue
				}
				u := vkit.Pick(r, ups)
				op.Bucket, op.Key, op.UploadID, op.PartNumber = u.b, u.u.Key, u.u.ID, int32(len(u.u.Parts)+1)
				if r.Chance(25) && len(u.u.Parts) > 0 {
					op.PartNumber = int32(r.Range(1, len(u.u.Parts)))
				}
				if sv != nil && len(sv.Content) == 0 {
					continue // empty source: S3 rejects, pithos too; not a stated behaviour
				}
				return op
			}
			if r.Chance(g.P.MetaPct) {
				op.ReplaceMeta = r.Chance(45)
				op.ReplaceTags = r.Chance(45)
				if op.ReplaceMeta || r.Chance(30) {
					op.Meta = g.meta()
					op.ContentType = g.contentType()
				}
				if op.ReplaceTags || r.Chance(20) {
					op.Tags = g.tags()
				}
				op.Class = g.class()
			}
			if sv != nil && g.P.Conditional && r.Chance(12) {
				if fail {
					op.SrcIfNone = vkit.Ptr(sv.ETag())
				} else {
					op.SrcIfMatch = vkit.Ptr(sv.ETag())
				}
			}
			return op
		case OpAppend:
			if g.P.NoAppend {
				continue
			}
			op := &Op{Kind: kind, Bucket: pickBucket(), Key: vkit.Pick(r, g.P.Keys), Body: g.smallBody()}
			if b := m.Buckets[op.Bucket]; b != nil && r.Chance(50) {
				var size int64
				if cur := b.CurrentObject(op.Key); cur != nil {
					size = int64(len(cur.Content))
				}
				if fail {
					size += int64(r.Range(1, 5))
				}
				op.WriteOffset = &size
			}
			op.BodyDesc = vkit.Brief(op.Body)
			return op
		case OpMpuCreate:
			if g.P.NoMultipart {
				continue
			}
			op := &Op{Kind: kind, Bucket: pickBucket(), Key: vkit.Pick(r, g.P.Keys)}
			g.decorate(op)
			if r.Chance(40) {
				op.ChecksumType = vkit.Ptr(vkit.Pick(r, []string{"FULL_OBJECT", "COMPOSITE"}))
			}
			return op
		case OpMpuPart:
			if op := g.staleUploadOp(m, kind); op != nil {
				return op
			}
			ups := uploads(m)
			if len(ups) == 0 {
				continue
			}
			u := vkit.Pick(r, ups)
			op := &Op{Kind: kind, Bucket: u.b, Key: u.u.Key, UploadID: u.u.ID, PartNumber: int32(len(u.u.Parts) + 1), Body: g.body()}
			if r.Chance(25) && len(u.u.Parts) > 0 {
				op.PartNumber = int32(r.Range(1, len(u.u.Parts))) // re-upload replaces
			}
			if fail && r.Chance(50) {
				op.UploadID = "01JYYYYYYYYYYYYYYYYYYYYYYY"
			}
			if r.Chance(20) {
				ref := RefChecksums(op.Body)
				if fail {
					op.Checksum = &storage.ChecksumInput{ChecksumCRC32C: vkit.Ptr(flipOne(ref.CRC32C))}
				} else {
					op.Checksum = &storage.ChecksumInput{ChecksumSHA256: vkit.Ptr(ref.SHA256)}
				}
			}
			op.BodyDesc = vkit.Brief(op.Body)
			return op
		case OpMpuComplete, OpMpuAbort:
			if op := g.staleUploadOp(m, kind); op != nil {
				return op
			}
			ups := uploads(m)
			if len(ups) == 0 {
				continue
			}
			u := vkit.Pick(r, ups)
			op := &Op{Kind: kind, Bucket: u.b, Key: u.u.Key, UploadID: u.u.ID}
			if kind == OpMpuAbort {
				return op
			}
			if len(u.u.Parts) == 0 {
				continue
			}
			if r.Chance(60) || fail {
				op.PartsGiven = true
				nums := make([]int, 0)
				for n := range u.u.Parts {
					nums = append(nums, int(n))
				}
				sort.Ints(nums)
				for _, n := range nums {
					op.Parts = append(op.Parts, CompletePart{PartNumber: int32(n), ETag: RefChecksums(u.u.Parts[int32(n)].Content).ETag})
				}
				if fail {
					switch r.Intn(3) {
					case 0:
						if len(op.Parts) >= 2 {
							op.Parts[0], op.Parts[1] = op.Parts[1], op.Parts[0]
						} else {
							op.Parts[0].ETag = "\"22222222222222222222222222222222\""
						}
					case 1:
						op.Parts[len(op.Parts)-1].ETag = "\"22222222222222222222222222222222\""
					case 2:
						op.Parts = append(op.Parts, CompletePart{PartNumber: int32(nums[len(nums)-1] + 1), ETag: "\"33333333333333333333333333333333\""})
					}
				}
			}
			if g.P.Conditional && r.Chance(20) {
				if r.Bool() {
					op.IfNoneMatchStar = true
				} else if cur := m.Buckets[u.b].CurrentObject(u.u.Key); cur != nil {
					op.IfMatch = vkit.Ptr(cur.ETag())
				}
			}
			return op
		case OpPutTags, OpDelTags:
			op := &Op{Kind: kind, Bucket: pickBucket(), Key: vkit.Pick(r, g.P.Keys)}
			if kind == OpPutTags {
				op.Tags = g.tags()
				if op.Tags == nil {
					op.Tags = map[string]string{}
				}
			}
			if b := m.Buckets[op.Bucket]; b != nil && !g.P.NoVersionID && r.Chance(30) {
				if v := g.someVersion(b, op.Key); v != nil {
					op.VersionID = vkit.Ptr(v.ID)
				}
			}
			return op
		case OpTransition:
			ks := objectKeys(m, !fail)
			if len(ks) == 0 || len(g.P.Classes) == 0 {
				continue
			}
			kr := vkit.Pick(r, ks)
			op := &Op{Kind: kind, Bucket: kr.b, Key: kr.k, TargetClass: vkit.Pick(r, g.P.Classes)}
			b := m.Buckets[kr.b]
			if !g.P.NoVersionID && r.Chance(30) {
				if v := g.someVersion(b, kr.k); v != nil {
					op.VersionID = vkit.Ptr(v.ID)
				}
			}
			if g.P.Conditional && r.Chance(15) {
				if cur := b.CurrentObject(kr.k); cur != nil && !fail {
					op.IfMatch = vkit.Ptr(cur.ETag())
				} else {
					op.IfMatch = vkit.Ptr("\"44444444444444444444444444444444\"")
				}
			}
			return op
		}
	}
	return &Op{Kind: OpCreateBucket, Bucket: g.P.Buckets[0]}
}

func intent(fail bool, kind string) string {
	if fail {
		return "fail:" + kind
	}
	return ""
}

// flipOne changes one character of a base64/hex/quoted string keeping its shape.
func flipOne(s string) string {
	b := []byte(s)
	for i := len(b) / 2; i < len(b); i++ {
		c := b[i]
		switch {
		case c >= '0' && c <= '8':
			b[i] = c + 1
			return string(b)
		case c == '9':
			b[i] = '0'
			return string(b)
		case c >= 'a' && c <= 'e':
			b[i] = c + 1
			return string(b)
		case c >= 'A' && c <= 'Y':
			b[i] = c + 1
			return string(b)
		case c >= 'g' && c <= 'y':
			b[i] = c + 1
			return string(b)
		}
	}
	return s + "0"
}
