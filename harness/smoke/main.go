package main

import (
	"bytes"
	"context"
	"fmt"
	"io"

	"github.com/jdillenkofer/pithos/internal/storage"
	"github.com/jdillenkofer/pithos/internal/verif/vkit"
)

func main() {
	r := vkit.Begin("C00", "exploration", "quick")
	ctx := context.Background()
	for _, spec := range append(vkit.PartStoreSpecs, "named") {
		env, err := vkit.OpenEnv(r.SubDir("env"))
		if err != nil {
			panic(err)
		}
		s, err := env.NewStorage(spec)
		if err != nil {
			panic(fmt.Sprint(spec, err))
		}
		b := storage.MustNewBucketName("bucket")
		if err := s.CreateBucket(ctx, b); err != nil {
			panic(err)
		}
		body := r.Rand().Bytes(200000)
		if _, err := s.PutObject(ctx, b, storage.MustNewObjectKey("k"), nil, bytes.NewReader(body), nil, nil); err != nil {
			panic(fmt.Sprint(spec, err))
		}
		_, rd, err := s.GetObject(ctx, b, storage.MustNewObjectKey("k"), nil, nil)
		if err != nil {
			panic(err)
		}
		got, err := io.ReadAll(rd[0])
		rd[0].Close()
		fmt.Println(spec, bytes.Equal(got, body), err)
		s.Stop(ctx)
		env.Close()
		r.Eval(spec)
	}
	r.SetRule("smoke")
	r.Sample("x")
	r.Finish()
}
