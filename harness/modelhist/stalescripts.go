package main

import (
	"context"
	"fmt"
	"os"

	"github.com/jdillenkofer/pithos/internal/storage"
	"github.com/jdillenkofer/pithos/internal/verif/vkit"
	"github.com/jdillenkofer/pithos/internal/verif/vmodel"
)

// staleUploadScripts (C01): an acknowledged object that was created by a
// multipart upload must stay exactly as it is when its (now finished) upload id
// is used again - a retried Complete, a late UploadPart, an Abort after the
// client's own Complete - and the same for an aborted upload whose key was
// written by someone else meanwhile. Versioning off / enabled / suspended.
// After every step the runner reads the key back and compares with the model.
func staleUploadScripts(ctx context.Context, r *vkit.Run, s storage.Storage, stack string, rng *vkit.Rand, cfg propCfg) {
	n := 0
	for vi, vers := range []string{"", "Enabled", "Suspended"} {
		for fi, finish := range []string{"complete", "abort-then-put"} {
			for li, late := range []string{"abort", "part", "complete", "part-then-complete"} {
				n++
				b := fmt.Sprintf("stale-%d-%d-%d", vi, fi, li)
				key := "k"
				uploadID := ""
				var script []func(m *vmodel.Model) *vmodel.Op
				add := func(f func(m *vmodel.Model) *vmodel.Op) { script = append(script, f) }
				op := func(o vmodel.Op) { add(func(*vmodel.Model) *vmodel.Op { c := o; return &c }) }
				op(vmodel.Op{Kind: vmodel.OpCreateBucket, Bucket: b})
				if vers != "" {
					op(vmodel.Op{Kind: vmodel.OpVersioning, Bucket: b, Status: vers})
				}
				op(vmodel.Op{Kind: vmodel.OpMpuCreate, Bucket: b, Key: key})
				add(func(m *vmodel.Model) *vmodel.Op {
					for id := range m.Buckets[b].Uploads {
						uploadID = id
					}
					return &vmodel.Op{Kind: vmodel.OpMpuPart, Bucket: b, Key: key, UploadID: uploadID, PartNumber: 1, Body: rng.Bytes(700)}
				})
				add(func(*vmodel.Model) *vmodel.Op {
					return &vmodel.Op{Kind: vmodel.OpMpuPart, Bucket: b, Key: key, UploadID: uploadID, PartNumber: 2, Body: rng.Bytes(300)}
				})
				if finish == "complete" {
					add(func(*vmodel.Model) *vmodel.Op {
						return &vmodel.Op{Kind: vmodel.OpMpuComplete, Bucket: b, Key: key, UploadID: uploadID}
					})
				} else {
					add(func(*vmodel.Model) *vmodel.Op {
						return &vmodel.Op{Kind: vmodel.OpMpuAbort, Bucket: b, Key: key, UploadID: uploadID}
					})
					op(vmodel.Op{Kind: vmodel.OpPut, Bucket: b, Key: key, Body: rng.Bytes(500)})
				}
				stale := func(kind vmodel.OpKind, part int32) {
					add(func(*vmodel.Model) *vmodel.Op {
						o := &vmodel.Op{Kind: kind, Bucket: b, Key: key, UploadID: uploadID, Intent: "finished upload id"}
						if kind == vmodel.OpMpuPart {
							o.PartNumber, o.Body = part, rng.Bytes(700)
							o.BodyDesc = vkit.Brief(o.Body)
						}
						return o
					})
					op(vmodel.Op{Kind: vmodel.OpGet, Bucket: b, Key: key})
				}
				switch late {
				case "abort":
					stale(vmodel.OpMpuAbort, 0)
				case "part":
					stale(vmodel.OpMpuPart, 1)
				case "complete":
					stale(vmodel.OpMpuComplete, 0)
				case "part-then-complete":
					stale(vmodel.OpMpuPart, 2)
					stale(vmodel.OpMpuComplete, 0)
				}
				pos := 0
				h := vmodel.RunHistory(ctx, vmodel.HistoryConfig{
					Storage: s, Rand: rng, Profile: cfg.profile(), Steps: len(script) + 1, ReadbackVersions: false,
					InScope: func(d vmodel.Divergence) bool { return cfg.fields[d.Field] },
					Next: func(step int, m *vmodel.Model) *vmodel.Op {
						if pos >= len(script) {
							return nil
						}
						f := script[pos]
						pos++
						return f(m)
					},
				})
				r.Eval(fmt.Sprintf("stale-upload-script|%s|%s|%s|%s", stack, vers, finish, late))
				if os.Getenv("VERIF_DEBUG_SCRIPTS") != "" {
					fmt.Fprintln(os.Stderr, "SCRIPT", stack, vers, finish, late, h.Tail(14), "DIV", h.Divergences, "OOS", h.OutOfScope)
				}
				if len(h.Divergences) > 0 {
					d := h.Divergences[0]
					r.Violation(d.Sig+":finished-upload-id-script", d.What, map[string]any{"stack": stack, "versioning": vers, "upload_finished_by": finish, "late_call": late, "last_steps": h.Tail(14), "divergences": h.Divergences})
				}
				cleanup(ctx, s, h.Model)
			}
		}
	}
	r.Count("stale_upload_scripts", int64(n))
}
