package main

import (
	"context"
	"fmt"
	"time"

	"github.com/jdillenkofer/pithos/internal/storage"
	"github.com/jdillenkofer/pithos/internal/verif/vkit"
	"github.com/jdillenkofer/pithos/internal/verif/vmodel"
)

// ---------- C13: version stability monitor ----------

type verRecord struct {
	etag       string
	size       int64
	headLM     time.Time
	listLM     time.Time
	haveList   bool
	recordedAt string
	marker     bool
}

type stabilityMonitor struct {
	ctx  context.Context
	s    storage.Storage
	recs map[string]*verRecord // bucket/key/versionID#seq
}

func newStabilityMonitor(ctx context.Context, s storage.Storage) *stabilityMonitor {
	return &stabilityMonitor{ctx: ctx, s: s, recs: map[string]*verRecord{}}
}

func (sm *stabilityMonitor) hook(step int, op *vmodel.Op, res *vmodel.Result, m *vmodel.Model, applied bool) (divs []vmodel.Divergence) {
	b := m.Buckets[op.Bucket]
	if b == nil {
		return nil
	}
	bn := storage.MustNewBucketName(op.Bucket)
	for key, versions := range b.Keys {
		// the listing view of this key
		prefix := key
		listLM := map[string]time.Time{}
		if lr, err := sm.s.ListObjectVersions(sm.ctx, bn, storage.ListObjectVersionsOptions{Prefix: &prefix, MaxKeys: 1000}); err == nil {
			for _, v := range lr.Versions {
				if v.Key.String() == key {
					listLM[v.VersionID] = v.LastModified
				}
			}
		}
		for _, v := range versions {
			id := fmt.Sprintf("%s/%s/%s#%d", op.Bucket, key, v.ID, v.Seq)
			rec := sm.recs[id]
			var headLM time.Time
			var etag string
			var size int64
			if !v.Marker {
				vid := v.ID
				o, err := sm.s.HeadObject(sm.ctx, bn, storage.MustNewObjectKey(key), &storage.HeadObjectOptions{VersionID: &vid})
				if err != nil {
					continue // readability is decided by the version-content readback
				}
				headLM, etag, size = o.LastModified, o.ETag, o.Size
			}
			llm, haveList := listLM[v.ID]
			if rec == nil {
				sm.recs[id] = &verRecord{etag: etag, size: size, headLM: headLM, listLM: llm, haveList: haveList, recordedAt: fmt.Sprintf("step %d after %s", step, op.Kind), marker: v.Marker}
				continue
			}
			what := fmt.Sprintf("version %s of %s/%s (recorded at %s), now after step %d %s", v.ID, op.Bucket, key, rec.recordedAt, step, op)
			if !v.Marker {
				if !headLM.Equal(rec.headLM) {
					divs = append(divs, vmodel.Divergence{Field: "last-modified", Sig: "last-modified-changed:after-" + string(op.Kind), What: fmt.Sprintf("Head Last-Modified of %s changed %s -> %s", what, rec.headLM.Format(time.RFC3339Nano), headLM.Format(time.RFC3339Nano))})
					rec.headLM = headLM
				}
				if etag != rec.etag || size != rec.size {
					divs = append(divs, vmodel.Divergence{Field: "version-stability", Sig: "etag-or-size-changed:after-" + string(op.Kind), What: fmt.Sprintf("ETag/size of %s changed %s/%d -> %s/%d", what, rec.etag, rec.size, etag, size)})
					rec.etag, rec.size = etag, size
				}
			}
			if haveList && rec.haveList && !llm.Equal(rec.listLM) {
				kind := "object"
				if v.Marker {
					kind = "marker"
				}
				divs = append(divs, vmodel.Divergence{Field: "last-modified", Sig: "listed-last-modified-changed:" + kind + ":after-" + string(op.Kind), What: fmt.Sprintf("ListObjectVersions LastModified of %s changed %s -> %s", what, rec.listLM.Format(time.RFC3339Nano), llm.Format(time.RFC3339Nano))})
				rec.listLM = llm
			}
		}
	}
	return divs
}

// ---------- C14: placement monitor ----------

type placementMonitor struct {
	ctx   context.Context
	r     *vkit.Run
	env   *vkit.Env
	s     storage.Storage
	insp  *vmodel.Inspector
	class map[string]string // storage class -> store name
}

func newPlacementMonitor(ctx context.Context, r *vkit.Run, env *vkit.Env, s storage.Storage, stack string) *placementMonitor {
	pm := &placementMonitor{ctx: ctx, r: r, env: env, s: s}
	pm.class = vkit.NamedDefault.Classes
	if stack == "named2" {
		pm.class = map[string]string{"STANDARD_IA": "cold", "GLACIER": "enc", "ONEZONE_IA": "enc"}
	}
	insp, err := vmodel.OpenInspector(env.Dir)
	if err != nil {
		r.Inconclusive("cannot open inspector: " + err.Error())
		return pm
	}
	pm.insp = insp
	return pm
}

func (pm *placementMonitor) storeOf(class string) string {
	if n, ok := pm.class[class]; ok {
		return n
	}
	return "default"
}

func (pm *placementMonitor) hook(step int, op *vmodel.Op, res *vmodel.Result, m *vmodel.Model, applied bool) (divs []vmodel.Divergence) {
	if !applied || pm.insp == nil {
		return nil
	}
	switch op.Kind {
	case vmodel.OpTransition, vmodel.OpPut, vmodel.OpCopy, vmodel.OpMpuComplete, vmodel.OpAppend:
	default:
		return nil
	}
	b := m.Buckets[op.Bucket]
	if b == nil {
		return nil
	}
	held, err := vmodel.StorePartIDs(pm.ctx, pm.env.DB, pm.s)
	if err != nil {
		return []vmodel.Divergence{{Field: "placement", Sig: "store-listing-failed", What: err.Error()}}
	}
	// the affected version
	var v *vmodel.MVersion
	if op.VersionID != nil {
		v = b.Find(op.Key, *op.VersionID)
	} else {
		v = b.CurrentObject(op.Key)
	}
	if v == nil || v.Marker {
		return nil
	}
	parts, err := pm.insp.PartsOf(op.Bucket, op.Key, v.ID)
	if err != nil {
		return []vmodel.Divergence{{Field: "placement", Sig: "inspector-failed", What: err.Error()}}
	}
	if len(parts) == 0 && len(v.Content) > 0 {
		divs = append(divs, vmodel.Divergence{Field: "placement", Sig: "no-part-rows", What: fmt.Sprintf("after %s: version %s has no part rows", op, v.ID)})
	}
	want := pm.storeOf(v.Class)
	if op.Kind == vmodel.OpTransition {
		pm.r.Count("transitions_checked", 1)
	}
	pm.r.Count("placement_checks", 1)
	for _, p := range parts {
		// Only transitions and fresh writes (put/copy/complete) promise routing
		// of *all* parts; an append keeps the object's class and adds one part.
		if p.Store != want {
			divs = append(divs, vmodel.Divergence{Field: "placement", Sig: "part-in-wrong-store:after-" + string(op.Kind), What: fmt.Sprintf("after %s: class %s maps to store %q but part %s (seq %d) is recorded in store %q", op, v.Class, want, p.PartID, p.Seq, p.Store)})
			break
		}
		if !held[p.Store][p.PartID] {
			divs = append(divs, vmodel.Divergence{Field: "placement", Sig: "part-missing-from-store:after-" + string(op.Kind), What: fmt.Sprintf("after %s: part %s is recorded in store %q but that store does not hold it", op, p.PartID, p.Store)})
			break
		}
	}
	// every referenced part of every object must be held by its recorded store
	refs, err := pm.insp.AllPartRefs()
	if err == nil {
		for st, ids := range refs {
			for id := range ids {
				if !held[st][id] {
					divs = append(divs, vmodel.Divergence{Field: "placement", Sig: "referenced-part-missing:after-" + string(op.Kind), What: fmt.Sprintf("after %s: referenced part %s missing from store %q", op, id, st)})
					return divs
				}
			}
		}
	}
	return divs
}

// ---------- C04: multipart part-splitting generator ----------

func partSplittings(ctx context.Context, r *vkit.Run, s storage.Storage, stack string, rng *vkit.Rand) {
	n := r.N(25, 250)
	maxTotal := r.N(600*1024, 6<<20)
	bn := storage.MustNewBucketName("splits-bucket")
	if err := s.CreateBucket(ctx, bn); err != nil {
		r.Inconclusive("splits: create bucket: " + err.Error())
		return
	}
	for i := 0; i < n; i++ {
		total := rng.Intn(maxTotal + 1)
		if i%5 == 0 {
			total = rng.Intn(5000)
		}
		nparts := rng.Range(1, 6)
		if stack == "ecbig" {
			// parts larger than one 256 KiB stripe: the store reads them with full-stripe reads into a reused buffer
			total = rng.Range(300*1024, 2500*1024)
			nparts = rng.Range(1, 3)
			if i%4 == 0 {
				// and a plain PutObject of such a body with its Content-MD5 supplied
				body := rng.Bytes(rng.Range(300*1024, 1500*1024))
				ref := vmodel.RefChecksums(body)
				pk := storage.MustNewObjectKey(fmt.Sprintf("big-put-%d", i))
				pres, perr := s.PutObject(ctx, bn, pk, nil, bytesReader(body), &storage.ChecksumInput{ETag: &ref.ETag}, nil)
				r.Eval(fmt.Sprintf("big-put|%s|%s", stack, sizeClass(len(body))))
				if perr != nil {
					r.Violation("correct-content-md5-rejected:put", fmt.Sprintf("PutObject of %d bytes with its correct Content-MD5 failed: %v", len(body), perr), map[string]any{"stack": stack, "size": len(body), "case": i})
				} else if pres.ETag == nil || *pres.ETag != ref.ETag {
					r.Violation("etag-mismatch:put", fmt.Sprintf("PutObject of %d bytes returned ETag %v, MD5 is %s", len(body), vkit.Deref(pres.ETag), ref.ETag), map[string]any{"stack": stack, "size": len(body), "case": i})
				}
				_, _ = s.DeleteObject(ctx, bn, pk, nil)
			}
		}
		cuts := []int{0}
		for j := 1; j < nparts; j++ {
			cuts = append(cuts, rng.Intn(total+1))
		}
		cuts = append(cuts, total)
		sortInts(cuts)
		if i%6 == 1 && stack != "ecbig" {
			// parts whose sizes are exact multiples of the 256 KiB block of the parallel hasher
			// (the last block is then handed to the hash workers by Write, not by Flush), plus a
			// plain put of such a body with its Content-MD5 supplied
			const blk = 256 * 1024
			nparts = rng.Range(1, 3)
			cuts = []int{0}
			for j := 0; j < nparts; j++ {
				cuts = append(cuts, cuts[len(cuts)-1]+blk*rng.Range(1, 2))
			}
			total = cuts[len(cuts)-1]
			body := rng.Bytes(blk * rng.Range(1, 2))
			ref := vmodel.RefChecksums(body)
			pk := storage.MustNewObjectKey(fmt.Sprintf("block-multiple-put-%d", i))
			pres, perr := s.PutObject(ctx, bn, pk, nil, bytesReader(body), &storage.ChecksumInput{ETag: &ref.ETag}, nil)
			r.Eval(fmt.Sprintf("block-multiple-put|%s|%d", stack, len(body)))
			r.Count("puts_of_hash_block_multiples", 1)
			if perr != nil {
				r.Violation("correct-content-md5-rejected:put", fmt.Sprintf("PutObject of %d bytes (a multiple of the 256 KiB hash block) with its correct Content-MD5 failed: %v", len(body), perr), map[string]any{"stack": stack, "size": len(body), "case": i})
			} else if pres.ETag == nil || *pres.ETag != ref.ETag {
				r.Violation("etag-mismatch:put", fmt.Sprintf("PutObject of %d bytes (a multiple of the 256 KiB hash block) returned ETag %v, MD5 is %s", len(body), vkit.Deref(pres.ETag), ref.ETag), map[string]any{"stack": stack, "size": len(body), "case": i})
			}
			_, _ = s.DeleteObject(ctx, bn, pk, nil)
		}
		data := rng.Bytes(total)
		ctype := vkit.Pick(rng, []string{"FULL_OBJECT", "COMPOSITE", ""})
		key := storage.MustNewObjectKey(fmt.Sprintf("split-%d", i))
		var ct *string
		if ctype != "" {
			ct = &ctype
		}
		wit := map[string]any{"stack": stack, "total": total, "cuts": cuts, "checksum_type": ctype, "case": i}
		up, err := s.CreateMultipartUpload(ctx, bn, key, nil, ct, nil)
		if err != nil {
			r.Violation("splits-create-failed", err.Error(), wit)
			continue
		}
		m := vmodel.NewModel()
		_ = m
		mv := &vmodel.MVersion{Multipart: true, Content: data, CksumType: "FULL_OBJECT"}
		if ctype == "COMPOSITE" {
			mv.CksumType = "COMPOSITE"
		}
		bad := false
		var cparts []storage.CompleteMultipartUploadPart
		for j := 0; j+1 < len(cuts); j++ {
			chunk := data[cuts[j]:cuts[j+1]]
			ref := vmodel.RefChecksums(chunk)
			// duplicate upload of the same part number now and then (replacement + dedup)
			if rng.Chance(15) {
				_, _ = s.UploadPart(ctx, bn, key, up.UploadId, int32(j+1), bytesReader(rng.Bytes(rng.Intn(100))), nil)
			}
			pr, err := s.UploadPart(ctx, bn, key, up.UploadId, int32(j+1), bytesReader(chunk), nil)
			if err != nil {
				r.Violation("splits-upload-part-failed", err.Error(), wit)
				bad = true
				break
			}
			if pr.ETag != ref.ETag {
				r.Violation("etag-mismatch:upload-part", fmt.Sprintf("part %d ETag %s, MD5 %s", j+1, pr.ETag, ref.ETag), wit)
			}
			mv.Parts = append(mv.Parts, vmodel.MPart{Size: int64(len(chunk)), MD5: md5of(chunk)})
			cparts = append(cparts, storage.CompleteMultipartUploadPart{PartNumber: int32(j + 1), ETag: pr.ETag})
		}
		if bad {
			continue
		}
		full := vmodel.RefChecksums(data)
		// wrong FULL_OBJECT checksum must fail with BadDigest and leave the upload in place
		if mv.CksumType == "FULL_OBJECT" && rng.Chance(40) {
			wrong := flip(full.CRC32C)
			_, err := s.CompleteMultipartUpload(ctx, bn, key, up.UploadId, &storage.ChecksumInput{ChecksumCRC32C: &wrong}, &storage.CompleteMultipartUploadOptions{Parts: cparts})
			r.Count("splits_wrong_checksum_completes", 1)
			if vmodel.ErrKind(err) != "BadDigest" {
				r.Violation("wrong-checksum-accepted:complete", fmt.Sprintf("complete with wrong CRC32C returned %v", err), wit)
				continue
			}
		}
		var ci *storage.ChecksumInput
		if mv.CksumType == "FULL_OBJECT" && rng.Chance(50) {
			ci = &storage.ChecksumInput{ChecksumCRC64NVME: &full.CRC64NVME}
		}
		cr, err := s.CompleteMultipartUpload(ctx, bn, key, up.UploadId, ci, &storage.CompleteMultipartUploadOptions{Parts: cparts})
		r.Eval(fmt.Sprintf("split|%s|n=%d|size=%s|%s", stack, len(mv.Parts), sizeClass(total), ctype))
		if err != nil {
			r.Violation("splits-complete-failed", err.Error(), wit)
			continue
		}
		if cr.ETag != mv.ETag() {
			r.Violation("etag-mismatch:mpu-complete", fmt.Sprintf("complete ETag %s, reference %s", cr.ETag, mv.ETag()), wit)
		}
		if mv.CksumType == "FULL_OBJECT" {
			chk := func(n string, g *string, w string) {
				if g == nil {
					r.Count("splits_full_object_checksum_absent:"+n, 1)
					return
				}
				if *g != w {
					r.Violation("checksum-mismatch:complete:"+n, fmt.Sprintf("FULL_OBJECT %s %s, reference %s", n, *g, w), wit)
				}
			}
			chk("crc32", cr.ChecksumCRC32, full.CRC32)
			chk("crc32c", cr.ChecksumCRC32C, full.CRC32C)
			chk("crc64nvme", cr.ChecksumCRC64NVME, full.CRC64NVME)
		}
		o, err := s.HeadObject(ctx, bn, key, nil)
		if err != nil {
			r.Violation("splits-head-failed", err.Error(), wit)
			continue
		}
		if o.ETag != mv.ETag() || o.Size != int64(total) {
			r.Violation("etag-mismatch:read", fmt.Sprintf("head ETag %s size %d, reference %s size %d", o.ETag, o.Size, mv.ETag(), total), wit)
		}
		if mv.CksumType == "FULL_OBJECT" {
			for n, p := range map[string][2]*string{"crc32": {o.ChecksumCRC32, &full.CRC32}, "crc32c": {o.ChecksumCRC32C, &full.CRC32C}, "crc64nvme": {o.ChecksumCRC64NVME, &full.CRC64NVME}} {
				if p[0] != nil && *p[0] != *p[1] {
					r.Violation("checksum-mismatch:read:"+n, fmt.Sprintf("head %s %s, reference %s", n, *p[0], *p[1]), wit)
				}
			}
		}
		// CopyObject must preserve ETag/part structure; UploadPartCopy of a whole part reuses stored checksums
		ck := storage.MustNewObjectKey(fmt.Sprintf("split-%d-copy", i))
		cres, err := s.CopyObject(ctx, bn, key, bn, ck, nil)
		if err != nil {
			r.Violation("splits-copy-failed", err.Error(), wit)
		} else if cres.ETag != mv.ETag() {
			r.Violation("etag-mismatch:copy", fmt.Sprintf("copy ETag %s, reference %s", cres.ETag, mv.ETag()), wit)
		}
		_, _ = s.DeleteObject(ctx, bn, ck, nil)
		_, _ = s.DeleteObject(ctx, bn, key, nil)
		if i < 2 {
			r.Sample(wit)
		}
	}
	_ = s.DeleteBucket(ctx, bn)
}
