// Engine "modelhist": generated sequential histories executed in lock-step
// with the S3 reference model (vmodel) against real metadata-part storages.
package main

import (
	"flag"
	"fmt"
	"os"
)

func main() {
	prop := flag.String("prop", "", "property id")
	tier := flag.String("tier", "", "quick|thorough")
	replay := flag.String("replay", "", "replay file")
	flag.Parse()
	switch *prop {
	case "C01", "C02", "C04", "C11", "C13", "C14":
		runModelProp(*prop, *tier, *replay)
	default:
		fmt.Fprintln(os.Stderr, "engine modelhist: unknown property", *prop)
		os.Exit(3)
	}
}
