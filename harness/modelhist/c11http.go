package main

// C11, HTTP part: the generated histories of this engine drive storage.Storage
// directly, so the translation "request headers -> storage options" done by the
// HTTP handlers (putObjectHandler, createMultipartUploadHandler,
// copyObjectHandler, parseObjectMetadataHeaders, parseStorageClassHeader) is not
// on their path. This part builds the real handler chain (server.SetupServer,
// authentication disabled, allow-all authorizer) over the storage the engine has
// already opened for the stack and sends PRNG-generated header combinations to
// PutObject, CreateMultipartUpload(+UploadPart+Complete) and CopyObject in an
// unversioned and a versioning-enabled bucket. After every write the key is read
// back over HTTP (HEAD, GET ?tagging, ListObjectsV2) and compared with the
// expectation computed from the request headers by the write semantics of the
// statement; the storage API (HeadObject / GetObjectTagging) is read as well so
// that a divergence can be attributed to the read path, the handler or the layer
// below it.
//
// Asserted (what the statement says): replace-all / cleared-when-absent for put
// and complete; copy/replace by directive for copy; redirect never copied; class
// only from the request (STANDARD when absent; "header absent" == "STANDARD").
// Observed and counted only (statement silent): how repeated x-amz-meta-* headers
// combine, what happens to empty metadata values, case of stored metadata keys,
// whether a redirect supplied together with metadata-directive COPY is applied.
// Requests the server rejects must leave the key as it was.

import (
	"bytes"
	"context"
	"encoding/xml"
	"fmt"
	"io"
	"net/http"
	"net/http/httptest"
	"net/url"
	"sort"
	"strings"
	"time"

	"github.com/jdillenkofer/pithos/internal/http/server"
	"github.com/jdillenkofer/pithos/internal/http/server/authorization"
	"github.com/jdillenkofer/pithos/internal/storage"
	"github.com/jdillenkofer/pithos/internal/verif/vkit"
	"github.com/jdillenkofer/pithos/internal/verif/vmodel"
)

// httpReplayIndex is the "history_index" written into witnesses of this part:
// on -replay it matches no generated history, so only this part is re-run.
const httpReplayIndex = 1 << 30

const hcHost = "s3.test"

type hcAllowAll struct{}

func (hcAllowAll) AuthorizeRequest(ctx context.Context, request *authorization.Request) (bool, error) {
	return true, nil
}

type hcResp struct {
	Status int
	Header http.Header
	Body   []byte
}

// hcServe runs one request through the real handler chain. Header names are
// canonicalised exactly as net/http's server does when it reads a request
// (callers build hdr with Header.Add), so the handler sees what it would see on
// the wire.
func hcServe(h http.Handler, method, path, rawQuery string, hdr http.Header, body []byte) *hcResp {
	u := &url.URL{Path: path, RawQuery: rawQuery}
	target := u.RequestURI()
	var rd io.Reader = http.NoBody
	if body != nil {
		rd = bytes.NewReader(body)
	}
	req, err := http.NewRequestWithContext(context.Background(), method, "http://"+hcHost+target, rd)
	if err != nil {
		return &hcResp{Status: -1, Body: []byte(err.Error())}
	}
	req.RequestURI = target
	req.Host = hcHost
	req.RemoteAddr = "192.0.2.1:1234"
	for k, v := range hdr {
		req.Header[k] = append([]string{}, v...)
	}
	rec := httptest.NewRecorder()
	h.ServeHTTP(rec, req)
	res := rec.Result()
	b, _ := io.ReadAll(res.Body)
	return &hcResp{Status: res.StatusCode, Header: res.Header, Body: b}
}

// ---- header kinds -----------------------------------------------------------

const (
	hkContentType = iota
	hkCacheControl
	hkContentDisposition
	hkContentEncoding
	hkContentLanguage
	hkExpires
	hkRedirect
	hkUserMeta
	hkTagging
	hkClass
	hkN
)

var hkName = [hkN]string{"content-type", "cache-control", "content-disposition", "content-encoding", "content-language", "expires", "website-redirect", "user-metadata", "tagging", "storage-class"}

// the six system headers, by kind, as lower-case header names
var hkSysHeader = map[int]string{
	hkCacheControl: "cache-control", hkContentDisposition: "content-disposition", hkContentEncoding: "content-encoding",
	hkContentLanguage: "content-language", hkExpires: "expires", hkRedirect: "x-amz-website-redirect-location",
}

const hcRedirectHeader = "x-amz-website-redirect-location"

var hcClasses = vmodel.AllClasses

// ---- observed / tracked object state ---------------------------------------

type hcState struct {
	ContentType string            `json:"content_type"`
	Sys         map[string]string `json:"system_headers"`
	Meta        map[string]string `json:"user_metadata"`
	Tags        map[string]string `json:"tags"`
	TagCount    int               `json:"tagging_count_header"`
	Class       string            `json:"head_storage_class"`
	ListClass   string            `json:"list_storage_class"`
	ETag        string            `json:"etag"` // not asserted; used for If-Match on later puts
}

func hcNormClass(c string) string {
	if c == "" {
		return "STANDARD"
	}
	return c
}

func hcMapString(m map[string]string) string {
	if len(m) == 0 {
		return ""
	}
	ks := make([]string, 0, len(m))
	for k := range m {
		ks = append(ks, k)
	}
	sort.Strings(ks)
	var b strings.Builder
	for _, k := range ks {
		fmt.Fprintf(&b, "%q=%q;", k, m[k])
	}
	return b.String()
}

func hcCloneMap(m map[string]string) map[string]string {
	c := map[string]string{}
	for k, v := range m {
		c[k] = v
	}
	return c
}

type hcTagging struct {
	XMLName xml.Name `xml:"Tagging"`
	TagSet  []struct {
		Key   string `xml:"Key"`
		Value string `xml:"Value"`
	} `xml:"TagSet>Tag"`
}

type hcListV2 struct {
	XMLName  xml.Name `xml:"ListBucketResult"`
	Contents []struct {
		Key          string `xml:"Key"`
		StorageClass string `xml:"StorageClass"`
	} `xml:"Contents"`
}

// hcReadHTTP reads the API-visible C11 attributes of the current object of a key
// over HTTP. nil state + "" = the key has no current object (HEAD 404).
func hcReadHTTP(h http.Handler, bucket, key string) (*hcState, string) {
	path := "/" + bucket + "/" + key
	hd := hcServe(h, http.MethodHead, path, "", nil, nil)
	if hd.Status == http.StatusNotFound {
		return nil, ""
	}
	if hd.Status != http.StatusOK {
		return nil, fmt.Sprintf("HEAD %s -> %d", path, hd.Status)
	}
	st := &hcState{Sys: map[string]string{}, Meta: map[string]string{}, Tags: map[string]string{}}
	for name, vals := range hd.Header {
		lower := strings.ToLower(name)
		v := strings.Join(vals, ",")
		switch {
		case lower == "content-type":
			st.ContentType = v
		case strings.HasPrefix(lower, "x-amz-meta-"):
			st.Meta[strings.TrimPrefix(lower, "x-amz-meta-")] = v
		case lower == "x-amz-storage-class":
			st.Class = v
		case lower == "etag":
			st.ETag = v
		case lower == "x-amz-tagging-count":
			fmt.Sscanf(v, "%d", &st.TagCount)
		default:
			for _, sys := range hkSysHeader {
				if lower == sys {
					st.Sys[sys] = v
				}
			}
		}
	}
	st.Class = hcNormClass(st.Class)
	tg := hcServe(h, http.MethodGet, path, "tagging", nil, nil)
	if tg.Status != http.StatusOK {
		return nil, fmt.Sprintf("GET %s?tagging -> %d", path, tg.Status)
	}
	var t hcTagging
	if err := xml.Unmarshal(tg.Body, &t); err != nil {
		return nil, "GET ?tagging: unparsable XML: " + err.Error()
	}
	for _, e := range t.TagSet {
		if _, dup := st.Tags[e.Key]; dup {
			return nil, "GET ?tagging: duplicate tag key " + e.Key
		}
		st.Tags[e.Key] = e.Value
	}
	q := url.Values{"list-type": {"2"}, "prefix": {key}}
	ls := hcServe(h, http.MethodGet, "/"+bucket, q.Encode(), nil, nil)
	if ls.Status != http.StatusOK {
		return nil, fmt.Sprintf("GET /%s?list-type=2 -> %d", bucket, ls.Status)
	}
	var l hcListV2
	if err := xml.Unmarshal(ls.Body, &l); err != nil {
		return nil, "ListObjectsV2: unparsable XML: " + err.Error()
	}
	found := false
	for _, c := range l.Contents {
		if c.Key == key {
			st.ListClass, found = hcNormClass(c.StorageClass), true
		}
	}
	if !found {
		return nil, "ListObjectsV2 does not list the key that HEAD finds"
	}
	return st, ""
}

// hcReadStorage reads the same attributes through the storage API.
func hcReadStorage(ctx context.Context, s storage.Storage, bucket, key string) (*hcState, string) {
	bn, k := storage.MustNewBucketName(bucket), storage.MustNewObjectKey(key)
	o, err := s.HeadObject(ctx, bn, k, nil)
	if err != nil {
		return nil, err.Error()
	}
	st := &hcState{Sys: map[string]string{}, Meta: map[string]string{}, Tags: map[string]string{}}
	if o.ContentType != nil {
		st.ContentType = *o.ContentType
	}
	put := func(name string, p *string) {
		if p != nil {
			st.Sys[name] = *p
		}
	}
	put("cache-control", o.Metadata.CacheControl)
	put("content-disposition", o.Metadata.ContentDisposition)
	put("content-encoding", o.Metadata.ContentEncoding)
	put("content-language", o.Metadata.ContentLanguage)
	put("expires", o.Metadata.Expires)
	put(hcRedirectHeader, o.Metadata.WebsiteRedirectLocation)
	for mk, mv := range o.Metadata.UserMetadata {
		st.Meta[mk] = mv
	}
	st.TagCount = len(o.Tags)
	st.Class = storage.EffectiveStorageClass(o.StorageClass)
	st.ListClass = st.Class
	tags, err := s.GetObjectTagging(ctx, bn, k, nil)
	if err != nil {
		return nil, "GetObjectTagging: " + err.Error()
	}
	for tk, tv := range tags {
		st.Tags[tk] = tv
	}
	return st, ""
}

// ---- request generation ------------------------------------------------------

// hcReqVals is what the generator put on the request, in raw (un-encoded) form.
type hcReqVals struct {
	ContentType string              `json:"content_type,omitempty"`
	Sys         map[string]string   `json:"system_headers,omitempty"`
	Meta        map[string][]string `json:"user_metadata_by_lowercase_key,omitempty"` // values in the order sent
	TagsSent    bool                `json:"tagging_header_sent"`
	Tags        map[string]string   `json:"tags,omitempty"`
	Class       string              `json:"storage_class,omitempty"`
}

var hcMetaBases = []string{"owner", "build-id", "foobar", "x", "a.b", "k_1", "upper-case-key", "q9"}

func hcMixCase(r *vkit.Rand, s string) string {
	switch r.Intn(4) {
	case 0:
		return s
	case 1:
		return strings.ToUpper(s)
	case 2:
		return strings.ToUpper(s[:1]) + s[1:]
	}
	b := []byte(s)
	for i := range b {
		if r.Bool() && b[i] >= 'a' && b[i] <= 'z' {
			b[i] -= 32
		}
	}
	return string(b)
}

const hcMetaValueChars = "abcXYZ019 ,=;/:._-+()[]\"'"
const hcTagChars = "abcXYZ019 +-=._:/@"

func hcWord(r *vkit.Rand, alphabet string, lo, hi int) string {
	n := r.Range(lo, hi)
	rs := []rune(alphabet)
	out := make([]rune, n)
	for i := range out {
		out[i] = rs[r.Intn(len(rs))]
	}
	return strings.TrimSpace(string(out))
}

// hcBuildHeaders renders the header kinds in mask into request headers. rich
// selects the full value space (repeats, empty values, 0..10 tags, STANDARD as an
// explicit class); the enumerated pair/triple cases use rich=false so that every
// selected kind carries a discriminating non-empty value.
func hcBuildHeaders(r *vkit.Rand, idx int, mask int, rich bool) (http.Header, *hcReqVals) {
	h := http.Header{}
	v := &hcReqVals{Sys: map[string]string{}, Meta: map[string][]string{}}
	has := func(k int) bool { return mask&(1<<k) != 0 }
	if has(hkContentType) {
		v.ContentType = vkit.Pick(r, []string{"text/plain; charset=utf-8", fmt.Sprintf("application/x-c11-%d", idx), "image/png", fmt.Sprintf("text/x-%d+xml", idx)})
		h.Add("Content-Type", v.ContentType)
	}
	setSys := func(kind int, val string) {
		v.Sys[hkSysHeader[kind]] = val
		h.Add(hkSysHeader[kind], val)
	}
	if has(hkCacheControl) {
		setSys(hkCacheControl, vkit.Pick(r, []string{fmt.Sprintf("max-age=%d", idx), fmt.Sprintf("no-cache, private, max-age=%d", idx), fmt.Sprintf("public, s-maxage=%d", idx)}))
	}
	if has(hkContentDisposition) {
		setSys(hkContentDisposition, vkit.Pick(r, []string{fmt.Sprintf(`attachment; filename="f%d.bin"`, idx), fmt.Sprintf("inline; filename*=UTF-8''na%%C3%%AFve-%d.txt", idx)}))
	}
	if has(hkContentEncoding) {
		setSys(hkContentEncoding, vkit.Pick(r, []string{"gzip", "br", "identity", fmt.Sprintf("x-enc%d", idx), fmt.Sprintf("deflate, x-enc%d", idx)}))
	}
	if has(hkContentLanguage) {
		setSys(hkContentLanguage, vkit.Pick(r, []string{"en-US", "de", fmt.Sprintf("x-l%d", idx), fmt.Sprintf("de-CH, x-l%d", idx)}))
	}
	if has(hkExpires) {
		if r.Chance(60) {
			setSys(hkExpires, time.Date(2040+idx%50, time.Month(1+idx%12), 1+idx%28, idx%24, idx%60, 0, 0, time.UTC).Format(http.TimeFormat))
		} else {
			setSys(hkExpires, vkit.Pick(r, []string{"0", "-1", fmt.Sprintf("never-%d", idx), fmt.Sprintf("2099-01-02T03:04:%02dZ", idx%60)}))
		}
	}
	if has(hkRedirect) {
		setSys(hkRedirect, vkit.Pick(r, []string{fmt.Sprintf("/redir/%d.html", idx), fmt.Sprintf("https://example.com/r/%d?x=1&y=2", idx)}))
	}
	if has(hkUserMeta) {
		nk := 1
		if rich {
			nk = r.Range(1, 4)
		}
		bases := append([]string{}, hcMetaBases...)
		vkit.Shuffle(r, bases)
		for i := 0; i < nk; i++ {
			base := bases[i]
			reps := 1
			if rich {
				switch x := r.Intn(10); {
				case x >= 9:
					reps = 3
				case x >= 7:
					reps = 2
				}
			}
			for j := 0; j < reps; j++ {
				val := fmt.Sprintf("m%d.%d.%d %s", idx, i, j, hcWord(r, hcMetaValueChars, 0, 12))
				val = strings.TrimSpace(val)
				if rich && r.Chance(10) {
					val = ""
				}
				name := "x-amz-meta-" + base
				if rich || r.Bool() {
					name = hcMixCase(r, "x-amz-meta-") + hcMixCase(r, base)
				}
				h.Add(name, val) // canonicalised like net/http's request reader does
				v.Meta[base] = append(v.Meta[base], val)
			}
		}
	}
	if has(hkTagging) {
		v.TagsSent = true
		v.Tags = map[string]string{}
		n := r.Range(1, 3)
		if rich {
			n = r.Range(1, 10)
			if r.Chance(8) {
				n = 0
			}
		}
		var parts []string
		for i := 0; i < n; i++ {
			k := fmt.Sprintf("t%d-%d%s", idx, i, hcWord(r, hcTagChars, 0, 6))
			if rich && r.Chance(15) {
				k += "é ü"
			}
			val := hcWord(r, hcTagChars, 1, 14)
			if rich && r.Chance(15) {
				val = ""
			}
			v.Tags[k] = val
			ek, ev := url.QueryEscape(k), url.QueryEscape(val)
			if r.Bool() {
				ek, ev = strings.ReplaceAll(ek, "+", "%20"), strings.ReplaceAll(ev, "+", "%20")
			}
			parts = append(parts, ek+"="+ev)
		}
		h.Add("x-amz-tagging", strings.Join(parts, "&"))
	}
	if has(hkClass) {
		cls := hcClasses[1:] // non-STANDARD
		if rich && r.Chance(15) {
			cls = hcClasses[:1]
		}
		v.Class = vkit.Pick(r, cls)
		h.Add("x-amz-storage-class", v.Class)
	}
	return h, v
}

// hcMakeInvalid turns a request into one the server must refuse (or, if it does
// not, whose effect is only observed). Returns the reason.
func hcMakeInvalid(r *vkit.Rand, c *hcCase, h http.Header) string {
	kinds := []string{"storage-class-unknown", "tagging-11-tags", "tagging-duplicate-key", "tagging-bad-escape", "tagging-key-too-long", "user-metadata-over-2KiB"}
	if c.Op == hcOpCopy {
		kinds = append(kinds, "metadata-directive-unknown", "tagging-directive-unknown")
	}
	kind := vkit.Pick(r, kinds)
	switch kind {
	case "storage-class-unknown":
		h.Set("x-amz-storage-class", fmt.Sprintf("COLD_%d", c.Idx))
	case "tagging-11-tags":
		var p []string
		for i := 0; i < 11; i++ {
			p = append(p, fmt.Sprintf("k%d=v", i))
		}
		h.Set("x-amz-tagging", strings.Join(p, "&"))
	case "tagging-duplicate-key":
		h.Set("x-amz-tagging", "a=1&b=2&a=3")
	case "tagging-bad-escape":
		h.Set("x-amz-tagging", "a=%zz")
	case "tagging-key-too-long":
		h.Set("x-amz-tagging", strings.Repeat("k", 129)+"=v")
	case "user-metadata-over-2KiB":
		h.Set("x-amz-meta-big", strings.Repeat("x", 2100))
	case "metadata-directive-unknown":
		c.MD = "MERGE"
	case "tagging-directive-unknown":
		c.TD = "KEEP"
	}
	if c.Op == hcOpCopy {
		// tags / metadata on a copy only matter under REPLACE; keep the refusal unambiguous
		if strings.HasPrefix(kind, "tagging-") && kind != "tagging-directive-unknown" {
			c.TD = "REPLACE"
		}
		if kind == "user-metadata-over-2KiB" {
			c.MD = "REPLACE"
		}
	}
	return kind
}

const (
	hcOpPut  = "put-object"
	hcOpMpu  = "create-multipart"
	hcOpCopy = "copy-object"
)

type hcCase struct {
	Idx       int    `json:"case_index"`
	Op        string `json:"op"`
	Gen       string `json:"generator"`
	Bucket    string `json:"bucket"`
	Versioned bool   `json:"bucket_versioning_enabled"`
	Key       string `json:"key"`
	Mask      int    `json:"header_kind_mask"`
	Rich      bool   `json:"rich_values"`
	Invalid   string `json:"invalid,omitempty"`
	MD        string `json:"metadata_directive,omitempty"`
	TD        string `json:"tagging_directive,omitempty"`
	SrcBucket string `json:"src_bucket,omitempty"`
	SrcKey    string `json:"src_key,omitempty"`
	Interlope bool   `json:"put_between_create_and_complete,omitempty"`
	Cond      bool   `json:"with_satisfied_precondition,omitempty"` // If-Match: <current ETag> / If-None-Match: * (put, complete)
}

func hcMaskKinds(mask int) []string {
	var out []string
	for k := 0; k < hkN; k++ {
		if mask&(1<<k) != 0 {
			out = append(out, hkName[k])
		}
	}
	return out
}

// ---- expectation ---------------------------------------------------------------

type hcExpect struct {
	Absent          bool                `json:"no_current_object,omitempty"`
	ContentType     string              `json:"content_type"`
	Sys             map[string]string   `json:"system_headers"`
	RedirectAllowed []string            `json:"redirect_allowed_values,omitempty"` // statement silent: any of these
	MetaExact       map[string]string   `json:"user_metadata_exact"`
	MetaLoose       map[string][]string `json:"user_metadata_observed_only,omitempty"` // repeated / empty-valued keys
	Tags            map[string]string   `json:"tags"`
	Class           string              `json:"storage_class"`
}

func hcExpectFromState(st *hcState) *hcExpect {
	if st == nil {
		return &hcExpect{Absent: true}
	}
	return &hcExpect{ContentType: st.ContentType, Sys: hcCloneMap(st.Sys), MetaExact: hcCloneMap(st.Meta), Tags: hcCloneMap(st.Tags), Class: st.Class}
}

func hcMetaExpect(v *hcReqVals, e *hcExpect) {
	e.MetaExact = map[string]string{}
	for k, vals := range v.Meta {
		if len(vals) == 1 && vals[0] != "" {
			e.MetaExact[k] = vals[0]
			continue
		}
		if e.MetaLoose == nil {
			e.MetaLoose = map[string][]string{}
		}
		e.MetaLoose[k] = vals
	}
}

// hcExpectation applies the write semantics of the statement to the request.
func hcExpectation(c *hcCase, v *hcReqVals, src *hcState) *hcExpect {
	e := &hcExpect{Sys: map[string]string{}, MetaExact: map[string]string{}, Tags: map[string]string{}}
	e.Class = hcNormClass(v.Class) // put, complete and copy: only from the request
	replaceMeta, replaceTags := true, true
	if c.Op == hcOpCopy {
		replaceMeta, replaceTags = c.MD == "REPLACE", c.TD == "REPLACE"
	}
	if replaceMeta {
		e.ContentType = v.ContentType
		e.Sys = hcCloneMap(v.Sys)
		hcMetaExpect(v, e)
	} else {
		e.ContentType = src.ContentType
		e.Sys = hcCloneMap(src.Sys)
		delete(e.Sys, hcRedirectHeader) // never copied
		e.RedirectAllowed = []string{""}
		if rv, ok := v.Sys[hcRedirectHeader]; ok {
			e.RedirectAllowed = append(e.RedirectAllowed, rv)
		}
		e.MetaExact = hcCloneMap(src.Meta)
	}
	if replaceTags {
		e.Tags = hcCloneMap(v.Tags)
	} else {
		e.Tags = hcCloneMap(src.Tags)
	}
	return e
}

type hcDiff struct {
	Field    string `json:"field"`
	How      string `json:"how"`
	Expected string `json:"expected"`
	Observed string `json:"observed"`
	Layer    string `json:"layer,omitempty"`
}

// hcClassify names the way a field is wrong from where the observed value comes from.
func hcClassify(exp, obs string, prev, src *string, req string) string {
	is := func(p *string) bool { return p != nil && *p != "" && *p == obs }
	switch {
	case exp != "" && obs == "":
		return "lost"
	case exp == "":
		if is(src) {
			return "copied-from-source"
		}
		if is(prev) {
			return "stale-not-cleared"
		}
		if req != "" && obs == req {
			return "taken-from-request"
		}
		return "unexpected-value"
	}
	if is(src) {
		return "taken-from-source"
	}
	if req != "" && obs == req {
		return "taken-from-request"
	}
	if is(prev) {
		return "stale-not-replaced"
	}
	return "wrong-value"
}

func hcStdEmpty(c string) string {
	if c == "STANDARD" {
		return ""
	}
	return c
}

// hcCompare returns the asserted differences between expectation and HTTP read-back.
func hcCompare(r *vkit.Run, c *hcCase, e *hcExpect, obs, prev, src *hcState, v *hcReqVals) []hcDiff {
	var out []hcDiff
	if e.Absent {
		if obs != nil {
			out = append(out, hcDiff{Field: "existence", How: "object-created", Expected: "no current object", Observed: "object present"})
		}
		return out
	}
	if obs == nil {
		return []hcDiff{{Field: "existence", How: "object-missing", Expected: "object present", Observed: "HEAD 404"}}
	}
	ptr := func(st *hcState, f func(*hcState) string) *string {
		if st == nil {
			return nil
		}
		s := f(st)
		return &s
	}
	cmp := func(field, exp string, get func(*hcState) string, req string) {
		o := get(obs)
		if o == exp {
			return
		}
		out = append(out, hcDiff{Field: field, How: hcClassify(exp, o, ptr(prev, get), ptr(src, get), req), Expected: exp, Observed: o})
	}
	cmp("content-type", e.ContentType, func(s *hcState) string { return s.ContentType }, v.ContentType)
	for kind := hkCacheControl; kind <= hkRedirect; kind++ {
		name := hkSysHeader[kind]
		get := func(s *hcState) string { return s.Sys[name] }
		if kind == hkRedirect && e.RedirectAllowed != nil {
			o := get(obs)
			ok := false
			for _, a := range e.RedirectAllowed {
				ok = ok || a == o
			}
			if len(e.RedirectAllowed) > 1 && ok {
				if o == "" {
					r.Count("http_observed:copy-directive-COPY:redirect-on-request:not-applied", 1)
				} else {
					r.Count("http_observed:copy-directive-COPY:redirect-on-request:applied", 1)
				}
			}
			if !ok {
				out = append(out, hcDiff{Field: hkName[kind], How: hcClassify("", o, ptr(prev, get), ptr(src, get), v.Sys[name]), Expected: "one of " + fmt.Sprintf("%q", e.RedirectAllowed), Observed: o})
			}
			continue
		}
		cmp(hkName[kind], e.Sys[name], get, v.Sys[name])
	}
	// user metadata: exact keys exactly; repeated / empty-valued keys are observed
	om := hcCloneMap(obs.Meta)
	for k, vals := range e.MetaLoose {
		got, present := om[k]
		delete(om, k)
		nonEmpty := false
		for _, x := range vals {
			nonEmpty = nonEmpty || x != ""
		}
		switch {
		case len(vals) == 1: // single empty value
			if present {
				r.Count("http_observed:user-metadata:empty-value:key-kept", 1)
			} else {
				r.Count("http_observed:user-metadata:empty-value:key-dropped", 1)
			}
		case !present && nonEmpty:
			out = append(out, hcDiff{Field: "user-metadata", How: "repeated-key-lost", Expected: fmt.Sprintf("key %q present (values sent: %q)", k, vals), Observed: hcMapString(obs.Meta)})
		case present && got == strings.Join(vals, ","):
			r.Count("http_observed:user-metadata:repeated-key:comma-joined-in-order", 1)
		case present:
			r.Count("http_observed:user-metadata:repeated-key:other-combination", 1)
			if r.SeenCount("http_repeated_key_other_forms") < 10 {
				r.Seen("http_repeated_key_other_forms", fmt.Sprintf("%q -> %q", vals, got))
			}
		}
	}
	if hcMapString(om) != hcMapString(e.MetaExact) {
		restrict := func(s *hcState) string {
			m := hcCloneMap(s.Meta)
			if s == obs {
				m = om
			}
			return hcMapString(m)
		}
		reqExact := map[string]string{}
		for k, vals := range v.Meta {
			if len(vals) == 1 {
				reqExact[k] = vals[0]
			}
		}
		out = append(out, hcDiff{Field: "user-metadata", How: hcClassify(hcMapString(e.MetaExact), hcMapString(om), ptr(prev, restrict), ptr(src, restrict), hcMapString(reqExact)), Expected: hcMapString(e.MetaExact), Observed: hcMapString(om)})
	}
	cmp("tagging", hcMapString(e.Tags), func(s *hcState) string { return hcMapString(s.Tags) }, hcMapString(v.Tags))
	if obs.TagCount != len(e.Tags) {
		out = append(out, hcDiff{Field: "tagging-count", How: "wrong-value", Expected: fmt.Sprint(len(e.Tags)), Observed: fmt.Sprint(obs.TagCount)})
	}
	cmp("storage-class", hcStdEmpty(e.Class), func(s *hcState) string { return hcStdEmpty(s.Class) }, hcStdEmpty(v.Class))
	cmp("list-storage-class", hcStdEmpty(e.Class), func(s *hcState) string { return hcStdEmpty(s.ListClass) }, hcStdEmpty(v.Class))
	return out
}

// hcFieldOf reads one asserted field of a state in the representation of hcCompare.
func hcFieldOf(st *hcState, field string) string {
	if st == nil {
		return "<no object>"
	}
	switch field {
	case "content-type":
		return st.ContentType
	case "user-metadata":
		return hcMapString(st.Meta)
	case "tagging":
		return hcMapString(st.Tags)
	case "tagging-count":
		return fmt.Sprint(st.TagCount)
	case "storage-class":
		return hcStdEmpty(st.Class)
	case "list-storage-class":
		return hcStdEmpty(st.ListClass)
	case "existence":
		return "object present"
	}
	for kind, name := range hkSysHeader {
		if hkName[kind] == field {
			return st.Sys[name]
		}
	}
	return ""
}

// ---- the run ---------------------------------------------------------------------

type hcFailure struct {
	c       *hcCase
	d       hcDiff
	tokens  map[string]bool // request header kinds + directives
	witness map[string]any
}

type hcRunner struct {
	ctx    context.Context
	r      *vkit.Run
	s      storage.Storage
	h      http.Handler
	stack  string
	label  string
	states map[string]*hcState // bucket + "\x00" + key -> state of the current object
	fails  []*hcFailure
	nReq   int
}

func hcSK(b, k string) string { return b + "\x00" + k }

func (x *hcRunner) serve(method, path, q string, hdr http.Header, body []byte) *hcResp {
	x.nReq++
	return hcServe(x.h, method, path, q, hdr, body)
}

type hcInitiate struct {
	UploadID string `xml:"UploadId"`
}

// write performs the write of one case over HTTP; status is the status of the
// request that carried the generated headers (or of a later multipart step when
// that one failed).
func (x *hcRunner) write(c *hcCase, hdr, completeHdr http.Header, rng *vkit.Rand) (status int, step string, body string) {
	path := "/" + c.Bucket + "/" + c.Key
	switch c.Op {
	case hcOpPut:
		res := x.serve(http.MethodPut, path, "", hdr, rng.Bytes(rng.Range(1, 200)))
		return res.Status, "PutObject", string(res.Body)
	case hcOpCopy:
		h := hdr.Clone()
		src := "/" + c.SrcBucket + "/" + url.PathEscape(c.SrcKey)
		if rng.Bool() {
			src = src[1:]
		}
		h.Set("x-amz-copy-source", src)
		if c.MD != "" {
			h.Set("x-amz-metadata-directive", c.MD)
		}
		if c.TD != "" {
			h.Set("x-amz-tagging-directive", c.TD)
		}
		for k, v := range h {
			hdr[k] = v // the witness shows the full request
		}
		res := x.serve(http.MethodPut, path, "", h, nil)
		return res.Status, "CopyObject", string(res.Body)
	}
	res := x.serve(http.MethodPost, path, "uploads", hdr, nil)
	if res.Status != http.StatusOK {
		return res.Status, "CreateMultipartUpload", string(res.Body)
	}
	var ini hcInitiate
	if err := xml.Unmarshal(res.Body, &ini); err != nil || ini.UploadID == "" {
		return -1, "CreateMultipartUpload", "no UploadId in " + string(res.Body)
	}
	if c.Interlope {
		// a plain put with other attributes lands on the key while the upload is open;
		// Complete must replace all of them with the upload's
		ih, _ := hcBuildHeaders(rng.Fork("interloper"), c.Idx+500000, (1<<hkN)-1, false)
		if pr := x.serve(http.MethodPut, path, "", ih, rng.Bytes(20)); pr.Status != http.StatusOK {
			return pr.Status, "PutObject(between create and complete)", string(pr.Body)
		}
	}
	q := url.Values{"partNumber": {"1"}, "uploadId": {ini.UploadID}}
	pr := x.serve(http.MethodPut, path, q.Encode(), nil, rng.Bytes(rng.Range(1, 300)))
	if pr.Status != http.StatusOK {
		return pr.Status, "UploadPart", string(pr.Body)
	}
	etag := pr.Header.Get("ETag")
	cb := `<CompleteMultipartUpload><Part><PartNumber>1</PartNumber><ETag>` + etag + `</ETag></Part></CompleteMultipartUpload>`
	if c.Interlope {
		completeHdr = nil // the ETag it names is no longer current
	}
	cr := x.serve(http.MethodPost, path, url.Values{"uploadId": {ini.UploadID}}.Encode(), completeHdr, []byte(cb))
	return cr.Status, "CompleteMultipartUpload", string(cr.Body)
}

func (x *hcRunner) runCase(c *hcCase, base *vkit.Rand) {
	r := x.r
	rng := base.Fork(fmt.Sprintf("case/%d", c.Idx))
	hdr, vals := hcBuildHeaders(rng, c.Idx, c.Mask, c.Rich)
	if c.Invalid != "" {
		c.Invalid = hcMakeInvalid(rng, c, hdr)
	}
	prev := x.states[hcSK(c.Bucket, c.Key)]
	var src *hcState
	if c.Op == hcOpCopy {
		src = x.states[hcSK(c.SrcBucket, c.SrcKey)]
	}
	var cond http.Header
	if c.Cond && c.Op != hcOpCopy {
		// a precondition that holds: the write must behave exactly as without it
		cond = http.Header{}
		if prev != nil && prev.ETag != "" {
			cond.Set("If-Match", prev.ETag)
		} else if prev == nil {
			cond.Set("If-None-Match", "*")
		}
		if c.Op == hcOpPut {
			for k, v := range cond {
				hdr[k] = v
			}
		}
	}
	status, step, body := x.write(c, hdr, cond, rng)
	accepted := status >= 200 && status < 300
	r.Count("http_cases", 1)
	r.Count("http_cases:"+c.Op, 1)
	r.Count(fmt.Sprintf("http_write_status:%d", status), 1)

	var exp *hcExpect
	switch {
	case accepted && c.Invalid == "":
		exp = hcExpectation(c, vals, src)
	case accepted:
		// the harness thought the request invalid, the server took it: the statement
		// does not say what it means, adopt what is read back
		r.Count("http_observed:invalid-request-accepted:"+c.Invalid, 1)
	default:
		exp = hcExpectFromState(prev) // refused => nothing may change
		if c.Invalid != "" {
			r.Count("http_rejected_invalid:"+c.Invalid, 1)
		} else {
			r.Count("http_rejected_valid", 1)
			if r.SeenCount("http_rejected_valid_requests") < 20 {
				r.Seen("http_rejected_valid_requests", fmt.Sprintf("%s %s -> %d %.80s", step, strings.Join(hcMaskKinds(c.Mask), "+"), status, body))
			}
		}
	}

	obs, rerr := hcReadHTTP(x.h, c.Bucket, c.Key)
	x.nReq += 3
	tokens := map[string]bool{}
	for _, k := range hcMaskKinds(c.Mask) {
		tokens[k] = true
	}
	if c.Op == hcOpCopy {
		md, td := c.MD, c.TD
		if md == "" {
			md = "absent"
		}
		if td == "" {
			td = "absent"
		}
		tokens["metadata-directive="+md] = true
		tokens["tagging-directive="+td] = true
	}
	if len(cond) > 0 && !(c.Op == hcOpMpu && c.Interlope) {
		tokens["satisfied-precondition"] = true
		r.Count("http_cases_with_satisfied_precondition:"+c.Op, 1)
	}
	features := []string{}
	if c.Versioned {
		features = append(features, "bucket=versioning-enabled")
	} else {
		features = append(features, "bucket=unversioned")
	}
	if prev != nil {
		features = append(features, "overwrites-existing-object")
	}
	if c.Interlope {
		features = append(features, "put-between-create-and-complete")
	}
	mkWitness := func(diffs []hcDiff, stv *hcState, sterr string) map[string]any {
		return map[string]any{
			"part": "http", "stack": x.stack, "profile": "http-header-combinations", "history_index": httpReplayIndex, "steps": 1,
			"prng_fork": x.label, "case": c, "request_header_kinds": hcMaskKinds(c.Mask), "features": features,
			"request_headers": hdr, "complete_request_headers": cond, "request_values": vals, "write_step": step, "write_status": status, "write_response": fmt.Sprintf("%.200s", body),
			"previous_state_of_key": prev, "copy_source_state": src, "expected": exp, "observed_over_http": obs, "observed_via_storage_api": stv, "storage_api_error": sterr,
			"differences":   diffs,
			"how_to_replay": "cd /verif && VERIF_SEED=<seed of this file> ./check C11 <tier of this file> --replay <this file>  (re-runs only the HTTP header-combination part on this stack; cases are a pure function of seed, tier and stack; this is case_index)",
		}
	}
	if rerr != "" {
		x.fails = append(x.fails, &hcFailure{c: c, d: hcDiff{Field: "readback", How: "failed", Observed: rerr}, tokens: tokens, witness: mkWitness(nil, nil, "")})
		delete(x.states, hcSK(c.Bucket, c.Key))
		r.Eval("")
		return
	}
	stv, sterr := hcReadStorage(x.ctx, x.s, c.Bucket, c.Key)
	if obs != nil && stv != nil {
		lower := true
		for k := range stv.Meta {
			lower = lower && k == strings.ToLower(k)
		}
		if len(stv.Meta) > 0 {
			if lower {
				r.Count("http_observed:user-metadata:stored-keys-all-lowercase", 1)
			} else {
				r.Count("http_observed:user-metadata:stored-keys-not-all-lowercase", 1)
			}
		}
	}
	if exp != nil {
		diffs := hcCompare(r, c, exp, obs, prev, src, vals)
		for i := range diffs {
			d := &diffs[i]
			// attribution: what does the storage API say about the same field?
			sv := hcFieldOf(stv, d.Field)
			switch {
			case stv == nil:
				d.Layer = "unknown (storage API read failed: " + sterr + ")"
			case !accepted:
				d.Layer = "refused request had an effect"
			case sv == d.Expected || (d.Field == "tagging-count" && len(stv.Tags) == len(exp.Tags)):
				d.Layer = "http read path (storage API returns the expected value " + fmt.Sprintf("%q", sv) + ")"
			case sv == d.Observed:
				d.Layer = "write path: the stored value is wrong (storage API agrees with the HTTP read-back); " + x.shadow(c, vals, d.Field, exp)
			default:
				d.Layer = fmt.Sprintf("write path and read path disagree: storage API returns %q", sv)
			}
		}
		for i := range diffs {
			if !accepted {
				diffs[i].How = "changed-by-refused-request"
			}
			if strings.HasSuffix(diffs[i].Field, "storage-class") { // "" was only the comparison form of STANDARD
				diffs[i].Expected, diffs[i].Observed = hcNormClass(diffs[i].Expected), hcNormClass(diffs[i].Observed)
			}
		}
		if len(diffs) > 0 {
			w := mkWitness(diffs, stv, sterr)
			for _, d := range diffs {
				x.fails = append(x.fails, &hcFailure{c: c, d: d, tokens: tokens, witness: w})
			}
		}
	}
	// whatever is there now is what later cases overwrite / copy from
	if obs == nil {
		delete(x.states, hcSK(c.Bucket, c.Key))
	} else {
		x.states[hcSK(c.Bucket, c.Key)] = obs
	}

	if !accepted || c.Invalid != "" {
		r.Eval("")
		return
	}
	// coverage accounting over accepted, asserted cases
	kinds := hcMaskKinds(c.Mask)
	effective := func(k string) bool {
		if c.Op != hcOpCopy {
			return true
		}
		switch k {
		case "storage-class", "website-redirect":
			return true
		case "tagging":
			return c.TD == "REPLACE"
		}
		return c.MD == "REPLACE"
	}
	for i := 0; i < len(kinds); i++ {
		r.Seen("http_single_kinds:"+c.Op, kinds[i])
		for j := i + 1; j < len(kinds); j++ {
			r.Seen("http_pairs:"+c.Op, kinds[i]+"+"+kinds[j])
			if effective(kinds[i]) && effective(kinds[j]) {
				r.Seen("http_pairs_effective:"+c.Op, kinds[i]+"+"+kinds[j])
			}
			for k := j + 1; k < len(kinds); k++ {
				r.Seen("http_triples:"+c.Op, kinds[i]+"+"+kinds[j]+"+"+kinds[k])
			}
		}
	}
	if c.Op == hcOpCopy {
		md, td := c.MD, c.TD
		if md == "" {
			md = "absent"
		}
		if td == "" {
			td = "absent"
		}
		r.Seen("http_copy_directive_combinations", "metadata="+md+",tagging="+td)
		for k := 0; k < hkN; k++ {
			p := "absent"
			if hcSourceHas(src, k) {
				p = "present"
			}
			r.Seen("http_copy_source_attributes", hkName[k]+":"+p)
		}
		if c.SrcBucket != c.Bucket {
			r.Count("http_copy_cross_bucket", 1)
		}
	}
	if prev != nil {
		r.Count("http_cases_overwriting_existing_object", 1)
	}
	if c.Versioned {
		r.Count("http_cases_versioning_enabled", 1)
	} else {
		r.Count("http_cases_unversioned", 1)
	}
	r.Eval(fmt.Sprintf("http|%s|%s|%03x|md=%s|td=%s|v=%t|ow=%t|pc=%t", x.stack, c.Op, c.Mask, c.MD, c.TD, c.Versioned, prev != nil, len(cond) > 0))
	if c.Idx%97 == 0 {
		r.Sample(map[string]any{"part": "http", "stack": x.stack, "case": c, "request_headers": hdr, "expected": exp, "observed_over_http": obs})
	}
}

func hcSourceHas(src *hcState, kind int) bool {
	if src == nil {
		return false
	}
	switch kind {
	case hkContentType:
		return src.ContentType != ""
	case hkUserMeta:
		return len(src.Meta) > 0
	case hkTagging:
		return len(src.Tags) > 0
	case hkClass:
		return src.Class != "STANDARD"
	}
	_, ok := src.Sys[hkSysHeader[kind]]
	return ok
}

// shadow repeats the write through the storage API on a fresh key with the
// options the statement's semantics derive from the request, and reports whether
// the layer below the handler gets the failing field right: if it does, the
// handler's header translation (or the reuse of the previous row of the key) is
// what differs. Attribution only; never a verdict.
func (x *hcRunner) shadow(c *hcCase, v *hcReqVals, field string, exp *hcExpect) string {
	key := fmt.Sprintf("zz-shadow-%d", c.Idx)
	op := &vmodel.Op{Bucket: c.Bucket, Key: key, Body: []byte("shadow")}
	if v.ContentType != "" {
		op.ContentType = vkit.Ptr(v.ContentType)
	}
	if len(v.Sys) > 0 || len(v.Meta) > 0 {
		m := &storage.ObjectMetadata{}
		set := func(dst **string, name string) {
			if s, ok := v.Sys[name]; ok {
				*dst = vkit.Ptr(s)
			}
		}
		set(&m.CacheControl, "cache-control")
		set(&m.ContentDisposition, "content-disposition")
		set(&m.ContentEncoding, "content-encoding")
		set(&m.ContentLanguage, "content-language")
		set(&m.Expires, "expires")
		set(&m.WebsiteRedirectLocation, hcRedirectHeader)
		if len(v.Meta) > 0 {
			m.UserMetadata = map[string]string{}
			for k, vals := range v.Meta {
				m.UserMetadata[k] = strings.Join(vals, ",")
			}
		}
		op.Meta = m
	}
	if len(v.Tags) > 0 {
		op.Tags = v.Tags
	}
	if v.Class != "" {
		op.Class = vkit.Ptr(v.Class)
	}
	var res *vmodel.Result
	switch c.Op {
	case hcOpPut:
		op.Kind = vmodel.OpPut
		res = vmodel.Exec(x.ctx, x.s, op)
	case hcOpCopy:
		op.Kind, op.SrcBucket, op.SrcKey = vmodel.OpCopy, c.SrcBucket, c.SrcKey
		op.ReplaceMeta, op.ReplaceTags = c.MD == "REPLACE", c.TD == "REPLACE"
		if !op.ReplaceTags {
			op.Tags = nil
		}
		res = vmodel.Exec(x.ctx, x.s, op)
	default:
		op.Kind = vmodel.OpMpuCreate
		res = vmodel.Exec(x.ctx, x.s, op)
		if res.Kind == "" {
			id := res.UploadID
			res = vmodel.Exec(x.ctx, x.s, &vmodel.Op{Kind: vmodel.OpMpuPart, Bucket: c.Bucket, Key: key, UploadID: id, PartNumber: 1, Body: []byte("shadow")})
			if res.Kind == "" {
				res = vmodel.Exec(x.ctx, x.s, &vmodel.Op{Kind: vmodel.OpMpuComplete, Bucket: c.Bucket, Key: key, UploadID: id})
			}
		}
	}
	if res == nil || res.Kind != "" {
		return "shadow write through the storage API failed, no attribution"
	}
	st, err := hcReadStorage(x.ctx, x.s, c.Bucket, key)
	// remove the shadow object (all its versions)
	bn := storage.MustNewBucketName(c.Bucket)
	if lv, lerr := x.s.ListObjectVersions(x.ctx, bn, storage.ListObjectVersionsOptions{Prefix: vkit.Ptr(key), MaxKeys: 100}); lerr == nil {
		for _, ver := range lv.Versions {
			id := ver.VersionID
			_, _ = x.s.DeleteObject(x.ctx, bn, ver.Key, &storage.DeleteObjectOptions{VersionID: &id})
		}
	}
	if st == nil {
		return "shadow read failed (" + err + "), no attribution"
	}
	want := hcFieldOf(&hcState{ContentType: exp.ContentType, Sys: exp.Sys, Meta: exp.MetaExact, Tags: exp.Tags, TagCount: len(exp.Tags), Class: exp.Class, ListClass: exp.Class}, field)
	got := hcFieldOf(st, field)
	if field == "user-metadata" && len(exp.MetaLoose) > 0 {
		return "no shadow attribution for repeated/empty metadata keys"
	}
	if got == want {
		return "the same write issued through the storage API on a fresh key stores the expected value => HTTP handler (header -> options translation), or reuse of the key's previous row"
	}
	return fmt.Sprintf("the same write issued through the storage API on a fresh key also stores %q => layer below the HTTP handler", got)
}

// httpHeaderCombinationsIf is the single call site in props.go: the part runs for
// C11 in a normal run (only < 0) and when a witness of this part is replayed
// (history_index == httpReplayIndex, which selects no generated history).
func httpHeaderCombinationsIf(ctx context.Context, r *vkit.Run, prop string, s storage.Storage, stack string, base *vkit.Rand, only int) {
	if prop != "C11" || (only >= 0 && only != httpReplayIndex) {
		return
	}
	httpHeaderCombinations(ctx, r, s, stack, base.Fork("http/"+stack), only == httpReplayIndex)
}

// httpHeaderCombinations is the HTTP part of C11 for one stack.
func httpHeaderCombinations(ctx context.Context, r *vkit.Run, s storage.Storage, stack string, rng *vkit.Rand, replayOnly bool) {
	label := "http/" + stack
	x := &hcRunner{ctx: ctx, r: r, s: s, stack: stack, label: label, states: map[string]*hcState{}}
	x.h = server.SetupServer(nil, "eu-central-1", hcHost, "web.test", hcAllowAll{}, s)
	tag := strings.NewReplacer(">", "-", "_", "-").Replace(stack)
	bu, bv := "c11h-u-"+tag, "c11h-v-"+tag
	if len(bu) > 60 {
		bu, bv = bu[:60], bv[:60]
	}
	for _, b := range []string{bu, bv} {
		if err := s.CreateBucket(ctx, storage.MustNewBucketName(b)); err != nil {
			r.Inconclusive("C11 http part: cannot create bucket " + b + ": " + err.Error())
			return
		}
	}
	enabled := storage.BucketVersioningStatus("Enabled")
	if err := s.PutBucketVersioningConfiguration(ctx, storage.MustNewBucketName(bv), &storage.BucketVersioningConfiguration{Status: &enabled}); err != nil {
		r.Inconclusive("C11 http part: cannot enable versioning: " + err.Error())
		return
	}
	defer x.cleanup([]string{bu, bv})
	r.SetExtra("http_part_rule", "per stack: PutObject, CreateMultipartUpload(+UploadPart+Complete) and CopyObject requests through the real HTTP handler chain (authentication off) with PRNG-generated subsets of 10 header kinds (content-type, five system headers, website-redirect, user-metadata, tagging, storage-class): per operation kind the empty and the full set, every single kind, every pair and every triple (for copies with both directives REPLACE so that every header is effective), all 9 directive combinations x {bare, full} request, and random subsets with rich values (mixed-case/repeated/empty x-amz-meta-*, 0..10 URL-encoded tags, explicit STANDARD, satisfied If-Match/If-None-Match, 12% deliberately invalid); keys are reused so that writes overwrite attribute-carrying objects; oracle = expectation computed from the request headers vs HEAD / GET ?tagging / ListObjectsV2 read back over HTTP; a case is distinct by (stack, operation, header-kind set, directives, bucket versioning, overwrite?, precondition?)")
	r.Assume("C11 http part: requests are served in-process (ServeHTTP + httptest recorder) with header names canonicalised as net/http's server does; combining of repeated x-amz-meta-* headers, empty metadata values and a redirect sent with metadata-directive COPY are observed, not asserted")

	// ---- case list: a pure function of (seed, tier, stack) ----
	full := (1 << hkN) - 1
	var cases []*hcCase
	add := func(op, gen string, mask int, rich bool) *hcCase {
		c := &hcCase{Op: op, Gen: gen, Mask: mask, Rich: rich}
		cases = append(cases, c)
		return c
	}
	directives := []string{"", "COPY", "REPLACE"}
	nRandom := r.N(150, 1500)
	nTriples := 120 // all exact triples (and all exact pairs) per operation kind in both tiers
	for _, op := range []string{hcOpPut, hcOpMpu, hcOpCopy} {
		g := rng.Fork("gen/" + op)
		dirs := func(c *hcCase, enumerated bool) {
			if op != hcOpCopy {
				return
			}
			if enumerated {
				// every request header is effective, so the pair/triple really interacts
				c.MD, c.TD = "REPLACE", "REPLACE"
				return
			}
			c.MD, c.TD = vkit.Pick(g, directives), vkit.Pick(g, directives)
		}
		dirs(add(op, "none", 0, false), false)
		dirs(add(op, "all", full, false), true)
		dirs(add(op, "all-rich", full, true), true)
		for a := 0; a < hkN; a++ {
			dirs(add(op, "single", 1<<a, false), true)
			dirs(add(op, "single+precondition", 1<<a, false), true)
			cases[len(cases)-1].Cond = true
			for b := a + 1; b < hkN; b++ {
				dirs(add(op, "pair", 1<<a|1<<b, false), true)
			}
		}
		var triples []int
		for a := 0; a < hkN; a++ {
			for b := a + 1; b < hkN; b++ {
				for c := b + 1; c < hkN; c++ {
					triples = append(triples, 1<<a|1<<b|1<<c)
				}
			}
		}
		vkit.Shuffle(g, triples)
		for _, m := range triples[:nTriples] {
			dirs(add(op, "triple", m, g.Chance(30)), g.Chance(50))
		}
		if op == hcOpCopy {
			// every directive combination with an empty and with a full request
			for _, md := range directives {
				for _, td := range directives {
					c := add(op, "directives-bare", 0, false)
					c.MD, c.TD = md, td
					c = add(op, "directives-full", full, false)
					c.MD, c.TD = md, td
				}
			}
		}
		for i := 0; i < nRandom; i++ {
			c := add(op, "random", int(g.Uint64())&full, true)
			dirs(c, false)
			if g.Chance(12) {
				c.Invalid = "?"
			}
			if op == hcOpMpu && g.Chance(25) {
				c.Interlope = true
			}
			c.Cond = g.Chance(30)
		}
	}
	sched := rng.Fork("schedule")
	vkit.Shuffle(sched, cases)
	// sources for the first copies: bare, full and random ones in both buckets
	var pre []*hcCase
	for bi := 0; bi < 2; bi++ {
		for i, m := range []int{0, full, int(sched.Uint64()) & full, int(sched.Uint64()) & full, int(sched.Uint64()) & full, int(sched.Uint64()) & full} {
			pre = append(pre, &hcCase{Op: hcOpPut, Gen: "source", Mask: m, Rich: i >= 2, Key: fmt.Sprintf("src-%d", i), Versioned: bi == 1})
		}
	}
	cases = append(pre, cases...)
	destKeys := []string{"k0", "k1", "k2", "dir/sub dir/a b+c.txt", "k4", "src-2", "src-3"}
	for i, c := range cases {
		c.Idx = i
		if c.Gen != "source" {
			c.Versioned = sched.Bool()
			c.Key = vkit.Pick(sched, destKeys)
		}
		c.Bucket = bu
		if c.Versioned {
			c.Bucket = bv
		}
	}

	for _, c := range cases {
		if c.Op == hcOpCopy {
			// source: any key that currently has an object, except the destination
			var cands []string
			for sk, st := range x.states {
				if st != nil && sk != hcSK(c.Bucket, c.Key) {
					cands = append(cands, sk)
				}
			}
			sort.Strings(cands)
			if len(cands) == 0 {
				r.Count("http_copy_skipped_no_source", 1)
				continue
			}
			pick := strings.SplitN(vkit.Pick(sched, cands), "\x00", 2)
			c.SrcBucket, c.SrcKey = pick[0], pick[1]
		}
		x.runCase(c, rng)
	}
	r.Count("http_requests", int64(x.nReq))
	x.report()

	if replayOnly {
		r.Count("steps", int64(x.nReq)) // the engine treats a run without steps as inconclusive
		return
	}
	// too little observed => inconclusive, never "held"
	allPairs := hkN * (hkN - 1) / 2
	for _, op := range []string{hcOpPut, hcOpMpu, hcOpCopy} {
		if n := r.SeenCount("http_pairs_effective:" + op); n < allPairs {
			r.Inconclusive(fmt.Sprintf("C11 http part (%s): only %d of %d header-kind pairs reached an accepted %s request", stack, n, allPairs, op))
		}
		if n := r.SeenCount("http_triples:" + op); n < 100 {
			r.Inconclusive(fmt.Sprintf("C11 http part (%s): only %d of 120 header-kind triples reached an accepted %s request", stack, n, op))
		}
	}
	if n := r.SeenCount("http_copy_directive_combinations"); n < 9 {
		r.Inconclusive(fmt.Sprintf("C11 http part (%s): only %d of 9 directive combinations on accepted copies", stack, n))
	}
	if n := r.SeenCount("http_copy_source_attributes"); n < 2*hkN {
		r.Inconclusive(fmt.Sprintf("C11 http part (%s): copy sources did not show every attribute both present and absent (%d of %d)", stack, n, 2*hkN))
	}
	if rej, all := r.Counter("http_rejected_valid"), r.Counter("http_cases"); rej*50 > all {
		r.Inconclusive(fmt.Sprintf("C11 http part (%s): %d of %d requests the generator considers valid were refused", stack, rej, all))
	}
}

// report groups the failures by (operation, field, way of being wrong) and names
// each group after the request features common to all its cases, so that e.g. a
// class lost only together with x-amz-tagging is called exactly that.
func (x *hcRunner) report() {
	own := map[string]string{"tagging-count": "tagging", "list-storage-class": "storage-class"}
	type group struct {
		first  *hcFailure
		common map[string]bool
		idx    []int
		n      int
	}
	groups := map[string]*group{}
	var order []string
	for _, f := range x.fails {
		k := f.c.Op + ":" + f.d.Field + "-" + f.d.How
		g := groups[k]
		if g == nil {
			g = &group{first: f, common: map[string]bool{}}
			for t := range f.tokens {
				g.common[t] = true
			}
			groups[k] = g
			order = append(order, k)
		} else {
			for t := range g.common {
				if !f.tokens[t] {
					delete(g.common, t)
				}
			}
			if len(f.tokens) < len(g.first.tokens) {
				g.first = f // the smallest failing request is the witness
			}
		}
		g.n++
		if len(g.idx) < 40 {
			g.idx = append(g.idx, f.c.Idx)
		}
	}
	for _, k := range order {
		g := groups[k]
		f := g.first
		self := f.d.Field
		if o, ok := own[self]; ok {
			self = o
		}
		var with []string
		for t := range g.common {
			if t != self {
				with = append(with, t)
			}
		}
		sort.Strings(with)
		suffix := "any"
		if len(with) > 0 {
			suffix = strings.Join(with, "+")
		}
		sig := "http:" + k + "-with:" + suffix
		w := map[string]any{}
		for wk, wv := range f.witness {
			w[wk] = wv
		}
		w["failing_field"] = f.d
		w["failing_cases_in_group"] = g.n
		w["failing_case_indexes"] = g.idx
		w["features_common_to_all_failing_cases"] = with
		what := fmt.Sprintf("%s over HTTP (%s, headers %s): %s expected %q, read back %q [%s]; %d case(s) of this kind", f.c.Op, x.stack, strings.Join(hcMaskKinds(f.c.Mask), "+"), f.d.Field, f.d.Expected, f.d.Observed, f.d.Layer, g.n)
		x.r.Violation(sig, what, w)
	}
}

func (x *hcRunner) cleanup(buckets []string) {
	for _, b := range buckets {
		bn := storage.MustNewBucketName(b)
		if ups, err := x.s.ListMultipartUploads(x.ctx, bn, storage.ListMultipartUploadsOptions{MaxUploads: 1000}); err == nil && ups != nil {
			for _, u := range ups.Uploads {
				_ = x.s.AbortMultipartUpload(x.ctx, bn, u.Key, u.UploadId)
			}
		}
		for page := 0; page < 100; page++ {
			res, err := x.s.ListObjectVersions(x.ctx, bn, storage.ListObjectVersionsOptions{MaxKeys: 1000})
			if err != nil || len(res.Versions) == 0 {
				break
			}
			for _, v := range res.Versions {
				id := v.VersionID
				_, _ = x.s.DeleteObject(x.ctx, bn, v.Key, &storage.DeleteObjectOptions{VersionID: &id})
			}
		}
		_ = x.s.DeleteBucket(x.ctx, bn)
	}
}
