package main

import (
	"context"
	"fmt"

	"github.com/jdillenkofer/pithos/internal/storage"
	"github.com/jdillenkofer/pithos/internal/verif/vkit"
	"github.com/jdillenkofer/pithos/internal/verif/vmodel"
)

// metaReuseScripts (C11): enumerated short scripts around the one place where a
// write can inherit what it must replace - the row of the null version, which
// unversioned/suspended writes reuse. A first write carries rich metadata, tags
// and a class; then the key goes through one of several "middle" sequences
// (nothing, key delete, enable+delete = marker above the null version,
// enable+put+suspend, tagging change); then a final write of one of several kinds
// (put, copy from a bare object, multipart complete, copy with REPLACE directives)
// supplies NO metadata/tags/class in one of the versioning states; the runner's
// read-back must show them cleared (or exactly what the final write supplied).
func metaReuseScripts(ctx context.Context, r *vkit.Run, s storage.Storage, stack string, rng *vkit.Rand, cfg propCfg) {
	middles := []string{"none", "key-delete", "enable-delete-suspend", "enable-delete", "enable-put-suspend", "retag", "suspend-delete"}
	finals := []string{"put-bare", "copy-bare", "complete-bare", "copy-replace-empty", "put-other-meta"}
	n := 0
	for mi, mid := range middles {
		for fi, fin := range finals {
			n++
			b := fmt.Sprintf("meta-%d-%d", mi, fi)
			key := "k"
			rich := &storage.ObjectMetadata{CacheControl: vkit.Ptr("max-age=60"), ContentDisposition: vkit.Ptr("inline"), ContentEncoding: vkit.Ptr("identity"), ContentLanguage: vkit.Ptr("en"), Expires: vkit.Ptr("Wed, 21 Oct 2099 07:28:00 GMT"), WebsiteRedirectLocation: vkit.Ptr("/old"), UserMetadata: map[string]string{"a": "1", "b": "2"}}
			var uploadID string
			var script []func(m *vmodel.Model) *vmodel.Op
			add := func(f func(m *vmodel.Model) *vmodel.Op) { script = append(script, f) }
			op := func(o vmodel.Op) { add(func(*vmodel.Model) *vmodel.Op { c := o; return &c }) }
			op(vmodel.Op{Kind: vmodel.OpCreateBucket, Bucket: b})
			op(vmodel.Op{Kind: vmodel.OpPut, Bucket: b, Key: "bare", Body: rng.Bytes(50)})
			op(vmodel.Op{Kind: vmodel.OpPut, Bucket: b, Key: key, Body: rng.Bytes(120), ContentType: vkit.Ptr("text/rich"), Meta: rich, Tags: map[string]string{"t1": "v1", "t2": "v2"}, Class: vkit.Ptr("GLACIER")})
			switch mid {
			case "key-delete":
				op(vmodel.Op{Kind: vmodel.OpDelete, Bucket: b, Key: key})
			case "enable-delete-suspend":
				op(vmodel.Op{Kind: vmodel.OpVersioning, Bucket: b, Status: "Enabled"})
				op(vmodel.Op{Kind: vmodel.OpDelete, Bucket: b, Key: key})
				op(vmodel.Op{Kind: vmodel.OpVersioning, Bucket: b, Status: "Suspended"})
			case "enable-delete":
				op(vmodel.Op{Kind: vmodel.OpVersioning, Bucket: b, Status: "Enabled"})
				op(vmodel.Op{Kind: vmodel.OpDelete, Bucket: b, Key: key})
			case "enable-put-suspend":
				op(vmodel.Op{Kind: vmodel.OpVersioning, Bucket: b, Status: "Enabled"})
				op(vmodel.Op{Kind: vmodel.OpPut, Bucket: b, Key: key, Body: rng.Bytes(60), Tags: map[string]string{"mid": "x"}})
				op(vmodel.Op{Kind: vmodel.OpVersioning, Bucket: b, Status: "Suspended"})
			case "retag":
				op(vmodel.Op{Kind: vmodel.OpPutTags, Bucket: b, Key: key, Tags: map[string]string{"re": "tag"}})
			case "suspend-delete":
				op(vmodel.Op{Kind: vmodel.OpVersioning, Bucket: b, Status: "Suspended"})
				op(vmodel.Op{Kind: vmodel.OpDelete, Bucket: b, Key: key})
			}
			switch fin {
			case "put-bare":
				op(vmodel.Op{Kind: vmodel.OpPut, Bucket: b, Key: key, Body: rng.Bytes(77)})
			case "copy-bare":
				op(vmodel.Op{Kind: vmodel.OpCopy, Bucket: b, Key: key, SrcBucket: b, SrcKey: "bare"})
			case "copy-replace-empty":
				op(vmodel.Op{Kind: vmodel.OpCopy, Bucket: b, Key: key, SrcBucket: b, SrcKey: "bare", ReplaceMeta: true, ReplaceTags: true})
			case "put-other-meta":
				op(vmodel.Op{Kind: vmodel.OpPut, Bucket: b, Key: key, Body: rng.Bytes(33), Meta: &storage.ObjectMetadata{ContentLanguage: vkit.Ptr("de"), UserMetadata: map[string]string{"z": "9"}}, Tags: map[string]string{"only": "this"}})
			case "complete-bare":
				op(vmodel.Op{Kind: vmodel.OpMpuCreate, Bucket: b, Key: key})
				add(func(m *vmodel.Model) *vmodel.Op {
					for id := range m.Buckets[b].Uploads {
						uploadID = id
					}
					return &vmodel.Op{Kind: vmodel.OpMpuPart, Bucket: b, Key: key, UploadID: uploadID, PartNumber: 1, Body: rng.Bytes(90)}
				})
				add(func(*vmodel.Model) *vmodel.Op {
					return &vmodel.Op{Kind: vmodel.OpMpuComplete, Bucket: b, Key: key, UploadID: uploadID}
				})
			}
			// and an append afterwards must preserve whatever the final write established
			op(vmodel.Op{Kind: vmodel.OpAppend, Bucket: b, Key: key, Body: rng.Bytes(10)})
			pos := 0
			h := vmodel.RunHistory(ctx, vmodel.HistoryConfig{
				Storage: s, Rand: rng, Profile: cfg.profile(), Steps: len(script) + 1, ReadbackVersions: false,
				InScope: func(d vmodel.Divergence) bool { return cfg.fields[d.Field] },
				Next: func(step int, m *vmodel.Model) *vmodel.Op {
					if pos >= len(script) {
						return nil
					}
					f := script[pos]
					pos++
					return f(m)
				},
			})
			r.Eval(fmt.Sprintf("meta-script|%s|%s|%s", stack, mid, fin))
			if len(h.Divergences) > 0 {
				d := h.Divergences[0]
				r.Violation(d.Sig+":null-row-reuse-script", d.What, map[string]any{"stack": stack, "middle": mid, "final_write": fin, "last_steps": h.Tail(12), "divergences": h.Divergences})
			}
			cleanup(ctx, s, h.Model)
		}
	}
	r.Count("meta_reuse_scripts", int64(n))
}
