package main

import (
	"context"
	"fmt"
	"strings"

	"github.com/jdillenkofer/pithos/internal/storage"
	"github.com/jdillenkofer/pithos/internal/verif/vkit"
	"github.com/jdillenkofer/pithos/internal/verif/vmodel"
)

// promotionLadders: scripted histories aimed at the "current version is the most
// recently written surviving version" clause. On one key of a versioned bucket:
// 0-2 multipart uploads are initiated EARLY, then 2-5 writes of different kinds
// follow in a PRNG order (put, copy, append, completion of an early upload,
// null-version overwrite while suspended, key delete = marker), then the ladder:
// the current version is deleted by id, again and again, until the key is gone.
// After every step the runner re-reads the key, every live version by id and the
// ListObjectVersions view and compares them with the model's write-recency order.
func promotionLadders(ctx context.Context, r *vkit.Run, prop string, s storage.Storage, stack string, rng *vkit.Rand, cfg propCfg, onlyLadder int) {
	n := r.N(120, 1500)
	for li := 0; li < n; li++ {
		if onlyLadder >= 0 && li != onlyLadder {
			continue
		}
		lr := rng.Fork(fmt.Sprintf("ladder-%d", li))
		b := fmt.Sprintf("ladder-%d", li)
		key, helper := "k", "helper"
		nUploads := lr.Intn(3)
		kinds := []string{"put", "copy", "append", "null-overwrite", "key-delete", "put", "suspended-append"}
		var plan []string
		for i := 0; i < nUploads; i++ {
			plan = append(plan, "complete")
		}
		for len(plan) < lr.Range(2, 5) {
			plan = append(plan, vkit.Pick(lr, kinds))
		}
		vkit.Shuffle(lr, plan)
		// expand into a script of op constructors
		type stepFn func(m *vmodel.Model) *vmodel.Op
		var script []stepFn
		add := func(f stepFn) { script = append(script, f) }
		add(func(*vmodel.Model) *vmodel.Op { return &vmodel.Op{Kind: vmodel.OpCreateBucket, Bucket: b} })
		add(func(*vmodel.Model) *vmodel.Op {
			return &vmodel.Op{Kind: vmodel.OpPut, Bucket: b, Key: helper, Body: lr.Bytes(300)}
		})
		add(func(*vmodel.Model) *vmodel.Op {
			return &vmodel.Op{Kind: vmodel.OpVersioning, Bucket: b, Status: "Enabled"}
		})
		for i := 0; i < nUploads; i++ {
			add(func(*vmodel.Model) *vmodel.Op { return &vmodel.Op{Kind: vmodel.OpMpuCreate, Bucket: b, Key: key} })
		}
		completed := 0
		for _, k := range plan {
			switch k {
			case "put":
				add(func(*vmodel.Model) *vmodel.Op {
					return &vmodel.Op{Kind: vmodel.OpPut, Bucket: b, Key: key, Body: lr.Bytes(lr.Range(1, 900))}
				})
			case "copy":
				add(func(*vmodel.Model) *vmodel.Op {
					return &vmodel.Op{Kind: vmodel.OpCopy, Bucket: b, Key: key, SrcBucket: b, SrcKey: helper}
				})
			case "append":
				add(func(*vmodel.Model) *vmodel.Op {
					return &vmodel.Op{Kind: vmodel.OpAppend, Bucket: b, Key: key, Body: lr.Bytes(lr.Range(1, 300))}
				})
			case "key-delete":
				add(func(*vmodel.Model) *vmodel.Op { return &vmodel.Op{Kind: vmodel.OpDelete, Bucket: b, Key: key} })
			case "suspended-append":
				// while suspended, an append onto a current NON-null version has to write a new
				// null version and leave the version it extends alone
				add(func(*vmodel.Model) *vmodel.Op {
					return &vmodel.Op{Kind: vmodel.OpVersioning, Bucket: b, Status: "Suspended"}
				})
				add(func(*vmodel.Model) *vmodel.Op {
					return &vmodel.Op{Kind: vmodel.OpAppend, Bucket: b, Key: key, Body: lr.Bytes(lr.Range(1, 300))}
				})
				add(func(*vmodel.Model) *vmodel.Op {
					return &vmodel.Op{Kind: vmodel.OpVersioning, Bucket: b, Status: "Enabled"}
				})
			case "null-overwrite":
				add(func(*vmodel.Model) *vmodel.Op {
					return &vmodel.Op{Kind: vmodel.OpVersioning, Bucket: b, Status: "Suspended"}
				})
				add(func(*vmodel.Model) *vmodel.Op {
					return &vmodel.Op{Kind: vmodel.OpPut, Bucket: b, Key: key, Body: lr.Bytes(lr.Range(1, 900))}
				})
				add(func(*vmodel.Model) *vmodel.Op {
					return &vmodel.Op{Kind: vmodel.OpVersioning, Bucket: b, Status: "Enabled"}
				})
			case "complete":
				idx := completed
				completed++
				pick := func(m *vmodel.Model) *vmodel.MUpload {
					var ups []*vmodel.MUpload
					for _, u := range m.Buckets[b].Uploads {
						ups = append(ups, u)
					}
					if len(ups) == 0 {
						return nil
					}
					// the oldest pending upload (initiated earliest)
					best := ups[0]
					for _, u := range ups {
						if u.Seq < best.Seq {
							best = u
						}
					}
					return best
				}
				_ = idx
				add(func(m *vmodel.Model) *vmodel.Op {
					u := pick(m)
					if u == nil {
						return &vmodel.Op{Kind: vmodel.OpHead, Bucket: b, Key: key}
					}
					return &vmodel.Op{Kind: vmodel.OpMpuPart, Bucket: b, Key: key, UploadID: u.ID, PartNumber: 1, Body: lr.Bytes(lr.Range(1, 700))}
				})
				add(func(m *vmodel.Model) *vmodel.Op {
					u := pick(m)
					if u == nil {
						return &vmodel.Op{Kind: vmodel.OpHead, Bucket: b, Key: key}
					}
					return &vmodel.Op{Kind: vmodel.OpMpuComplete, Bucket: b, Key: key, UploadID: u.ID}
				})
			}
		}
		pos := 0
		hc := vmodel.HistoryConfig{
			Storage: s, Rand: lr, Profile: cfg.profile(), Steps: 60, ReadbackVersions: true,
			InScope: func(d vmodel.Divergence) bool { return cfg.fields[d.Field] },
			Next: func(step int, m *vmodel.Model) *vmodel.Op {
				if pos < len(script) {
					f := script[pos]
					pos++
					return f(m)
				}
				// the ladder: delete the current version by id until nothing is left
				bk := m.Buckets[b]
				if bk == nil {
					return nil
				}
				cur := bk.Current(key)
				if cur == nil {
					return nil
				}
				return &vmodel.Op{Kind: vmodel.OpDelete, Bucket: b, Key: key, VersionID: vkit.Ptr(cur.ID), Intent: "ladder"}
			},
		}
		var mon *stabilityMonitor
		if prop == "C13" {
			mon = newStabilityMonitor(ctx, s)
			hc.Hook = mon.hook
		}
		h := vmodel.RunHistory(ctx, hc)
		r.Count("promotion_ladders", 1)
		r.Count("ladder_steps", int64(len(h.Steps)))
		r.Eval("ladder|" + strings.Join(plan, ","))
		if len(h.Divergences) > 0 {
			d := h.Divergences[0]
			r.Violation(d.Sig+":promotion-ladder", d.What, map[string]any{"stack": stack, "ladder_index": li, "plan": plan, "early_uploads": nUploads, "last_steps": h.Tail(14), "divergences": h.Divergences})
		}
		if li == 0 {
			r.Sample(map[string]any{"ladder_plan": plan, "early_uploads": nUploads, "history": h.Tail(12)})
		}
		cleanup(ctx, s, h.Model)
	}
}
