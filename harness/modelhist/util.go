package main

import (
	"bytes"
	"crypto/md5"
	"io"
	"sort"
)

func sortInts(x []int)               { sort.Ints(x) }
func bytesReader(b []byte) io.Reader { return bytes.NewReader(b) }
func md5of(b []byte) [16]byte        { return md5.Sum(b) }

func sizeClass(n int) string {
	switch {
	case n == 0:
		return "0"
	case n < 1024:
		return "<1K"
	case n < 65536:
		return "<64K"
	case n < 1<<20:
		return "<1M"
	}
	return ">=1M"
}

func flip(s string) string {
	b := []byte(s)
	for i := range b {
		if b[i] >= 'A' && b[i] <= 'Y' || b[i] >= 'a' && b[i] <= 'y' || b[i] >= '0' && b[i] <= '8' {
			b[i]++
			return string(b)
		}
	}
	return s + "A"
}
