package main

import (
	"bytes"
	"context"
	"fmt"

	"github.com/jdillenkofer/pithos/internal/verif/vkit"
	"github.com/jdillenkofer/pithos/internal/verif/vmodel"
)

// remapScenarios (C14, "remapped configurations"): objects are written under one
// class->store mapping, the storage is stopped and reopened over the same data
// with a DIFFERENT mapping (every store still configured), and then objects are
// transitioned - also to the class they already have. Every object must stay
// readable across the reopen (its parts are found through the store recorded per
// part), and after a transition the version's parts must live in the store the
// NEW mapping assigns to the target class, with content/ETag/version id/metadata/
// tags unchanged.
func remapScenarios(ctx context.Context, r *vkit.Run, rng *vkit.Rand) {
	n := r.N(3, 25)
	classes := []string{"STANDARD", "STANDARD_IA", "GLACIER", "DEEP_ARCHIVE", "ONEZONE_IA"}
	stores := []string{"default", "cold", "enc"}
	for si := 0; si < n; si++ {
		sr := rng.Fork(fmt.Sprintf("remap-%d", si))
		dir := r.SubDir(fmt.Sprintf("c14-remap-%d", si))
		mapping := func() map[string]string {
			m := map[string]string{}
			for _, c := range classes[1:] {
				if st := vkit.Pick(sr, stores); st != "default" {
					m[c] = st
				}
			}
			return m
		}
		spec := vkit.NamedSpec{Default: "sql", Extra: map[string]string{"cold": "fs", "enc": "tink>fs"}}
		spec.Classes = mapping()
		env, err := vkit.OpenEnv(dir)
		if err != nil {
			r.Inconclusive(err.Error())
			return
		}
		s, err := env.NewNamedStorage(spec, vkit.FastGC()...)
		if err != nil {
			r.Inconclusive(err.Error())
			env.Close()
			return
		}
		b := "remap-bucket"
		type obj struct {
			key, class string
			body       []byte
			etag       string
			tags       map[string]string
		}
		var objs []*obj
		fail := func(sig, what string, w any) { r.Violation(sig, what, w) }
		if res := vmodel.Exec(ctx, s, &vmodel.Op{Kind: vmodel.OpCreateBucket, Bucket: b}); res.Kind != "" {
			r.Inconclusive("remap setup: " + res.ErrText)
			s.Stop(ctx)
			env.Close()
			continue
		}
		shared := sr.Bytes(1800)
		for i, c := range classes {
			body := sr.Bytes(sr.Range(1, 4000))
			if i%2 == 1 {
				body = shared // dedup-identical content in different classes
			}
			o := &obj{key: fmt.Sprintf("obj-%d", i), class: c, body: body, tags: map[string]string{"i": fmt.Sprint(i)}}
			res := vmodel.Exec(ctx, s, &vmodel.Op{Kind: vmodel.OpPut, Bucket: b, Key: o.key, Body: body, Class: vkit.Ptr(c), Tags: o.tags})
			if res.Kind != "" {
				r.Inconclusive("remap setup put: " + res.ErrText)
				continue
			}
			o.etag = res.ETag
			objs = append(objs, o)
		}
		// an object whose part list repeats one part id (the same chunk appended twice is
		// deduplicated onto one stored part): relabels that keep the parts in place must
		// keep one registry reference per part ROW
		{
			chunk := sr.Bytes(700)
			o := &obj{key: "obj-repeated-part", class: vkit.Pick(sr, classes), tags: map[string]string{"rep": "1"}}
			r1 := vmodel.Exec(ctx, s, &vmodel.Op{Kind: vmodel.OpPut, Bucket: b, Key: o.key, Body: chunk, Class: vkit.Ptr(o.class), Tags: o.tags})
			r2 := vmodel.Exec(ctx, s, &vmodel.Op{Kind: vmodel.OpAppend, Bucket: b, Key: o.key, Body: chunk})
			r3 := vmodel.Exec(ctx, s, &vmodel.Op{Kind: vmodel.OpAppend, Bucket: b, Key: o.key, Body: chunk})
			if r1.Kind == "" && r2.Kind == "" && r3.Kind == "" {
				o.body = bytes.Repeat(chunk, 3)
				o.etag = r3.ETag
				objs = append(objs, o)
			}
		}
		_ = s.Stop(ctx)
		env.Close()
		// reopen with another mapping over the same data (same construction order => same directories)
		newMap := mapping()
		spec2 := spec
		spec2.Classes = newMap
		env2, err := vkit.OpenEnv(dir)
		if err != nil {
			r.Inconclusive(err.Error())
			return
		}
		s2, err := env2.NewNamedStorage(spec2, vkit.FastGC()...)
		if err != nil {
			r.Inconclusive(err.Error())
			env2.Close()
			return
		}
		insp, err := vmodel.OpenInspector(dir)
		if err != nil {
			r.Inconclusive(err.Error())
			return
		}
		storeOf := func(class string) string {
			if st, ok := newMap[class]; ok {
				return st
			}
			return "default"
		}
		wit := func(o *obj, target string) map[string]any {
			return map[string]any{"scenario": si, "old_mapping": spec.Classes, "new_mapping": newMap, "key": o.key, "class": o.class, "target": target}
		}
		check := func(o *obj, phase, target string) {
			res := vmodel.Exec(ctx, s2, &vmodel.Op{Kind: vmodel.OpGet, Bucket: b, Key: o.key})
			if res.Kind != "" || res.ReadErr != nil || !bytes.Equal(res.Body, o.body) {
				fail("remap:object-unreadable-or-changed:"+phase, fmt.Sprintf("%s: GET %s (class %s): kind=%q readErr=%v bytes=%d want %d", phase, o.key, o.class, res.Kind, res.ReadErr, len(res.Body), len(o.body)), wit(o, target))
				return
			}
			if res.ETag != o.etag {
				fail("remap:etag-changed:"+phase, fmt.Sprintf("%s: %s ETag %s, was %s", phase, o.key, res.ETag, o.etag), wit(o, target))
			}
			if res.Obj != nil && vkit.Deref(res.Obj.StorageClass) != o.class && !(o.class == "STANDARD" && res.Obj.StorageClass == nil) {
				fail("remap:class-mismatch:"+phase, fmt.Sprintf("%s: %s reports class %q, expected %s", phase, o.key, vkit.Deref(res.Obj.StorageClass), o.class), wit(o, target))
			}
			if res.Obj != nil && fmt.Sprint(res.Obj.Tags) != fmt.Sprint(o.tags) {
				fail("remap:tags-changed:"+phase, fmt.Sprintf("%s: %s tags %v, expected %v", phase, o.key, res.Obj.Tags, o.tags), wit(o, target))
			}
		}
		for _, o := range objs {
			check(o, "after-reopen", "")
		}
		// transitions under the new mapping, including same-class ones
		for _, o := range objs {
			targets := []string{o.class, vkit.Pick(sr, classes)}
			if o.key == "obj-repeated-part" {
				// several relabels in a row that keep the parts where they are
				targets = []string{o.class, o.class, o.class, vkit.Pick(sr, classes), o.class}
			}
			for _, target := range targets {
				res := vmodel.Exec(ctx, s2, &vmodel.Op{Kind: vmodel.OpTransition, Bucket: b, Key: o.key, TargetClass: target})
				r.Count("remap_transitions", 1)
				same := target == o.class
				if res.Kind != "" {
					fail("remap:transition-failed", fmt.Sprintf("transition %s %s->%s failed: %s", o.key, o.class, target, res.ErrText), wit(o, target))
					continue
				}
				o.class = target
				check(o, "after-transition", target)
				parts, err := insp.PartsOf(b, o.key, "null")
				if err != nil {
					r.Inconclusive("inspector: " + err.Error())
					continue
				}
				held, err := vmodel.StorePartIDs(ctx, env2.DB, s2)
				if err != nil {
					r.Inconclusive("store listing: " + err.Error())
					continue
				}
				r.Eval(fmt.Sprintf("remap|same-class=%v|%s->%s", same, storeOf(o.class), storeOf(target)))
				for _, p := range parts {
					if p.Store != storeOf(target) {
						sig := "remap:part-in-wrong-store-after-transition"
						if same {
							sig += ":same-class"
						}
						fail(sig, fmt.Sprintf("after transition of %s to %s: the new mapping routes %s to store %q but part %s is recorded in %q", o.key, target, target, storeOf(target), p.PartID, p.Store), wit(o, target))
						break
					}
					if !held[p.Store][p.PartID] {
						fail("remap:part-missing-from-store", fmt.Sprintf("after transition of %s to %s: part %s recorded in %q is not held by that store", o.key, target, p.PartID, p.Store), wit(o, target))
						break
					}
				}
			}
		}
		// everything still readable at the end, and again after a GC pass
		for _, o := range objs {
			check(o, "final", "")
		}
		if si == 0 {
			r.Sample(map[string]any{"remap_scenario": si, "old_mapping": spec.Classes, "new_mapping": newMap, "objects": len(objs)})
		}
		insp.Close()
		_ = s2.Stop(ctx)
		env2.Close()
	}
	r.Count("remap_scenarios", int64(n))
}
