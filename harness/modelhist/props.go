package main

import (
	"context"
	"database/sql"
	"encoding/json"
	"fmt"
	"os"
	"sort"
	"strings"
	"time"

	"github.com/jdillenkofer/pithos/internal/storage"
	"github.com/jdillenkofer/pithos/internal/storage/database"
	"github.com/jdillenkofer/pithos/internal/storage/metadatapart"
	"github.com/jdillenkofer/pithos/internal/verif/vkit"
	"github.com/jdillenkofer/pithos/internal/verif/vmodel"
)

type propCfg struct {
	fields   map[string]bool
	profile  func() vmodel.Profile
	stacksQ  []string
	stacksT  []string
	histQ    int // histories per stack (quick)
	histT    int
	stepsQ   int
	stepsT   int
	versions bool // read back every live version after each step
	snapEach int
	rule     string
}

func set(xs ...string) map[string]bool {
	m := map[string]bool{}
	for _, x := range xs {
		m[x] = true
	}
	return m
}

var allStacks = append(append([]string{}, vkit.PartStoreSpecs...), "named")

var cfgs = map[string]propCfg{
	"C01": {
		fields:  set("existence", "content", "size", "content-type", "bucket", "uploads", "range", "other"),
		profile: vmodel.GeneralProfile,
		stacksQ: []string{"sql", "fs", "zstd>tink>fs", "named", "ec21", "outbox>fs", "cache>fs", "gzip>fs"}, stacksT: allStacks,
		histQ: 1, histT: 6, stepsQ: 70, stepsT: 300, snapEach: 25,
		rule: "PRNG-generated sequential histories (bucket/object/copy/append/multipart/delete/tagging/versioning ops, 20% deliberately failing) executed in lock-step with the S3 reference model on each part-store stack; after every mutating step the touched keys are read back (GET) and compared (content, size, content type, absence); full API snapshot vs model every 25 steps and at the end. distinct = distinct (stack x op-kind bigram) pairs executed",
	},
	"C02": {
		fields:  set("version-id", "latest", "marker", "version-content", "version-set", "by-version"),
		profile: vmodel.VersioningProfile,
		stacksQ: []string{"sql"}, stacksT: []string{"sql", "fs"},
		histQ: 250, histT: 2500, stepsQ: 14, stepsT: 25, versions: true,
		rule: "many short histories on 1-2 keys biased to versioning toggles (Unversioned/Enabled/Suspended), writes (put/copy/complete/append), key-only and version-id deletes; after every mutating step every live version id of the touched key is re-read by id (content) and the ListObjectVersions view (ids, marker flags, IsLatest) is compared with the model's write-recency order. distinct = distinct op-kind sequences (history signatures)",
	},
	"C04": {
		fields:  set("etag", "checksum"),
		profile: vmodel.GeneralProfile,
		stacksQ: []string{"sql", "fs", "ecbig"}, stacksT: []string{"sql", "fs", "zstd>fs", "named", "ecbig", "ec32"},
		histQ: 3, histT: 12, stepsQ: 80, stepsT: 300, versions: true,
		rule: "C01 histories with every returned/read ETag and x-amz-checksum value compared to independent recomputation (stdlib MD5/CRC32/CRC32C/CRC64NVME/SHA1/SHA256 over the model's bytes and part boundaries; MD5-of-part-MD5s-N for multipart/appended; FULL_OBJECT CRCs over the concatenation), wrong supplied checksums must fail with BadDigest; plus a dedicated generator of multipart part splittings (see counters). distinct = distinct (op kind x size class x part count) tuples",
	},
	"C11": {
		fields:  set("meta", "tags", "class", "content-type"),
		profile: vmodel.MetaProfile,
		stacksQ: []string{"sql"}, stacksT: []string{"sql", "fs", "named"},
		histQ: 10, histT: 60, stepsQ: 60, stepsT: 150, versions: false,
		rule: "histories biased to writes carrying content type, six system headers, user metadata, tags, storage class and copy directives (metadata/tagging COPY|REPLACE, website redirect, class from request), appends and transitions; every read-back compares Head/Get metadata, tags (also via GetObjectTagging) and class with the reference rules. distinct = distinct (write kind x option-shape) tuples",
	},
	"C13": {
		fields:  set("version-content", "last-modified", "version-stability", "by-version"),
		profile: vmodel.VersioningProfile,
		stacksQ: []string{"sql"}, stacksT: []string{"sql", "fs"},
		histQ: 200, histT: 2000, stepsQ: 14, stepsT: 25, versions: true,
		rule: "versioning-biased histories; when a version id is first returned the monitor records (content hash, size, ETag, Last-Modified from an immediate Head by id); after every later step all recorded live versions of the touched key are re-read by id and must be unchanged (Last-Modified compared exactly), except the null version when a later unversioned/suspended write replaced it. distinct = distinct op-kind sequences",
	},
	"C14": {
		fields:  set("class", "placement", "content", "version-content", "etag", "meta", "tags", "version-id", "existence", "size"),
		profile: vmodel.TransitionProfile,
		stacksQ: []string{"named"}, stacksT: []string{"named", "named2"},
		histQ: 6, histT: 40, stepsQ: 60, stepsT: 150, versions: true, snapEach: 20,
		rule: "histories on class-routed named part stores (STANDARD->sql default, STANDARD_IA/DEEP_ARCHIVE->fs 'cold', GLACIER->tink>fs 'enc'; thorough adds a remapped configuration) biased to transitions (A->B->A, same-store, by version id, If-Match guarded), copies and dedup-identical puts; after each transition: version id/content/ETag/metadata/tags unchanged, reported class = target, and a placement monitor reads the parts table: every part row of the version names the store mapped to its class and that store holds the part id; all objects stay readable. distinct = distinct (from-class,to-class,same-store?) transition tuples",
	},
}

type witness struct {
	Ladder  *int                `json:"ladder_index,omitempty"`
	Stack   string              `json:"stack"`
	Profile string              `json:"profile"`
	Index   int                 `json:"history_index"`
	Steps   int                 `json:"steps"`
	Tail    []vmodel.StepLog    `json:"last_steps"`
	Divs    []vmodel.Divergence `json:"divergences"`
}

func openStack(r *vkit.Run, name string, spec string) (*vkit.Env, storage.Storage, error) {
	env, err := vkit.OpenEnv(r.SubDir(name))
	if err != nil {
		return nil, nil, err
	}
	var s storage.Storage
	if spec == "named2" {
		s, err = env.NewNamedStorage(vkit.NamedSpec{Default: "fs", Extra: map[string]string{"cold": "sql", "enc": "tink>fs"}, Classes: map[string]string{"STANDARD_IA": "cold", "GLACIER": "enc", "ONEZONE_IA": "enc"}}, vkit.FastGC()...)
	} else {
		s, err = env.NewStorage(spec, vkit.FastGC()...)
	}
	if err != nil {
		env.Close()
		return nil, nil, err
	}
	return env, s, nil
}

func runModelProp(prop, tier, replay string) {
	cfg := cfgs[prop]
	level := "exploration"
	r := vkit.Begin(prop, level, tier)
	r.SetRule(cfg.rule)
	r.Assume("oracle = deterministic in-memory S3 reference model (harness/vmodel) written from S3 semantics and DESIGN.md §6, version ids opaque")
	ctx := context.Background()
	stacks := cfg.stacksQ
	nh, steps := cfg.histQ, cfg.stepsQ
	if r.Thorough() {
		stacks, nh, steps = cfg.stacksT, cfg.histT, cfg.stepsT
	}
	only := -1
	onlyLadder := -1
	onlyStack := ""
	if replay != "" {
		b, err := os.ReadFile(replay)
		if err != nil {
			fmt.Println("cannot read replay:", err)
			os.Exit(3)
		}
		var w struct {
			Seed    uint64  `json:"seed"`
			Tier    string  `json:"tier"`
			Witness witness `json:"witness"`
		}
		if err := json.Unmarshal(b, &w); err != nil {
			fmt.Println("bad replay file:", err)
			os.Exit(3)
		}
		r.Seed = w.Seed
		only, onlyStack = w.Witness.Index, w.Witness.Stack
		steps = w.Witness.Steps
		if w.Witness.Ladder != nil {
			onlyLadder, only = *w.Witness.Ladder, 1<<30
		}
	}
	base := r.Rand()
	for _, stack := range stacks {
		if onlyStack != "" && stack != onlyStack {
			continue
		}
		env, s, err := openStack(r, "env-"+strings.NewReplacer(">", "_").Replace(stack), stack)
		if err != nil {
			r.Inconclusive("cannot build stack " + stack + ": " + err.Error())
			continue
		}
		r.Seen("stacks", stack)
		for i := 0; i < nh; i++ {
			if only >= 0 && i != only {
				continue
			}
			rng := base.Fork(fmt.Sprintf("%s/%s/%d", prop, stack, i))
			prof := cfg.profile()
			// each history uses its own bucket names so that one storage serves many histories
			for bi := range prof.Buckets {
				prof.Buckets[bi] = fmt.Sprintf("%s-%d", prof.Buckets[bi], i)
			}
			hc := vmodel.HistoryConfig{
				Storage: s, Rand: rng, Profile: prof, Steps: steps, SnapEach: cfg.snapEach, ReadbackVersions: cfg.versions,
				InScope: func(d vmodel.Divergence) bool { return cfg.fields[d.Field] },
			}
			var mon *stabilityMonitor
			if prop == "C13" {
				mon = newStabilityMonitor(ctx, s)
				hc.Hook = mon.hook
			}
			var pm *placementMonitor
			if prop == "C14" {
				pm = newPlacementMonitor(ctx, r, env, s, stack)
				hc.Hook = pm.hook
			}
			h := vmodel.RunHistory(ctx, hc)
			account(r, prop, stack, h)
			if len(h.Divergences) > 0 {
				d := h.Divergences[0]
				tail := 12
				if replay != "" {
					tail = 100000
				}
				r.Violation(d.Sig, d.What, witness{Stack: stack, Profile: prof.Name, Index: i, Steps: steps, Tail: h.Tail(tail), Divs: h.Divergences})
			}
			if i == 0 && stack == stacks[0] {
				r.Sample(map[string]any{"stack": stack, "history": h.Tail(8)})
			}
			// clean up this history's buckets so the storage stays small
			cleanup(ctx, s, h.Model)
		}
		if prop == "C04" {
			partSplittings(ctx, r, s, stack, base.Fork("splits/"+stack))
		}
		if prop == "C01" && only < 0 {
			staleUploadScripts(ctx, r, s, stack, base.Fork("stale-upload-scripts/"+stack), cfg)
		}
		if prop == "C11" && only < 0 {
			metaReuseScripts(ctx, r, s, stack, base.Fork("meta-scripts/"+stack), cfg)
		}
		httpHeaderCombinationsIf(ctx, r, prop, s, stack, base, only) // C11 only: HTTP header-combination part (c11http.go)
		if (prop == "C02" || prop == "C13") && (only < 0 || onlyLadder >= 0) {
			promotionLadders(ctx, r, prop, s, stack, base.Fork("ladders/"+stack), cfg, onlyLadder)
		}
		_ = s.Stop(ctx)
		env.Close()
	}
	if prop == "C14" && replay == "" {
		remapScenarios(ctx, r, base.Fork("remap"))
	}
	if replay != "" {
		if r.Violations() > 0 {
			fmt.Println("replay: reproduced")
		} else {
			fmt.Println("replay: not reproduced")
		}
	}
	if r.Counter("steps") == 0 {
		r.Inconclusive("no steps executed")
	}
	r.Finish()
}

func account(r *vkit.Run, prop, stack string, h *vmodel.HistoryResult) {
	seq := make([]string, 0, len(h.Steps))
	for k, n := range h.OpsByKind {
		r.Count("op:"+k, int64(n))
		r.Count("steps", int64(n))
	}
	for k, n := range h.ErrKinds {
		r.Count("errkind:"+k, int64(n))
	}
	r.Count("out_of_scope_divergences", int64(len(h.OutOfScope)))
	for _, d := range h.OutOfScope {
		r.Seen("out_of_scope_signatures", d.Field+":"+d.Sig)
	}
	if h.Aborted != "" {
		r.Count("histories_aborted_by_out_of_scope_divergence", 1)
	}
	for _, o := range h.Observations {
		if r.SeenCount("observations") < 30 {
			r.Seen("observations", o)
		}
	}
	switch prop {
	case "C02", "C13":
		for _, s := range h.Steps {
			f := strings.Fields(s.Op)
			if len(f) > 0 && !strings.Contains(s.Op, "[readback") {
				seq = append(seq, f[0])
			}
		}
		r.Eval(strings.Join(seq, ","))
	default:
		r.Eval("")
		for bg := range h.Bigrams {
			r.Distinct(stack + "|" + bg)
		}
	}
}

func cleanup(ctx context.Context, s storage.Storage, m *vmodel.Model) {
	names := make([]string, 0, len(m.Buckets))
	for n := range m.Buckets {
		names = append(names, n)
	}
	sort.Strings(names)
	for _, n := range names {
		b := m.Buckets[n]
		bn := storage.MustNewBucketName(n)
		for _, u := range b.Uploads {
			_ = s.AbortMultipartUpload(ctx, bn, storage.MustNewObjectKey(u.Key), storage.MustNewUploadId(u.ID))
		}
		for page := 0; page < 100; page++ {
			res, err := s.ListObjectVersions(ctx, bn, storage.ListObjectVersionsOptions{MaxKeys: 1000})
			if err != nil || len(res.Versions) == 0 {
				break
			}
			for _, v := range res.Versions {
				id := v.VersionID
				_, _ = s.DeleteObject(ctx, bn, v.Key, &storage.DeleteObjectOptions{VersionID: &id})
			}
		}
		_ = s.DeleteBucket(ctx, bn)
	}
	_ = metadatapart.RunGCOnce(ctx, s)
}

var _ = database.WithTx
var _ = sql.ErrNoRows
var _ = time.Now
