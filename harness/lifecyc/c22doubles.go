package main

import (
	"context"
	"database/sql"
	"encoding/json"
	"errors"
	"io"
	"strings"
	"sync"
	"sync/atomic"
	"time"

	"github.com/oklog/ulid/v2"

	"github.com/jdillenkofer/pithos/internal/storage"
	"github.com/jdillenkofer/pithos/internal/storage/database"
	"github.com/jdillenkofer/pithos/internal/storage/metadatapart/partstore"
	"github.com/jdillenkofer/pithos/internal/storage/middlewares/delegator"
	"github.com/jdillenkofer/pithos/internal/storage/notification"
)

var errInjected = errors.New("verif: injected fault")

// ---- faulting storage double (between the notification middleware and the real storage) ----

type faultStorage struct {
	delegator.DelegatingStorage
	mu    sync.Mutex
	arm   string // operation name to fail ("" = none)
	phase string // before | after (after = the real call ran inside the shared transaction, then the error is returned)
	fired bool
}

func (f *faultStorage) set(op, phase string) {
	f.mu.Lock()
	f.arm, f.phase, f.fired = op, phase, false
	f.mu.Unlock()
}

func (f *faultStorage) didFire() bool { f.mu.Lock(); defer f.mu.Unlock(); return f.fired }

func (f *faultStorage) hit(op, phase string) error {
	f.mu.Lock()
	defer f.mu.Unlock()
	if f.arm == op && f.phase == phase && !f.fired {
		f.fired = true
		return errInjected
	}
	return nil
}

func (f *faultStorage) PutObject(ctx context.Context, b storage.BucketName, k storage.ObjectKey, ct *string, d io.Reader, ci *storage.ChecksumInput, o *storage.PutObjectOptions) (*storage.PutObjectResult, error) {
	if err := f.hit("PutObject", "before"); err != nil {
		return nil, err
	}
	res, err := f.Next.PutObject(ctx, b, k, ct, d, ci, o)
	if err == nil {
		if e := f.hit("PutObject", "after"); e != nil {
			return nil, e
		}
	}
	return res, err
}

func (f *faultStorage) CopyObject(ctx context.Context, sb storage.BucketName, sk storage.ObjectKey, db storage.BucketName, dk storage.ObjectKey, o *storage.CopyObjectOptions) (*storage.CopyObjectResult, error) {
	if err := f.hit("CopyObject", "before"); err != nil {
		return nil, err
	}
	res, err := f.Next.CopyObject(ctx, sb, sk, db, dk, o)
	if err == nil {
		if e := f.hit("CopyObject", "after"); e != nil {
			return nil, e
		}
	}
	return res, err
}

func (f *faultStorage) CompleteMultipartUpload(ctx context.Context, b storage.BucketName, k storage.ObjectKey, u storage.UploadId, ci *storage.ChecksumInput, o *storage.CompleteMultipartUploadOptions) (*storage.CompleteMultipartUploadResult, error) {
	if err := f.hit("CompleteMultipartUpload", "before"); err != nil {
		return nil, err
	}
	res, err := f.Next.CompleteMultipartUpload(ctx, b, k, u, ci, o)
	if err == nil {
		if e := f.hit("CompleteMultipartUpload", "after"); e != nil {
			return nil, e
		}
	}
	return res, err
}

func (f *faultStorage) DeleteObject(ctx context.Context, b storage.BucketName, k storage.ObjectKey, o *storage.DeleteObjectOptions) (*storage.DeleteObjectResult, error) {
	if err := f.hit("DeleteObject", "before"); err != nil {
		return nil, err
	}
	res, err := f.Next.DeleteObject(ctx, b, k, o)
	if err == nil {
		if e := f.hit("DeleteObject", "after"); e != nil {
			return nil, e
		}
	}
	return res, err
}

func (f *faultStorage) DeleteObjects(ctx context.Context, b storage.BucketName, e []storage.DeleteObjectsInputEntry) (*storage.DeleteObjectsResult, error) {
	if err := f.hit("DeleteObjects", "before"); err != nil {
		return nil, err
	}
	res, err := f.Next.DeleteObjects(ctx, b, e)
	if err == nil {
		if e := f.hit("DeleteObjects", "after"); e != nil {
			return nil, e
		}
	}
	return res, err
}

func (f *faultStorage) PutObjectTagging(ctx context.Context, b storage.BucketName, k storage.ObjectKey, t map[string]string, o *storage.ObjectTaggingOptions) error {
	if err := f.hit("PutObjectTagging", "before"); err != nil {
		return err
	}
	err := f.Next.PutObjectTagging(ctx, b, k, t, o)
	if err == nil {
		if e := f.hit("PutObjectTagging", "after"); e != nil {
			return e
		}
	}
	return err
}

func (f *faultStorage) DeleteObjectTagging(ctx context.Context, b storage.BucketName, k storage.ObjectKey, o *storage.ObjectTaggingOptions) error {
	if err := f.hit("DeleteObjectTagging", "before"); err != nil {
		return err
	}
	err := f.Next.DeleteObjectTagging(ctx, b, k, o)
	if err == nil {
		if e := f.hit("DeleteObjectTagging", "after"); e != nil {
			return e
		}
	}
	return err
}

func (f *faultStorage) TransitionObjectStorageClass(ctx context.Context, b storage.BucketName, k storage.ObjectKey, c string, o *storage.TransitionObjectStorageClassOptions) error {
	if err := f.hit("TransitionObjectStorageClass", "before"); err != nil {
		return err
	}
	err := f.Next.TransitionObjectStorageClass(ctx, b, k, c, o)
	if err == nil {
		if e := f.hit("TransitionObjectStorageClass", "after"); e != nil {
			return e
		}
	}
	return err
}

// ---- faulting part store (leaf) ----

type faultPartStore struct {
	partstore.PartStore
	mu    sync.Mutex
	armed string // "", "before", "after"
	fired bool
}

func (p *faultPartStore) set(mode string) { p.mu.Lock(); p.armed, p.fired = mode, false; p.mu.Unlock() }
func (p *faultPartStore) didFire() bool   { p.mu.Lock(); defer p.mu.Unlock(); return p.fired }

func (p *faultPartStore) PutPart(ctx context.Context, tx database.Tx, id partstore.PartId, r io.Reader) error {
	p.mu.Lock()
	mode := p.armed
	if mode != "" && !p.fired {
		p.fired = true
	} else {
		mode = ""
	}
	p.mu.Unlock()
	if mode == "before" {
		return errInjected
	}
	err := p.PartStore.PutPart(ctx, tx, id, r)
	if err == nil && mode == "after" {
		return errInjected
	}
	return err
}

// ---- recording / faulting notification repository ----

type repoEvent struct {
	Seq      int64     `json:"seq"`
	Call     string    `json:"call"` // save claim release deadletter delete
	ID       string    `json:"id,omitempty"`
	OK       bool      `json:"ok"`
	Attempts int       `json:"attempts,omitempty"`
	Now      time.Time `json:"now,omitempty"`
	Next     time.Time `json:"next_attempt_at,omitempty"`
	ARN      string    `json:"arn,omitempty"`
	Event    string    `json:"event,omitempty"`
	Key      string    `json:"key,omitempty"`
}

type recRepo struct {
	notification.Repository
	seq *atomic.Int64

	mu       sync.Mutex
	saveN    int    // Save calls since the last reset
	failAt   int    // fail the n-th Save (0 = never)
	failMode string // before | after
	fired    bool
	log      []repoEvent
}

func (r *recRepo) armSave(n int, mode string) {
	r.mu.Lock()
	r.saveN, r.failAt, r.failMode, r.fired = 0, n, mode, false
	r.mu.Unlock()
}

func (r *recRepo) saveCalls() int { r.mu.Lock(); defer r.mu.Unlock(); return r.saveN }
func (r *recRepo) didFire() bool  { r.mu.Lock(); defer r.mu.Unlock(); return r.fired }

func (r *recRepo) add(e repoEvent) {
	e.Seq = r.seq.Add(1)
	r.mu.Lock()
	r.log = append(r.log, e)
	r.mu.Unlock()
}

func (r *recRepo) events() []repoEvent {
	r.mu.Lock()
	defer r.mu.Unlock()
	return append([]repoEvent{}, r.log...)
}

func (r *recRepo) Save(ctx context.Context, tx *sql.Tx, outboxID string, entry *notification.OutboxEntry) error {
	r.mu.Lock()
	r.saveN++
	mode := ""
	if r.failAt > 0 && r.saveN == r.failAt && !r.fired {
		r.fired = true
		mode = r.failMode
	}
	r.mu.Unlock()
	if mode == "before" {
		return errInjected
	}
	err := r.Repository.Save(ctx, tx, outboxID, entry)
	if err == nil && mode == "after" {
		return errInjected
	}
	id := ""
	if entry.ID != nil {
		id = entry.ID.String()
	}
	b, k := payloadBucketKey(entry.Payload)
	_ = b
	r.add(repoEvent{Call: "save", ID: id, OK: err == nil, ARN: entry.DestinationARN, Event: entry.EventName, Key: k})
	return err
}

func (r *recRepo) ClaimFirst(ctx context.Context, tx *sql.Tx, outboxID, owner string, now, until time.Time) (*notification.OutboxEntry, bool, error) {
	e, ok, err := r.Repository.ClaimFirst(ctx, tx, outboxID, owner, now, until)
	if err == nil && ok && e != nil {
		r.add(repoEvent{Call: "claim", ID: e.ID.String(), OK: true, Attempts: e.Attempts, Now: now, Next: e.NextAttemptAt})
	}
	return e, ok, err
}

func (r *recRepo) ReleaseClaim(ctx context.Context, tx *sql.Tx, outboxID string, id ulid.ULID, owner string, next, now time.Time, lastErr string) (bool, error) {
	ok, err := r.Repository.ReleaseClaim(ctx, tx, outboxID, id, owner, next, now, lastErr)
	r.add(repoEvent{Call: "release", ID: id.String(), OK: ok && err == nil, Now: now, Next: next})
	return ok, err
}

func (r *recRepo) DeadLetter(ctx context.Context, tx *sql.Tx, outboxID string, id ulid.ULID, owner string, now time.Time, lastErr string) (bool, error) {
	ok, err := r.Repository.DeadLetter(ctx, tx, outboxID, id, owner, now, lastErr)
	r.add(repoEvent{Call: "deadletter", ID: id.String(), OK: ok && err == nil, Now: now})
	return ok, err
}

func (r *recRepo) DeleteByClaimOwner(ctx context.Context, tx *sql.Tx, outboxID string, id ulid.ULID, owner string) (bool, error) {
	ok, err := r.Repository.DeleteByClaimOwner(ctx, tx, outboxID, id, owner)
	r.add(repoEvent{Call: "delete", ID: id.String(), OK: ok && err == nil})
	return ok, err
}

// ---- scripted publisher ----

type pubEvent struct {
	Seq       int64     `json:"seq"`
	ID        string    `json:"id"`
	Attempts  int       `json:"attempts"`
	ClaimedAt time.Time `json:"claimed_at"`      // entry.UpdatedAt = the claim's "now", written by pithos
	StoredNext time.Time `json:"stored_next"`    // entry.NextAttemptAt as read from the row by the claim
	Key       string    `json:"key"`
	ARN       string    `json:"arn"`
	Event     string    `json:"event"`
	Failed    bool      `json:"failed"`
}

// scriptPublisher fails the first k publish attempts of an entry, k taken from
// the object key ("...-fail<k>..."; "-failall" = always).
type scriptPublisher struct {
	seq *atomic.Int64
	mu  sync.Mutex
	n   map[string]int
	log []pubEvent
	testEvents int
}

func failCountFromKey(key string) int {
	i := strings.Index(key, "-fail")
	if i < 0 {
		return 0
	}
	rest := key[i+5:]
	if strings.HasPrefix(rest, "all") {
		return 1 << 30
	}
	n := 0
	for _, c := range rest {
		if c < '0' || c > '9' {
			break
		}
		n = n*10 + int(c-'0')
	}
	return n
}

func (p *scriptPublisher) Publish(ctx context.Context, e *notification.OutboxEntry) error {
	if e.EventName == notification.EventTestEvent {
		p.mu.Lock()
		p.testEvents++
		p.mu.Unlock()
		return nil
	}
	_, key := payloadBucketKey(e.Payload)
	id := ""
	if e.ID != nil {
		id = e.ID.String()
	}
	p.mu.Lock()
	if p.n == nil {
		p.n = map[string]int{}
	}
	p.n[id]++
	fail := p.n[id] <= failCountFromKey(key)
	p.log = append(p.log, pubEvent{Seq: p.seq.Add(1), ID: id, Attempts: e.Attempts, ClaimedAt: e.UpdatedAt, StoredNext: e.NextAttemptAt, Key: key, ARN: e.DestinationARN, Event: e.EventName, Failed: fail})
	p.mu.Unlock()
	if fail {
		return errors.New("verif: scripted publish failure")
	}
	return nil
}

func (p *scriptPublisher) Validate(context.Context, string, notification.Destination) error { return nil }

func (p *scriptPublisher) events() []pubEvent {
	p.mu.Lock()
	defer p.mu.Unlock()
	return append([]pubEvent{}, p.log...)
}

// payloadBucketKey extracts bucket and key from either payload format.
func payloadBucketKey(payload []byte) (string, string) {
	var s3 struct {
		Records []struct {
			S3 struct {
				Bucket struct{ Name string `json:"name"` } `json:"bucket"`
				Object struct{ Key string `json:"key"` }   `json:"object"`
			} `json:"s3"`
		} `json:"Records"`
		Detail *struct {
			Bucket struct{ Name string `json:"name"` } `json:"bucket"`
			Object struct{ Key string `json:"key"` }   `json:"object"`
		} `json:"detail"`
	}
	if json.Unmarshal(payload, &s3) != nil {
		return "", ""
	}
	if len(s3.Records) > 0 {
		return s3.Records[0].S3.Bucket.Name, s3.Records[0].S3.Object.Key
	}
	if s3.Detail != nil {
		return s3.Detail.Bucket.Name, s3.Detail.Object.Key
	}
	return "", ""
}
