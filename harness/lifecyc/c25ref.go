package main

// Reference evaluator for C25: an independent re-implementation of the S3
// lifecycle semantics the property names, written from the S3 user guide
// ("Lifecycle configuration elements", "How S3 calculates how long an object
// has been noncurrent", "Expiring objects", "Removing expired object delete
// markers"). It never calls pithos' own due-time / matching helpers.
//
// It answers one question only: "is THIS action, performed NOW on THIS item of
// the true history, permitted by some enabled rule?". Not acting is never
// judged.

import (
	"fmt"
	"sort"
	"strings"
	"time"
)

type kv struct {
	K string `json:"k"`
	V string `json:"v"`
}

type andSpec struct {
	Prefix *string `json:"prefix,omitempty"`
	Tags   []kv    `json:"tags,omitempty"`
	SizeGT *int64  `json:"size_gt,omitempty"`
	SizeLT *int64  `json:"size_lt,omitempty"`
}

type filterSpec struct {
	Prefix *string  `json:"prefix,omitempty"`
	Tag    *kv      `json:"tag,omitempty"`
	SizeGT *int64   `json:"size_gt,omitempty"`
	SizeLT *int64   `json:"size_lt,omitempty"`
	And    *andSpec `json:"and,omitempty"`
}

type transSpec struct {
	Days    *int32 `json:"days,omitempty"`
	DateOff *int   `json:"date_off_days,omitempty"` // midnight UTC of (run day + off)
	Class   string `json:"class"`
}

type ncTransSpec struct {
	Days  int32  `json:"days"`
	Keep  *int32 `json:"keep,omitempty"`
	Class string `json:"class"`
}

// ruleSpec is the generator's own description of one lifecycle rule. It is
// converted to pithos' configuration type for the real code and interpreted
// directly by the reference.
type ruleSpec struct {
	ID            string        `json:"id"`
	Enabled       bool          `json:"enabled"`
	LegacyPrefix  *string       `json:"legacy_prefix,omitempty"`
	Filter        *filterSpec   `json:"filter,omitempty"`
	ExpDays       *int32        `json:"exp_days,omitempty"`
	ExpDateOff    *int          `json:"exp_date_off_days,omitempty"`
	ExpiredMarker bool          `json:"expired_object_delete_marker,omitempty"`
	AbortDays     *int32        `json:"abort_days,omitempty"`
	Transitions   []transSpec   `json:"transitions,omitempty"`
	NcExpDays     *int32        `json:"nc_exp_days,omitempty"`
	NcExpKeep     *int32        `json:"nc_exp_keep,omitempty"`
	NcTransitions []ncTransSpec `json:"nc_transitions,omitempty"`
}

func (r *ruleSpec) prefix() string {
	if r.LegacyPrefix != nil {
		return *r.LegacyPrefix
	}
	if r.Filter == nil {
		return ""
	}
	if r.Filter.Prefix != nil {
		return *r.Filter.Prefix
	}
	if r.Filter.And != nil && r.Filter.And.Prefix != nil {
		return *r.Filter.And.Prefix
	}
	return ""
}

func (r *ruleSpec) tagPreds() []kv {
	if r.Filter == nil {
		return nil
	}
	var out []kv
	if r.Filter.Tag != nil {
		out = append(out, *r.Filter.Tag)
	}
	if r.Filter.And != nil {
		out = append(out, r.Filter.And.Tags...)
	}
	return out
}

func (r *ruleSpec) sizePreds() (gt, lt *int64) {
	if r.Filter == nil {
		return nil, nil
	}
	gt, lt = r.Filter.SizeGT, r.Filter.SizeLT
	if r.Filter.And != nil {
		if r.Filter.And.SizeGT != nil {
			gt = r.Filter.And.SizeGT
		}
		if r.Filter.And.SizeLT != nil {
			lt = r.Filter.And.SizeLT
		}
	}
	return
}

// filterFails lists which filter predicates of the rule the item fails.
// prefixOnly is used for delete markers and uploads, which have neither tags
// nor a meaningful size (permissive reading).
func (r *ruleSpec) filterFails(key string, size int64, tags map[string]string, prefixOnly bool) []string {
	var fails []string
	if !strings.HasPrefix(key, r.prefix()) {
		fails = append(fails, "filter-prefix")
	}
	if prefixOnly {
		return fails
	}
	for _, t := range r.tagPreds() {
		if v, ok := tags[t.K]; !ok || v != t.V {
			fails = append(fails, "filter-tag")
			break
		}
	}
	gt, lt := r.sizePreds()
	if (gt != nil && !(size > *gt)) || (lt != nil && !(size < *lt)) {
		fails = append(fails, "filter-size")
	}
	return fails
}

// tagMiss classifies the first tag predicate of the rule that the tag set does
// not satisfy (for violation signatures only).
func (r *ruleSpec) tagMiss(tags map[string]string) string {
	for _, t := range r.tagPreds() {
		v, ok := tags[t.K]
		if ok && v == t.V {
			continue
		}
		d := "tag-value-differs"
		if !ok {
			d = "tag-key-absent"
			if len(tags) == 0 {
				d = "object-untagged"
			}
		}
		if t.V == "" {
			d += ":empty-valued-predicate"
		}
		return d
	}
	return ""
}

// dueAfterDays: S3 rounds day-based lifecycle instants up to the next midnight
// UTC: created 2014-01-15T10:30Z with Days=3 is due 2014-01-19T00:00Z.
func dueAfterDays(t time.Time, days int32) time.Time {
	t = t.UTC()
	dayStart := time.Date(t.Year(), t.Month(), t.Day(), 0, 0, 0, 0, time.UTC)
	return dayStart.Add(time.Duration(int64(days)+1) * 24 * time.Hour)
}

// ---- model of the true history ----

type mVersion struct {
	ID              string            `json:"id"`
	Marker          bool              `json:"marker,omitempty"`
	Size            int64             `json:"size"`
	Tags            map[string]string `json:"tags,omitempty"`
	Class           string            `json:"class"`
	ETag            string            `json:"etag,omitempty"`
	Created         time.Time         `json:"created"`
	NoncurrentSince *time.Time        `json:"noncurrent_since,omitempty"`
	Seq             int               `json:"seq"`
	ContentSeed     uint64            `json:"-"`
	ContentVariant  int               `json:"-"`
	Replaced        string            `json:"replaced_after_listing,omitempty"` // "", "identical", "different"
}

type mUpload struct {
	Key       string    `json:"key"`
	ID        string    `json:"id"`
	Initiated time.Time `json:"initiated"`
}

type model struct {
	Versioning string                 `json:"versioning"` // off | enabled | suspended
	Keys       map[string][]*mVersion `json:"keys"`       // oldest first; last = current
	Uploads    []*mUpload             `json:"uploads,omitempty"`
	seq        int
}

func newModel() *model { return &model{Versioning: "off", Keys: map[string][]*mVersion{}} }

func (m *model) current(key string) *mVersion {
	l := m.Keys[key]
	if len(l) == 0 {
		return nil
	}
	return l[len(l)-1]
}

func (m *model) find(key, id string) (*mVersion, int) {
	for i, v := range m.Keys[key] {
		if v.ID == id {
			return v, i
		}
	}
	return nil, -1
}

func (m *model) removeAt(key string, i int) {
	l := m.Keys[key]
	l = append(l[:i:i], l[i+1:]...)
	if len(l) == 0 {
		delete(m.Keys, key)
	} else {
		m.Keys[key] = l
	}
}

func (m *model) supersede(key string, at time.Time) {
	if cur := m.current(key); cur != nil && cur.NoncurrentSince == nil {
		t := at
		cur.NoncurrentSince = &t
	}
}

func (m *model) applyPut(key string, nv *mVersion) {
	if m.Versioning != "enabled" {
		if _, i := m.find(key, "null"); i >= 0 {
			m.removeAt(key, i)
		}
	}
	m.supersede(key, nv.Created)
	m.seq++
	nv.Seq = m.seq
	nv.NoncurrentSince = nil
	m.Keys[key] = append(m.Keys[key], nv)
}

// applyKeyDelete models DeleteObject without a version id.
func (m *model) applyKeyDelete(key string, markerID string, created time.Time) {
	switch m.Versioning {
	case "off":
		if _, i := m.find(key, "null"); i >= 0 {
			m.removeAt(key, i)
		}
		return
	case "suspended":
		if _, i := m.find(key, "null"); i >= 0 {
			m.removeAt(key, i)
		}
	}
	m.supersede(key, created)
	m.seq++
	m.Keys[key] = append(m.Keys[key], &mVersion{ID: markerID, Marker: true, Class: "STANDARD", Created: created, Seq: m.seq})
}

func (m *model) applyVersionDelete(key, id string) bool {
	_, i := m.find(key, id)
	if i < 0 {
		return false
	}
	wasCurrent := i == len(m.Keys[key])-1
	m.removeAt(key, i)
	if wasCurrent {
		if cur := m.current(key); cur != nil {
			cur.NoncurrentSince = nil
		}
	}
	return true
}

func (m *model) shift(d time.Duration) {
	for _, l := range m.Keys {
		for _, v := range l {
			v.Created = v.Created.Add(-d)
			if v.NoncurrentSince != nil {
				t := v.NoncurrentSince.Add(-d)
				v.NoncurrentSince = &t
			}
		}
	}
	for _, u := range m.Uploads {
		u.Initiated = u.Initiated.Add(-d)
	}
}

func (m *model) sortedKeys() []string {
	ks := make([]string, 0, len(m.Keys))
	for k := range m.Keys {
		ks = append(ks, k)
	}
	sort.Strings(ks)
	return ks
}

// ---- evaluation ----

type clauseEval struct {
	Rule   int        `json:"rule"`
	Clause string     `json:"clause"`
	Fails  []string   `json:"fails,omitempty"`
	Due    *time.Time `json:"due,omitempty"`
}

type verdict struct {
	OK     bool         `json:"ok"`
	Noop   bool         `json:"noop,omitempty"`
	Sig    string       `json:"signature,omitempty"`
	Best   *clauseEval  `json:"best_clause,omitempty"`
	Evals  []clauseEval `json:"evaluated_clauses,omitempty"`
	Family string       `json:"family,omitempty"`
	// PreferenceSuspect: the transition itself is due, but the reference also
	// finds an expiration of the same item due. Classified at the end of the
	// pass (did the reconciler itself expire the item at that same clock?).
	PreferenceSuspect bool `json:"preference_suspect,omitempty"`
}

type evaluator struct {
	rules []ruleSpec
	today time.Time // midnight UTC of the run day (anchor of Date rules)
	m     *model
	// listed is the true history as it stood when the reconciler last started
	// a ListObjectVersions sweep: key -> (seq, was current) of every version.
	// Retention counts are judged against that snapshot as well, because rules
	// are evaluated on one consistent listing: versions the reconciler removed
	// earlier in the same sweep (under another rule) still count as "newer
	// noncurrent versions" of the ones it removes later.
	listed map[string][]listedVersion
}

type listedVersion struct {
	seq     int
	current bool
}

func (e *evaluator) freezeListing() {
	e.listed = map[string][]listedVersion{}
	for k, l := range e.m.Keys {
		for i, v := range l {
			e.listed[k] = append(e.listed[k], listedVersion{seq: v.Seq, current: i == len(l)-1})
		}
	}
}

func (e *evaluator) dateOff(off int) time.Time { return e.today.Add(time.Duration(off) * 24 * time.Hour) }

func timeGate(fails []string, now, due time.Time) []string {
	if now.Before(due) {
		return append(fails, "early")
	}
	return fails
}

func ptrTime(t time.Time) *time.Time { return &t }

var failPriority = []string{"early", "keep-count", "not-sole-version:noncurrent-object-versions", "not-sole-version:noncurrent-delete-markers", "filter-tag", "filter-size", "filter-prefix", "rule-disabled"}

func primaryFail(fails []string) string {
	for _, p := range failPriority {
		for _, f := range fails {
			if f == p {
				return p
			}
		}
	}
	if len(fails) > 0 {
		return fails[0]
	}
	return ""
}

// decide picks the clause that comes closest to justifying the action and
// derives the violation signature from what it still fails.
func decide(family string, evals []clauseEval, noRuleSig string) verdict {
	v := verdict{Evals: evals, Family: family}
	if len(evals) == 0 {
		v.Sig = noRuleSig
		return v
	}
	// closest clause = fewest unmet conditions; among equals prefer one whose
	// time gate is met (the clock comparison is the least likely thing the
	// reconciler got wrong when another clause explains the action by time)
	early := func(ce clauseEval) int {
		for _, f := range ce.Fails {
			if f == "early" {
				return 1
			}
		}
		return 0
	}
	best := 0
	for i := range evals {
		if len(evals[i].Fails) < len(evals[best].Fails) || (len(evals[i].Fails) == len(evals[best].Fails) && early(evals[i]) < early(evals[best])) {
			best = i
		}
	}
	b := evals[best]
	v.Best = &b
	if len(b.Fails) == 0 {
		v.OK = true
		return v
	}
	switch p := primaryFail(b.Fails); p {
	case "early":
		v.Sig = "acted-early:" + b.Clause
	case "keep-count":
		v.Sig = "acted-wrong:" + family + "-keep-count"
	default:
		v.Sig = "acted-wrong:" + p + ":" + family
	}
	return v
}

func (e *evaluator) evalsExpireCurrent(key string, cur *mVersion, now time.Time) []clauseEval {
	var evals []clauseEval
	for i := range e.rules {
		r := &e.rules[i]
		if r.ExpDays == nil && r.ExpDateOff == nil {
			continue
		}
		var fails []string
		if !r.Enabled {
			fails = append(fails, "rule-disabled")
		}
		fails = append(fails, r.filterFails(key, cur.Size, cur.Tags, cur.Marker)...)
		var due time.Time
		clause := "expiration-days"
		if r.ExpDays != nil {
			due = dueAfterDays(cur.Created, *r.ExpDays)
		} else {
			due = e.dateOff(*r.ExpDateOff)
			clause = "expiration-date"
		}
		fails = timeGate(fails, now, due)
		evals = append(evals, clauseEval{Rule: i, Clause: clause, Fails: fails, Due: ptrTime(due)})
	}
	return evals
}

// judgeExpireCurrent: DeleteObject(key) without version id = "expire the
// current version" (removes it on an unversioned bucket, adds a delete marker
// on a versioned one).
func (e *evaluator) judgeExpireCurrent(key string, now time.Time) verdict {
	cur := e.m.current(key)
	if cur == nil || cur.Marker {
		return verdict{Sig: "acted-wrong:expire-without-current-object", Family: "expiration"}
	}
	return decide("expiration", e.evalsExpireCurrent(key, cur, now), "acted-wrong:no-rule:expiration")
}

// newerNoncurrentObjects is the strict reading of the same count: delete
// markers are not counted. It is used only where a due expiration is held
// AGAINST an action (expiration-before-transition), so that the monitor faults
// a transition only if the expiration is due under every reading.
func (e *evaluator) newerNoncurrentObjects(key string, idx int) int {
	l := e.m.Keys[key]
	n := 0
	for i := idx + 1; i < len(l)-1; i++ {
		if !l[i].Marker {
			n++
		}
	}
	return n
}

func (e *evaluator) newerNoncurrent(key string, idx int) int {
	// noncurrent versions (objects and delete markers alike - the permissive
	// reading) that are newer than the one at idx; the last entry is current.
	l := e.m.Keys[key]
	n := len(l) - 1 - (idx + 1)
	if n < 0 {
		n = 0
	}
	atListing := 0
	for _, lv := range e.listed[key] {
		if lv.seq > l[idx].Seq && !lv.current {
			atListing++
		}
	}
	if atListing > n {
		return atListing
	}
	return n
}

func (e *evaluator) noncurrentSince(key string, idx int) time.Time {
	l := e.m.Keys[key]
	v := l[idx]
	if v.NoncurrentSince != nil {
		return *v.NoncurrentSince
	}
	// defensive: successor's creation
	if idx+1 < len(l) {
		return l[idx+1].Created
	}
	return v.Created
}

func (e *evaluator) evalsNoncurrentExpire(key string, idx int, now time.Time) []clauseEval {
	return e.evalsNoncurrentExpireReading(key, idx, now, false)
}

func (e *evaluator) evalsNoncurrentExpireReading(key string, idx int, now time.Time, strict bool) []clauseEval {
	v := e.m.Keys[key][idx]
	var evals []clauseEval
	for i := range e.rules {
		r := &e.rules[i]
		if r.NcExpDays == nil {
			continue
		}
		var fails []string
		if !r.Enabled {
			fails = append(fails, "rule-disabled")
		}
		fails = append(fails, r.filterFails(key, v.Size, v.Tags, v.Marker)...)
		newer := e.newerNoncurrent(key, idx)
		if strict {
			newer = e.newerNoncurrentObjects(key, idx)
		}
		if r.NcExpKeep != nil && newer < int(*r.NcExpKeep) {
			fails = append(fails, "keep-count")
		}
		due := dueAfterDays(e.noncurrentSince(key, idx), *r.NcExpDays)
		fails = timeGate(fails, now, due)
		evals = append(evals, clauseEval{Rule: i, Clause: "noncurrent-days", Fails: fails, Due: ptrTime(due)})
	}
	return evals
}

func (e *evaluator) evalsSoleMarker(key string, now time.Time) []clauseEval {
	l := e.m.Keys[key]
	cur := l[len(l)-1]
	var sole []string
	if len(l) > 1 {
		onlyMarkers := true
		for _, o := range l[:len(l)-1] {
			if !o.Marker {
				onlyMarkers = false
			}
		}
		if onlyMarkers {
			sole = append(sole, "not-sole-version:noncurrent-delete-markers")
		} else {
			sole = append(sole, "not-sole-version:noncurrent-object-versions")
		}
	}
	var evals []clauseEval
	for i := range e.rules {
		r := &e.rules[i]
		base := append([]string{}, sole...)
		if !r.Enabled {
			base = append(base, "rule-disabled")
		}
		base = append(base, r.filterFails(key, 0, nil, true)...)
		if r.ExpiredMarker {
			evals = append(evals, clauseEval{Rule: i, Clause: "expired-object-delete-marker", Fails: base})
		}
		// An Expiration Days/Date action also removes a delete marker that is
		// the only remaining version (S3: "expired object delete marker").
		if r.ExpDays != nil {
			due := dueAfterDays(cur.Created, *r.ExpDays)
			evals = append(evals, clauseEval{Rule: i, Clause: "expiration-days", Fails: timeGate(append([]string{}, base...), now, due), Due: ptrTime(due)})
		}
		if r.ExpDateOff != nil {
			due := e.dateOff(*r.ExpDateOff)
			evals = append(evals, clauseEval{Rule: i, Clause: "expiration-date", Fails: timeGate(append([]string{}, base...), now, due), Due: ptrTime(due)})
		}
	}
	return evals
}

// judgeDeleteVersion: DeleteObject(key, versionId) = permanent removal of one
// version or delete marker.
func (e *evaluator) judgeDeleteVersion(key, id string, now time.Time) verdict {
	v, idx := e.m.find(key, id)
	if v == nil {
		return verdict{OK: true, Noop: true}
	}
	isCurrent := idx == len(e.m.Keys[key])-1
	if isCurrent {
		if !v.Marker {
			return verdict{Sig: "acted-wrong:permanent-delete-of-current-version", Family: "noncurrent"}
		}
		return decide("expired-delete-marker", e.evalsSoleMarker(key, now), "acted-wrong:no-rule:expired-delete-marker")
	}
	return decide("noncurrent", e.evalsNoncurrentExpire(key, idx, now), "acted-wrong:no-rule:noncurrent")
}

func (e *evaluator) evalsTransitionCurrent(key string, cur *mVersion, target string, now time.Time) []clauseEval {
	var evals []clauseEval
	for i := range e.rules {
		r := &e.rules[i]
		for _, t := range r.Transitions {
			if target != "" && t.Class != target {
				continue
			}
			var fails []string
			if !r.Enabled {
				fails = append(fails, "rule-disabled")
			}
			fails = append(fails, r.filterFails(key, cur.Size, cur.Tags, false)...)
			var due time.Time
			clause := "transition-days"
			if t.Days != nil {
				due = dueAfterDays(cur.Created, *t.Days)
			} else {
				due = e.dateOff(*t.DateOff)
				clause = "transition-date"
			}
			fails = timeGate(fails, now, due)
			evals = append(evals, clauseEval{Rule: i, Clause: clause + ":" + t.Class, Fails: fails, Due: ptrTime(due)})
		}
	}
	return evals
}

func (e *evaluator) evalsTransitionNoncurrent(key string, idx int, target string, now time.Time) []clauseEval {
	v := e.m.Keys[key][idx]
	var evals []clauseEval
	for i := range e.rules {
		r := &e.rules[i]
		for _, t := range r.NcTransitions {
			if target != "" && t.Class != target {
				continue
			}
			var fails []string
			if !r.Enabled {
				fails = append(fails, "rule-disabled")
			}
			fails = append(fails, r.filterFails(key, v.Size, v.Tags, false)...)
			if t.Keep != nil && e.newerNoncurrent(key, idx) < int(*t.Keep) {
				fails = append(fails, "keep-count")
			}
			due := dueAfterDays(e.noncurrentSince(key, idx), t.Days)
			fails = timeGate(fails, now, due)
			evals = append(evals, clauseEval{Rule: i, Clause: "noncurrent-transition-days:" + t.Class, Fails: fails, Due: ptrTime(due)})
		}
	}
	return evals
}

func stripClass(clause string) string {
	if i := strings.Index(clause, ":"); i >= 0 {
		return clause[:i]
	}
	return clause
}

// judgeTransition: TransitionObjectStorageClass(key, target[, versionId]).
func (e *evaluator) judgeTransition(key string, id *string, target string, now time.Time) verdict {
	if id == nil {
		cur := e.m.current(key)
		if cur == nil || cur.Marker {
			return verdict{Sig: "acted-wrong:transition-without-current-object", Family: "transition"}
		}
		v := decide("transition", e.evalsTransitionCurrent(key, cur, target, now), "acted-wrong:transition-target-not-configured")
		if v.Best != nil {
			v.Best.Clause = stripClass(v.Best.Clause)
			if !v.OK && strings.HasPrefix(v.Sig, "acted-early:") {
				v.Sig = "acted-early:" + v.Best.Clause
			}
		}
		if v.OK {
			if ex := e.judgeExpireCurrent(key, now); ex.OK {
				v.OK = false
				v.PreferenceSuspect = true
				v.Sig = "acted-wrong:transition-while-expiration-due"
			}
		}
		return v
	}
	mv, idx := e.m.find(key, *id)
	if mv == nil {
		return verdict{Sig: "acted-wrong:transition-of-unknown-version", Family: "noncurrent-transition"}
	}
	if mv.Marker {
		return verdict{Sig: "acted-wrong:transition-of-delete-marker", Family: "noncurrent-transition"}
	}
	if idx == len(e.m.Keys[key])-1 {
		return verdict{Sig: "acted-wrong:noncurrent-transition-on-current-version", Family: "noncurrent-transition"}
	}
	v := decide("noncurrent-transition", e.evalsTransitionNoncurrent(key, idx, target, now), "acted-wrong:noncurrent-transition-target-not-configured")
	if v.Best != nil {
		v.Best.Clause = stripClass(v.Best.Clause)
		if !v.OK && strings.HasPrefix(v.Sig, "acted-early:") {
			v.Sig = "acted-early:" + v.Best.Clause
		}
	}
	if v.OK {
		if ex := decide("noncurrent", e.evalsNoncurrentExpireReading(key, idx, now, true), ""); ex.OK {
			v.OK = false
			v.PreferenceSuspect = true
			v.Sig = "acted-wrong:noncurrent-transition-while-expiration-due"
		}
	}
	return v
}

func (e *evaluator) evalsAbort(u *mUpload, now time.Time) []clauseEval {
	var evals []clauseEval
	for i := range e.rules {
		r := &e.rules[i]
		if r.AbortDays == nil {
			continue
		}
		var fails []string
		if !r.Enabled {
			fails = append(fails, "rule-disabled")
		}
		fails = append(fails, r.filterFails(u.Key, 0, nil, true)...)
		due := dueAfterDays(u.Initiated, *r.AbortDays)
		fails = timeGate(fails, now, due)
		evals = append(evals, clauseEval{Rule: i, Clause: "abort-days", Fails: fails, Due: ptrTime(due)})
	}
	return evals
}

func (e *evaluator) judgeAbort(key, uploadID string, now time.Time) verdict {
	for _, u := range e.m.Uploads {
		if u.ID == uploadID && u.Key == key {
			return decide("abort", e.evalsAbort(u, now), "acted-wrong:no-rule:abort")
		}
	}
	return verdict{Sig: "acted-wrong:abort-of-unknown-upload", Family: "abort"}
}

// dueCandidate is a (item, clause) pair for which time is the only remaining
// gate; used to place the injected clock relative to real due instants.
type dueCandidate struct {
	Due    time.Time `json:"due"`
	Kind   string    `json:"kind"`
	Key    string    `json:"key"`
	ID     string    `json:"id,omitempty"`
	Clause string    `json:"clause"`
}

var farPast = time.Date(1990, 1, 1, 0, 0, 0, 0, time.UTC)

func onlyEarly(fails []string) bool { return len(fails) == 1 && fails[0] == "early" }

func (e *evaluator) candidates() []dueCandidate {
	var out []dueCandidate
	add := func(kind, key, id string, evals []clauseEval) {
		for _, ce := range evals {
			if ce.Due != nil && onlyEarly(ce.Fails) {
				out = append(out, dueCandidate{Due: *ce.Due, Kind: kind, Key: key, ID: id, Clause: ce.Clause})
			}
		}
	}
	for _, key := range e.m.sortedKeys() {
		l := e.m.Keys[key]
		cur := l[len(l)-1]
		if !cur.Marker {
			add("expire-current", key, cur.ID, e.evalsExpireCurrent(key, cur, farPast))
			add("transition-current", key, cur.ID, e.evalsTransitionCurrent(key, cur, "", farPast))
		} else {
			add("expire-marker", key, cur.ID, e.evalsSoleMarker(key, farPast))
		}
		for idx := 0; idx < len(l)-1; idx++ {
			add("expire-noncurrent", key, l[idx].ID, e.evalsNoncurrentExpire(key, idx, farPast))
			if !l[idx].Marker {
				add("transition-noncurrent", key, l[idx].ID, e.evalsTransitionNoncurrent(key, idx, "", farPast))
			}
		}
	}
	for _, u := range e.m.Uploads {
		add("abort", u.Key, u.ID, e.evalsAbort(u, farPast))
	}
	sort.SliceStable(out, func(i, j int) bool {
		if !out[i].Due.Equal(out[j].Due) {
			return out[i].Due.Before(out[j].Due)
		}
		return fmt.Sprint(out[i].Kind, out[i].Key, out[i].ID, out[i].Clause) < fmt.Sprint(out[j].Kind, out[j].Key, out[j].ID, out[j].Clause)
	})
	return out
}
