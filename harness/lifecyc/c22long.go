package main

import (
	"bytes"
	"context"
	"database/sql"
	"fmt"
	"time"

	"github.com/jdillenkofer/pithos/internal/storage"
	"github.com/jdillenkofer/pithos/internal/storage/database"
	"github.com/jdillenkofer/pithos/internal/storage/notification"
	"github.com/jdillenkofer/pithos/internal/verif/vkit"
)

// runC22LongFailing: an entry whose destination keeps failing for a long time.
// The state "this entry has already failed N times" is written into the row
// (attempts = N, next_attempt_at due) instead of waiting hours for it; one real
// claim + failing publish + release follows, and the next_attempt_at pithos
// stores must lie within [claim + b, release + b] with
// b = min(MaxBackoff, MinBackoff * 2^N) - "exponential backoff bounded by the
// configured limits" for every attempt count, not only the first few.
func runC22LongFailing(r *vkit.Run, idx int, maxAttempts int, minB, maxB time.Duration, watchdog time.Duration) (fired []string, inconclusive string) {
	s, err := newC22Stack(r, r.SubDir(fmt.Sprintf("long%d", idx)), notification.DispatcherConfig{MaxAttempts: maxAttempts, MinBackoff: minB, MaxBackoff: maxB, Concurrency: 1, BatchSize: 1}, true)
	if err != nil {
		return nil, "stack:" + err.Error()
	}
	defer s.close(true)
	scn := map[string]any{"part": "B-long-failing", "max_attempts": maxAttempts, "min_backoff": minB.String(), "max_backoff": maxB.String()}
	viol := func(sig, what string, extra map[string]any) {
		fired = append(fired, sig)
		w := map[string]any{"scenario": scn}
		for k, v := range extra {
			w[k] = v
		}
		r.Violation(sig, what, w)
	}
	bn := fmt.Sprintf("c22long%d", idx)
	cfg := &nConfig{Rules: []nRule{{Kind: "queue", ARN: "arn:aws:sqs:eu-central-1:000000000000:q", Events: []string{"s3:ObjectCreated:*"}}}}
	if err := s.bucket(bn, "off", cfg, true); err != nil {
		return nil, "setup:" + err.Error()
	}
	b := storage.MustNewBucketName(bn)
	if _, err := s.mw.PutObject(s.ctx, b, storage.MustNewObjectKey("one/o0-failall"), nil, bytes.NewReader([]byte("x")), nil, nil); err != nil {
		return nil, "put:" + err.Error()
	}
	id := ""
	releasesOf := func() (claims, rels []repoEvent) {
		for _, e := range s.repo.events() {
			if e.ID != id || !e.OK {
				continue
			}
			switch e.Call {
			case "claim":
				claims = append(claims, e)
			case "release":
				rels = append(rels, e)
			}
		}
		return
	}
	deadline := time.Now().Add(watchdog)
	pump := 0
	waitReleases := func(n int) bool {
		for {
			if id == "" {
				for _, e := range s.repo.events() {
					if e.Call == "save" && e.OK && e.Key == "one/o0-failall" {
						id = e.ID
					}
				}
			}
			if id != "" {
				if _, rels := releasesOf(); len(rels) >= n {
					return true
				}
			}
			if time.Now().After(deadline) {
				return false
			}
			pump++
			if _, err := s.mw.PutObject(s.ctx, b, storage.MustNewObjectKey(fmt.Sprintf("pump/p%d", pump)), nil, bytes.NewReader(nil), nil, nil); err != nil {
				return false
			}
			time.Sleep(5 * time.Millisecond)
		}
	}
	if !waitReleases(1) {
		return fired, "long-failing scenario: the first failed attempt was never released"
	}
	want := func(attempts int) time.Duration { // attempts = counter after the claim
		d := minB
		for i := 1; i < attempts; i++ {
			d *= 2
			if d > maxB || d <= 0 {
				return maxB
			}
		}
		if d > maxB {
			d = maxB
		}
		return d
	}
	prev := []int{1, 2, 5, 9, 20, 28, 29, 30, 33, 34, 35, 36, 40, 41, 55, 56, 62, 63, 64, 65, 100, 999}
	done := 1
	for _, n := range prev {
		if maxAttempts > 0 && n+1 >= maxAttempts {
			continue // the next failure would dead-letter instead of backing off
		}
		// the entry has failed n times so far and is due again
		var affected int64
		err := database.WithTx(s.ctx, s.env.DB, &sql.TxOptions{}, func(ctx context.Context, tx database.Tx) error {
			res, err := tx.SqlTx().ExecContext(ctx, "UPDATE notification_outbox_entries SET attempts = $1, next_attempt_at = $2 WHERE id = $3 AND claim_owner IS NULL", n, time.Now().UTC().Add(-time.Hour), id)
			if err != nil {
				return err
			}
			affected, err = res.RowsAffected()
			return err
		})
		if err != nil || affected != 1 {
			// the dispatcher holds the claim right now (spinning retries): the release log below shows why
			r.Count("delivery.long-failing.row-not-rewritable", 1)
		}
		done++
		if !waitReleases(done) {
			return fired, fmt.Sprintf("long-failing scenario: no release after the row was set to attempts=%d", n)
		}
		claims, rels := releasesOf()
		rel := rels[done-1]
		var claim *repoEvent
		for i := range claims {
			if claims[i].Seq < rel.Seq {
				claim = &claims[i]
			}
		}
		if claim == nil {
			return fired, "long-failing scenario: release without claim"
		}
		w := map[string]any{"failed_attempts_before": n, "claim": claim, "release": rel}
		if claim.Attempts != n+1 {
			// another release slipped in between (entry retried on its own): judge it by its own counter
			r.Count("delivery.long-failing.extra-attempts-observed", 1)
		}
		b := want(claim.Attempts)
		lo, hi := claim.Now.Add(b), rel.Now.Add(b)
		if rel.Next.Before(lo) || rel.Next.After(hi) {
			viol("delivery:backoff-out-of-bounds:long-failing-entry", fmt.Sprintf("after failed attempt #%d the stored next_attempt_at is %s, not within [claim+%s, release+%s] = [%s, %s] (MinBackoff %s, MaxBackoff %s)", claim.Attempts, rel.Next.Format(time.RFC3339Nano), b, b, lo.Format(time.RFC3339Nano), hi.Format(time.RFC3339Nano), minB, maxB), w)
			break
		}
		r.Count("delivery.backoff-checked.long-failing", 1)
		r.Seen("delivery.long-failing.attempt-counts", fmt.Sprint(claim.Attempts))
		// settle check: the entry must not be attempted again before its next_attempt_at
		_, relsAfter := releasesOf()
		done = len(relsAfter)
	}
	// between two rewrites the entry must never have been re-claimed on its own: every
	// stored next_attempt_at is >= MinBackoff (1 s or more) in the future
	claims, _ := releasesOf()
	if len(claims) > len(prev)+3 {
		viol("delivery:retried-before-next-attempt-time:long-failing-entry", fmt.Sprintf("the entry was claimed %d times although only %d due dates were written (every backoff is >= %s)", len(claims), len(prev)+1, minB), map[string]any{"claims": len(claims)})
	}
	r.Count("delivery.pump-mutations", int64(pump))
	return fired, ""
}
