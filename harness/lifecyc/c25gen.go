package main

import (
	"fmt"
	"sort"
	"strings"

	"github.com/jdillenkofer/pithos/internal/verif/vkit"
)

// ---- scenario description (fully serialisable: a replay file carries it) ----

type stepSpec struct {
	Op    string            `json:"op"` // put del delver tag untag trans mpu vers age
	Key   string            `json:"key,omitempty"`
	Size  int64             `json:"size,omitempty"`
	Tags  map[string]string `json:"tags,omitempty"`
	Class string            `json:"class,omitempty"`
	Ver   int               `json:"ver,omitempty"` // selector among existing versions (mod n); -1 = current
	Days  int               `json:"days,omitempty"`
	State string            `json:"state,omitempty"`
}

type passSpec struct {
	Pick    int    `json:"pick"`              // index (mod n) into the sorted distinct due instants of the state before the pass
	Off     string `json:"off"`               // -1ns 0 +1ns +13h -13h far+ far-
	Replace string `json:"replace,omitempty"` // "", identical, different: overwrite the key between listing and action
}

type c25Scenario struct {
	Index  int        `json:"index"`
	Rules  []ruleSpec `json:"rules"`
	Steps  []stepSpec `json:"steps"`
	Passes []passSpec `json:"passes"`
}

var (
	c25Keys     = []string{"logs/app.log", "logs/db.log", "tmp/a", "data/x.bin", "log", "Logs/upper"}
	c25Prefixes = []string{"", "", "", "logs/", "tmp/", "log", "data/x", "nomatch/", "logs/app", "l", "Logs/"}
	c25TagSets  = []map[string]string{nil, {"env": "prod"}, {"env": "dev"}, {"env": "prod", "tier": "cold"}, {"tier": "cold"}}
	c25TagPreds = []kv{{"env", "prod"}, {"env", "dev"}, {"tier", "cold"}}
	c25Sizes    = []int64{0, 40, 100, 101, 499, 500, 600, 2000}
	c25GT       = []int64{0, 50, 100}
	c25LT       = []int64{101, 500, 1000}
	c25Classes  = []string{"STANDARD_IA", "GLACIER", "DEEP_ARCHIVE", "ONEZONE_IA"}
)

func i32(v int) *int32 { x := int32(v); return &x }
func i64(v int64) *int64 { return &v }
func iptr(v int) *int { return &v }
func sptr(s string) *string { return &s }

func genFilter(rg *vkit.Rand, allowTag, allowSize bool) (*string, *filterSpec) {
	// returns (legacyPrefix, filter): exactly one is non-nil
	switch c := rg.Intn(10); {
	case c == 0:
		return sptr(vkit.Pick(rg, c25Prefixes)), nil
	case c <= 3:
		return nil, &filterSpec{Prefix: sptr(vkit.Pick(rg, c25Prefixes))}
	case c == 4:
		return nil, &filterSpec{} // empty filter: whole bucket
	case c == 5 && allowTag:
		t := vkit.Pick(rg, c25TagPreds)
		return nil, &filterSpec{Tag: &t}
	case c == 6 && allowSize:
		if rg.Bool() {
			return nil, &filterSpec{SizeGT: i64(vkit.Pick(rg, c25GT))}
		}
		return nil, &filterSpec{SizeLT: i64(vkit.Pick(rg, c25LT))}
	default:
		a := &andSpec{}
		if rg.Chance(60) {
			a.Prefix = sptr(vkit.Pick(rg, c25Prefixes))
		}
		if allowTag && rg.Chance(60) {
			a.Tags = append(a.Tags, vkit.Pick(rg, c25TagPreds))
			if rg.Chance(25) {
				o := vkit.Pick(rg, c25TagPreds)
				if o.K != a.Tags[0].K {
					a.Tags = append(a.Tags, o)
				}
			}
		}
		if allowSize && rg.Chance(50) {
			switch rg.Intn(3) {
			case 0:
				a.SizeGT = i64(vkit.Pick(rg, c25GT))
			case 1:
				a.SizeLT = i64(vkit.Pick(rg, c25LT))
			default:
				a.SizeGT = i64(vkit.Pick(rg, c25GT))
				a.SizeLT = i64(vkit.Pick(rg, c25LT)) // every LT > every GT by construction
			}
		}
		return nil, &filterSpec{And: a}
	}
}

// genRule builds one S3-valid rule. focus biases the action mix.
func genRule(rg *vkit.Rand, id int, focus string) ruleSpec {
	r := ruleSpec{ID: fmt.Sprintf("r%d", id), Enabled: !rg.Chance(12)}
	kind := focus
	if kind == "" {
		kind = vkit.Pick(rg, []string{"exp", "exp", "exp+trans", "trans", "nc", "nc", "nc+nctrans", "nctrans", "marker", "abort", "mixed"})
	}
	wantAbort := kind == "abort" || (kind == "mixed" && rg.Chance(30))
	wantMarker := kind == "marker"
	r.LegacyPrefix, r.Filter = genFilter(rg, !wantAbort && !wantMarker, !wantAbort)
	if wantAbort {
		r.AbortDays = i32(rg.Range(1, 3))
	}
	if wantMarker {
		r.ExpiredMarker = true
	}
	expDays := 0
	if strings.HasPrefix(kind, "exp") || (kind == "mixed" && rg.Chance(60)) {
		if rg.Chance(70) {
			expDays = rg.Range(1, 3)
			r.ExpDays = i32(expDays)
		} else {
			r.ExpDateOff = iptr(rg.Range(-6, 3))
		}
	}
	if strings.Contains(kind, "trans") && !strings.Contains(kind, "nctrans") || (kind == "mixed" && rg.Chance(40)) {
		n := rg.Range(1, 2)
		cls := append([]string{}, c25Classes...)
		vkit.Shuffle(rg, cls)
		for i := 0; i < n; i++ {
			t := transSpec{Class: cls[i]}
			if rg.Chance(75) {
				d := rg.Range(0, 3)
				if expDays > 0 && d >= expDays {
					d = expDays - 1
				}
				t.Days = i32(d)
			} else {
				t.DateOff = iptr(rg.Range(-6, 3))
			}
			r.Transitions = append(r.Transitions, t)
		}
	}
	ncDays := 0
	if strings.HasPrefix(kind, "nc+") || kind == "nc" || (kind == "mixed" && rg.Chance(50)) {
		ncDays = rg.Range(1, 3)
		r.NcExpDays = i32(ncDays)
		if r.Filter != nil && rg.Chance(60) {
			r.NcExpKeep = i32(rg.Range(1, 3))
		}
	}
	if strings.Contains(kind, "nctrans") || (kind == "mixed" && rg.Chance(30)) {
		n := rg.Range(1, 2)
		cls := append([]string{}, c25Classes...)
		vkit.Shuffle(rg, cls)
		for i := 0; i < n; i++ {
			d := rg.Range(1, 3)
			if ncDays > 0 && d >= ncDays {
				d = ncDays - 1
			}
			if d < 1 {
				continue
			}
			t := ncTransSpec{Class: cls[i], Days: int32(d)}
			if r.Filter != nil && rg.Chance(50) {
				t.Keep = i32(rg.Range(1, 3))
			}
			r.NcTransitions = append(r.NcTransitions, t)
		}
	}
	if r.ExpDays == nil && r.ExpDateOff == nil && !r.ExpiredMarker && r.AbortDays == nil && len(r.Transitions) == 0 && r.NcExpDays == nil && len(r.NcTransitions) == 0 {
		r.ExpDays = i32(rg.Range(1, 3))
	}
	return r
}

func genPut(rg *vkit.Rand, key string) stepSpec {
	s := stepSpec{Op: "put", Key: key, Size: vkit.Pick(rg, c25Sizes), Tags: vkit.Pick(rg, c25TagSets)}
	if rg.Chance(15) {
		s.Class = vkit.Pick(rg, c25Classes)
	}
	return s
}

// genScenario derives scenario #idx from the run PRNG. Flavours bias towards
// the parts of the statement: plain expiry/transition, version histories with
// noncurrent rules and timestamp perturbation, delete-marker clean-up,
// incomplete uploads, and replacement between listing and action.
func genScenario(root *vkit.Rand, idx int) c25Scenario {
	rg := root.Fork(fmt.Sprintf("c25-scenario-%d", idx))
	sc := c25Scenario{Index: idx}
	flavour := []string{"current", "versions", "versions", "perturb", "marker", "abort", "replace", "mixed"}[idx%8]

	// versioning
	state := "off"
	switch flavour {
	case "versions", "perturb", "marker":
		state = vkit.Pick(rg, []string{"enabled", "enabled", "enabled", "suspended-later"})
	case "current", "replace", "mixed", "abort":
		state = vkit.Pick(rg, []string{"off", "off", "enabled", "suspended-later"})
	}
	if state != "off" {
		sc.Steps = append(sc.Steps, stepSpec{Op: "vers", State: "enabled"})
	}

	// rules
	nRules := rg.Range(1, 3)
	for i := 0; i < nRules; i++ {
		focus := ""
		if i == 0 {
			switch flavour {
			case "current":
				focus = vkit.Pick(rg, []string{"exp", "exp+trans", "trans"})
			case "replace":
				focus = []string{"exp", "trans"}[(idx/16)%2]
			case "versions", "perturb":
				focus = vkit.Pick(rg, []string{"nc", "nc+nctrans", "nctrans", "nc"})
			case "marker":
				focus = "marker"
			case "abort":
				focus = "abort"
			}
		}
		sc.Rules = append(sc.Rules, genRule(rg, i, focus))
	}
	if flavour == "perturb" {
		// make the retention count bite: a keep-N noncurrent rule on a filter
		// that matches everything
		keep := rg.Range(1, 2)
		sc.Rules[0] = ruleSpec{ID: "r0", Enabled: true, Filter: &filterSpec{}, NcExpDays: i32(rg.Range(1, 2)), NcExpKeep: i32(keep)}
		if rg.Chance(40) {
			sc.Rules[0].NcExpDays = i32(2)
			sc.Rules[0].NcTransitions = []ncTransSpec{{Days: 1, Class: vkit.Pick(rg, c25Classes), Keep: i32(keep)}}
		}
	}

	// history
	keys := append([]string{}, c25Keys...)
	vkit.Shuffle(rg, keys)
	nKeys := rg.Range(1, 3)
	keys = keys[:nKeys]
	aged := 0
	age := func(max int) {
		if rg.Chance(55) {
			d := rg.Range(1, max)
			sc.Steps = append(sc.Steps, stepSpec{Op: "age", Days: d})
			aged += d
		}
	}
	for _, k := range keys {
		n := rg.Range(1, 6)
		if flavour == "current" || flavour == "replace" || flavour == "abort" {
			n = rg.Range(1, 3)
		}
		if flavour == "perturb" {
			n = rg.Range(4, 6)
		}
		for i := 0; i < n; i++ {
			c := rg.Intn(100)
			switch {
			case i == 0 || c < 50 || flavour == "perturb":
				sc.Steps = append(sc.Steps, genPut(rg, k))
			case c < 65:
				sc.Steps = append(sc.Steps, stepSpec{Op: "del", Key: k})
			case c < 72:
				sc.Steps = append(sc.Steps, stepSpec{Op: "delver", Key: k, Ver: rg.Intn(6)})
			case c < 84:
				sc.Steps = append(sc.Steps, stepSpec{Op: "tag", Key: k, Ver: rg.Range(-1, 5), Tags: vkit.Pick(rg, c25TagSets)})
			case c < 92:
				sc.Steps = append(sc.Steps, stepSpec{Op: "trans", Key: k, Ver: rg.Range(-1, 5), Class: vkit.Pick(rg, c25Classes)})
			default:
				sc.Steps = append(sc.Steps, stepSpec{Op: "untag", Key: k, Ver: rg.Range(-1, 5)})
			}
			if rg.Chance(35) {
				age(3)
			}
		}
		if flavour == "marker" && rg.Chance(80) {
			// reduce the key to delete markers only (1 or 2 of them)
			sc.Steps = append(sc.Steps, stepSpec{Op: "del", Key: k})
			if rg.Chance(40) {
				sc.Steps = append(sc.Steps, stepSpec{Op: "del", Key: k})
			}
			for j := 0; j < 6; j++ {
				sc.Steps = append(sc.Steps, stepSpec{Op: "delobjver", Key: k})
			}
		}
		if flavour == "perturb" {
			// touch several OLD versions after newer ones exist (tagging and
			// user transitions rewrite the row and with it LastModified)
			m := rg.Range(1, 4)
			for j := 0; j < m; j++ {
				if rg.Chance(70) {
					sc.Steps = append(sc.Steps, stepSpec{Op: "tag", Key: k, Ver: j, Tags: vkit.Pick(rg, c25TagSets)})
				} else {
					sc.Steps = append(sc.Steps, stepSpec{Op: "trans", Key: k, Ver: j, Class: vkit.Pick(rg, c25Classes)})
				}
			}
		}
		if flavour == "abort" || rg.Chance(15) {
			sc.Steps = append(sc.Steps, stepSpec{Op: "mpu", Key: k, Size: 10})
			if rg.Chance(40) {
				sc.Steps = append(sc.Steps, stepSpec{Op: "mpu", Key: vkit.Pick(rg, c25Keys), Size: 0})
			}
		}
		if state == "suspended-later" && rg.Chance(50) {
			sc.Steps = append(sc.Steps, stepSpec{Op: "vers", State: "suspended"})
			sc.Steps = append(sc.Steps, genPut(rg, k))
			if rg.Chance(30) {
				sc.Steps = append(sc.Steps, stepSpec{Op: "vers", State: "enabled"})
				sc.Steps = append(sc.Steps, genPut(rg, k))
			}
		}
	}
	// let time pass so that day-based rules can be due for some items only
	if rg.Chance(70) || flavour == "replace" {
		d := rg.Range(1, 5)
		sc.Steps = append(sc.Steps, stepSpec{Op: "age", Days: d})
		aged += d
	}
	if flavour == "mixed" && rg.Chance(50) {
		sc.Steps = append(sc.Steps, genPut(rg, keys[0]))
	}

	// passes
	offsEarly := []string{"-1ns", "-1ns", "-13h", "far-"}
	offsDue := []string{"0", "0", "+1ns", "+13h"}
	offsLate := []string{"far+", "0", "-1ns", "+13h"}
	sc.Passes = []passSpec{
		{Pick: rg.Intn(8), Off: vkit.Pick(rg, offsEarly)},
		{Pick: rg.Intn(8), Off: vkit.Pick(rg, offsDue)},
		{Pick: rg.Intn(8), Off: vkit.Pick(rg, offsLate)},
	}
	sc.Passes[1].Pick = sc.Passes[0].Pick // same target: just before, then at the due instant
	if flavour == "replace" {
		mode := []string{"identical", "different"}[(idx/8)%2]
		sc.Passes[1].Replace = mode
		sc.Passes[2].Replace = mode
		sc.Passes[2].Off = "far+"
	}
	return sc
}

// shape is the distinctness signature of a scenario: versioning trajectory,
// rule clause kinds, history op string, clock offsets.
func (sc *c25Scenario) shape() string {
	var rk []string
	for _, r := range sc.Rules {
		var p []string
		if !r.Enabled {
			p = append(p, "off")
		}
		if r.ExpDays != nil {
			p = append(p, "ed")
		}
		if r.ExpDateOff != nil {
			p = append(p, "eD")
		}
		if r.ExpiredMarker {
			p = append(p, "em")
		}
		if r.AbortDays != nil {
			p = append(p, "ab")
		}
		if len(r.Transitions) > 0 {
			p = append(p, fmt.Sprintf("t%d", len(r.Transitions)))
		}
		if r.NcExpDays != nil {
			p = append(p, "nc")
			if r.NcExpKeep != nil {
				p = append(p, fmt.Sprintf("k%d", *r.NcExpKeep))
			}
		}
		if len(r.NcTransitions) > 0 {
			p = append(p, fmt.Sprintf("nt%d", len(r.NcTransitions)))
		}
		f := "nofilter"
		if r.LegacyPrefix != nil {
			f = "legacy"
		} else if r.Filter != nil {
			switch {
			case r.Filter.And != nil:
				f = "and"
			case r.Filter.Tag != nil:
				f = "tag"
			case r.Filter.SizeGT != nil || r.Filter.SizeLT != nil:
				f = "size"
			case r.Filter.Prefix != nil:
				f = "prefix"
			default:
				f = "empty"
			}
		}
		rk = append(rk, f+"/"+strings.Join(p, "+"))
	}
	sort.Strings(rk)
	var ops []string
	for _, s := range sc.Steps {
		o := s.Op
		if s.Op == "age" {
			o = fmt.Sprintf("age%d", s.Days)
		}
		if s.Op == "vers" {
			o = "v:" + s.State
		}
		ops = append(ops, o)
	}
	var ps []string
	for _, p := range sc.Passes {
		ps = append(ps, p.Off+p.Replace)
	}
	return strings.Join(rk, ",") + "|" + strings.Join(ops, " ") + "|" + strings.Join(ps, ",")
}
