package main

import (
	"fmt"
	"sort"
	"strings"

	"github.com/jdillenkofer/pithos/internal/verif/vkit"
)

// ---- scenario description (fully serialisable: a replay file carries it) ----

type stepSpec struct {
	Op    string            `json:"op"` // put del delver delobjver tag untag trans mpu vers age fill
	Key   string            `json:"key,omitempty"`
	Size  int64             `json:"size,omitempty"`
	Tags  map[string]string `json:"tags,omitempty"`
	Class string            `json:"class,omitempty"`
	Ver   int               `json:"ver,omitempty"` // selector among existing versions (mod n); -1 = current
	Days  int               `json:"days,omitempty"`
	State string            `json:"state,omitempty"`
	Split []int             `json:"split,omitempty"` // fill: rows of the n-th target key that stay on the earlier listing page (mod history length + 1)
	Tail  int               `json:"tail,omitempty"`  // fill: filler rows after the last target key
}

type passSpec struct {
	Pick    int    `json:"pick"`              // index (mod n) into the sorted distinct due instants of the state before the pass
	Off     string `json:"off"`               // -1ns 0 +1ns +13h -13h far+ far-
	Replace string `json:"replace,omitempty"` // "", identical, different: overwrite the key between listing and action
}

type c25Scenario struct {
	Index   int        `json:"index"`
	Flavour string     `json:"flavour,omitempty"` // "", tagedge, paged
	Rules  []ruleSpec `json:"rules"`
	Steps  []stepSpec `json:"steps"`
	Passes []passSpec `json:"passes"`
	// Relocated: the reconciler is handed its listing / head timestamps in a non-UTC location (same instants)
	Relocated bool `json:"relocated,omitempty"`
}

var (
	c25Keys     = []string{"logs/app.log", "logs/db.log", "tmp/a", "data/x.bin", "log", "Logs/upper"}
	c25Prefixes = []string{"", "", "", "logs/", "tmp/", "log", "data/x", "nomatch/", "logs/app", "l", "Logs/"}
	c25TagSets  = []map[string]string{nil, {"env": "prod"}, {"env": "dev"}, {"env": "prod", "tier": "cold"}, {"tier": "cold"}, {"scratch": ""}, {"owner": "ops"}, {"env": "", "tier": "cold"}}
	c25TagPreds = []kv{{"env", "prod"}, {"env", "dev"}, {"tier", "cold"}, {"scratch", ""}, {"env", ""}}
	c25Sizes    = []int64{0, 40, 100, 101, 499, 500, 600, 2000}
	c25GT       = []int64{0, 50, 100}
	c25LT       = []int64{101, 500, 1000}
	c25Classes  = []string{"STANDARD_IA", "GLACIER", "DEEP_ARCHIVE", "ONEZONE_IA"}
)

// c25Lists are the value pools a flavour draws rule filters and object tag
// sets from.
type c25Lists struct {
	Prefixes []string
	TagSets  []map[string]string
	TagPreds []kv
}

var c25General = &c25Lists{Prefixes: c25Prefixes, TagSets: c25TagSets, TagPreds: c25TagPreds}

// c25TagEdge: filter tags with EMPTY values, tag sets that overlap the filter
// tags only partially (key present with another value, key absent, key in
// another case, one of two filter tags present), objects without any tag.
var c25TagEdge = &c25Lists{
	Prefixes: []string{"", "", "", "", "logs/", "l", "tmp/", "data/x", "nomatch/"},
	TagSets: []map[string]string{nil, nil, nil, {"scratch": ""}, {"scratch": "", "env": "prod"}, {"env": ""}, {"env": "prod"}, {"tier": "cold"},
		{"env": "prod", "tier": "cold"}, {"env": "prod", "tier": ""}, {"owner": "ops"}, {"scratch": "x"}, {"Scratch": ""}, {"tier": "", "scratch": "", "env": ""}},
	TagPreds: []kv{{"scratch", ""}, {"scratch", ""}, {"env", ""}, {"tier", ""}, {"env", "prod"}, {"tier", "cold"}, {"owner", "ops"}, {"scratch", "x"}},
}

func i32(v int) *int32 { x := int32(v); return &x }
func i64(v int64) *int64 { return &v }
func iptr(v int) *int { return &v }
func sptr(s string) *string { return &s }

func genFilter(rg *vkit.Rand, L *c25Lists, allowTag, allowSize bool) (*string, *filterSpec) {
	// returns (legacyPrefix, filter): exactly one is non-nil
	switch c := rg.Intn(10); {
	case c == 0:
		return sptr(vkit.Pick(rg, L.Prefixes)), nil
	case c <= 3:
		return nil, &filterSpec{Prefix: sptr(vkit.Pick(rg, L.Prefixes))}
	case c == 4:
		return nil, &filterSpec{} // empty filter: whole bucket
	case c == 5 && allowTag:
		t := vkit.Pick(rg, L.TagPreds)
		return nil, &filterSpec{Tag: &t}
	case c == 6 && allowSize:
		if rg.Bool() {
			return nil, &filterSpec{SizeGT: i64(vkit.Pick(rg, c25GT))}
		}
		return nil, &filterSpec{SizeLT: i64(vkit.Pick(rg, c25LT))}
	default:
		a := &andSpec{}
		if rg.Chance(60) {
			a.Prefix = sptr(vkit.Pick(rg, L.Prefixes))
		}
		if allowTag && rg.Chance(60) {
			a.Tags = append(a.Tags, vkit.Pick(rg, L.TagPreds))
			if rg.Chance(25) {
				o := vkit.Pick(rg, L.TagPreds)
				if o.K != a.Tags[0].K {
					a.Tags = append(a.Tags, o)
				}
			}
		}
		if allowSize && rg.Chance(50) {
			switch rg.Intn(3) {
			case 0:
				a.SizeGT = i64(vkit.Pick(rg, c25GT))
			case 1:
				a.SizeLT = i64(vkit.Pick(rg, c25LT))
			default:
				a.SizeGT = i64(vkit.Pick(rg, c25GT))
				a.SizeLT = i64(vkit.Pick(rg, c25LT)) // every LT > every GT by construction
			}
		}
		return nil, &filterSpec{And: a}
	}
}

// genTagFilter builds a filter that always carries 1-3 tag predicates (single
// Tag, or And with optional prefix / size bounds).
func genTagFilter(rg *vkit.Rand, L *c25Lists) *filterSpec {
	if rg.Chance(45) {
		t := vkit.Pick(rg, L.TagPreds)
		return &filterSpec{Tag: &t}
	}
	a := &andSpec{}
	if rg.Chance(50) {
		a.Prefix = sptr(vkit.Pick(rg, L.Prefixes))
	}
	n := rg.Range(1, 3)
	for tries := 0; len(a.Tags) < n && tries < 12; tries++ {
		t := vkit.Pick(rg, L.TagPreds)
		dup := false
		for _, o := range a.Tags {
			if o.K == t.K {
				dup = true
			}
		}
		if !dup {
			a.Tags = append(a.Tags, t)
		}
	}
	if rg.Chance(25) {
		if rg.Bool() {
			a.SizeGT = i64(vkit.Pick(rg, c25GT))
		} else {
			a.SizeLT = i64(vkit.Pick(rg, c25LT))
		}
	}
	return &filterSpec{And: a}
}

// genRule builds one S3-valid rule. focus biases the action mix.
func genRule(rg *vkit.Rand, L *c25Lists, id int, focus string, forceTag bool) ruleSpec {
	r := ruleSpec{ID: fmt.Sprintf("r%d", id), Enabled: !rg.Chance(12)}
	kind := focus
	if kind == "" {
		kind = vkit.Pick(rg, []string{"exp", "exp", "exp+trans", "trans", "nc", "nc", "nc+nctrans", "nctrans", "marker", "abort", "mixed"})
	}
	wantAbort := kind == "abort" || (kind == "mixed" && rg.Chance(30))
	wantMarker := kind == "marker"
	r.LegacyPrefix, r.Filter = genFilter(rg, L, !wantAbort && !wantMarker, !wantAbort)
	if forceTag && !wantAbort && !wantMarker {
		r.LegacyPrefix, r.Filter = nil, genTagFilter(rg, L)
	}
	if wantAbort {
		r.AbortDays = i32(rg.Range(1, 3))
	}
	if wantMarker {
		r.ExpiredMarker = true
	}
	expDays := 0
	if strings.HasPrefix(kind, "exp") || (kind == "mixed" && rg.Chance(60)) {
		if rg.Chance(70) {
			expDays = rg.Range(1, 3)
			r.ExpDays = i32(expDays)
		} else {
			r.ExpDateOff = iptr(rg.Range(-6, 3))
		}
	}
	if strings.Contains(kind, "trans") && !strings.Contains(kind, "nctrans") || (kind == "mixed" && rg.Chance(40)) {
		n := rg.Range(1, 2)
		cls := append([]string{}, c25Classes...)
		vkit.Shuffle(rg, cls)
		for i := 0; i < n; i++ {
			t := transSpec{Class: cls[i]}
			if rg.Chance(75) {
				d := rg.Range(0, 3)
				if expDays > 0 && d >= expDays {
					d = expDays - 1
				}
				t.Days = i32(d)
			} else {
				t.DateOff = iptr(rg.Range(-6, 3))
			}
			r.Transitions = append(r.Transitions, t)
		}
	}
	ncDays := 0
	if strings.HasPrefix(kind, "nc+") || kind == "nc" || (kind == "mixed" && rg.Chance(50)) {
		ncDays = rg.Range(1, 3)
		r.NcExpDays = i32(ncDays)
		if r.Filter != nil && rg.Chance(60) {
			r.NcExpKeep = i32(rg.Range(1, 3))
		}
	}
	if strings.Contains(kind, "nctrans") || (kind == "mixed" && rg.Chance(30)) {
		n := rg.Range(1, 2)
		cls := append([]string{}, c25Classes...)
		vkit.Shuffle(rg, cls)
		for i := 0; i < n; i++ {
			d := rg.Range(1, 3)
			if ncDays > 0 && d >= ncDays {
				d = ncDays - 1
			}
			if d < 1 {
				continue
			}
			t := ncTransSpec{Class: cls[i], Days: int32(d)}
			if r.Filter != nil && rg.Chance(50) {
				t.Keep = i32(rg.Range(1, 3))
			}
			r.NcTransitions = append(r.NcTransitions, t)
		}
	}
	if r.ExpDays == nil && r.ExpDateOff == nil && !r.ExpiredMarker && r.AbortDays == nil && len(r.Transitions) == 0 && r.NcExpDays == nil && len(r.NcTransitions) == 0 {
		r.ExpDays = i32(rg.Range(1, 3))
	}
	return r
}

func genPut(rg *vkit.Rand, L *c25Lists, key string) stepSpec {
	s := stepSpec{Op: "put", Key: key, Size: vkit.Pick(rg, c25Sizes), Tags: vkit.Pick(rg, L.TagSets)}
	if rg.Chance(15) {
		s.Class = vkit.Pick(rg, c25Classes)
	}
	return s
}

// genScenario derives scenario #idx from the run PRNG. Flavours bias towards
// the parts of the statement: plain expiry/transition, version histories with
// noncurrent rules and timestamp perturbation, delete-marker clean-up,
// incomplete uploads, and replacement between listing and action. Two extra
// flavours (extra != "") are appended to every run: "tagedge" (every rule
// carries tag predicates, many with empty values; tag sets that overlap them
// partially or not at all) and "paged" (a versioned bucket padded with filler
// keys so that its listings span several pages and the scenario keys' version
// histories sit on both sides of page boundaries).
func genScenario(root *vkit.Rand, idx int, extra string) c25Scenario {
	rg := root.Fork(fmt.Sprintf("c25-scenario-%d", idx))
	sc := c25Scenario{Index: idx, Flavour: extra}
	flavour := []string{"current", "versions", "versions", "perturb", "marker", "abort", "replace", "mixed"}[idx%8]
	L := c25General
	switch extra {
	case "tagedge":
		flavour, L = extra, c25TagEdge
	case "paged":
		flavour = extra
	}

	// versioning
	state := "off"
	switch flavour {
	case "versions", "perturb", "marker":
		state = vkit.Pick(rg, []string{"enabled", "enabled", "enabled", "suspended-later"})
	case "current", "replace", "mixed", "abort":
		state = vkit.Pick(rg, []string{"off", "off", "enabled", "suspended-later"})
	case "tagedge":
		state = vkit.Pick(rg, []string{"off", "enabled", "enabled", "suspended-later"})
	case "paged":
		state = "enabled"
	}
	if state != "off" {
		sc.Steps = append(sc.Steps, stepSpec{Op: "vers", State: "enabled"})
	}

	// rules
	nRules := rg.Range(1, 3)
	if flavour == "paged" {
		nRules = rg.Range(2, 3)
	}
	for i := 0; i < nRules; i++ {
		focus := ""
		if i == 0 {
			switch flavour {
			case "current":
				focus = vkit.Pick(rg, []string{"exp", "exp+trans", "trans"})
			case "replace":
				focus = []string{"exp", "trans"}[(idx/16)%2]
			case "versions", "perturb":
				focus = vkit.Pick(rg, []string{"nc", "nc+nctrans", "nctrans", "nc"})
			case "marker":
				focus = "marker"
			case "abort":
				focus = "abort"
			case "paged":
				focus = "marker"
			}
		}
		if flavour == "paged" && i == 1 {
			// the sweeps over current objects (ListObjects) and over versions
			// (ListObjectVersions) both get multi-page listings to act on
			focus = []string{"exp", "nc", "exp+trans", "nc+nctrans"}[idx%4]
		}
		if flavour == "tagedge" {
			focus = vkit.Pick(rg, []string{"exp", "exp", "exp+trans", "trans", "nc", "nctrans", "nc+nctrans"})
		}
		sc.Rules = append(sc.Rules, genRule(rg, L, i, focus, flavour == "tagedge"))
	}
	if flavour == "tagedge" {
		sc.Rules[0].Enabled = true
	}
	if flavour == "paged" {
		// the delete-marker clean-up rule mostly selects the whole bucket, in
		// each of the ways "no prefix" can be written
		sc.Rules[0].Enabled = true
		sc.Rules[1].Enabled = true
		switch rg.Intn(10) {
		case 0, 1, 2:
			sc.Rules[0].LegacyPrefix, sc.Rules[0].Filter = nil, &filterSpec{}
		case 3, 4:
			sc.Rules[0].LegacyPrefix, sc.Rules[0].Filter = nil, &filterSpec{Prefix: sptr("")}
		case 5:
			sc.Rules[0].LegacyPrefix, sc.Rules[0].Filter = sptr(""), nil
		case 6:
			sc.Rules[0].LegacyPrefix, sc.Rules[0].Filter = nil, &filterSpec{And: &andSpec{Prefix: sptr("")}}
		}
	}
	if flavour == "perturb" {
		// make the retention count bite: a keep-N noncurrent rule on a filter
		// that matches everything
		keep := rg.Range(1, 2)
		sc.Rules[0] = ruleSpec{ID: "r0", Enabled: true, Filter: &filterSpec{}, NcExpDays: i32(rg.Range(1, 2)), NcExpKeep: i32(keep)}
		if rg.Chance(40) {
			sc.Rules[0].NcExpDays = i32(2)
			sc.Rules[0].NcTransitions = []ncTransSpec{{Days: 1, Class: vkit.Pick(rg, c25Classes), Keep: i32(keep)}}
		}
	}

	// history
	keys := append([]string{}, c25Keys...)
	vkit.Shuffle(rg, keys)
	nKeys := rg.Range(1, 3)
	if flavour == "tagedge" {
		nKeys = rg.Range(2, 3)
	}
	if flavour == "paged" {
		nKeys = 2
	}
	keys = keys[:nKeys]
	aged := 0
	age := func(max int) {
		if rg.Chance(55) {
			d := rg.Range(1, max)
			sc.Steps = append(sc.Steps, stepSpec{Op: "age", Days: d})
			aged += d
		}
	}
	for _, k := range keys {
		n := rg.Range(1, 6)
		if flavour == "current" || flavour == "replace" || flavour == "abort" {
			n = rg.Range(1, 3)
		}
		if flavour == "perturb" {
			n = rg.Range(4, 6)
		}
		if flavour == "tagedge" {
			n = rg.Range(1, 4)
		}
		pagedShape := -1
		if flavour == "paged" {
			// current delete marker over 1-3 older object versions / sole delete
			// marker / delete marker over an older delete marker / free history
			pagedShape = []int{0, 0, 0, 0, 0, 1, 2, 3, 3}[rg.Intn(9)]
			if k == keys[0] {
				pagedShape = 0
			}
			n = rg.Range(1, 3)
			if pagedShape == 3 {
				n = rg.Range(1, 4)
			}
		}
		for i := 0; i < n; i++ {
			c := rg.Intn(100)
			switch {
			case i == 0 || c < 50 || flavour == "perturb" || (pagedShape >= 0 && pagedShape < 3):
				sc.Steps = append(sc.Steps, genPut(rg, L, k))
			case c < 65:
				sc.Steps = append(sc.Steps, stepSpec{Op: "del", Key: k})
			case c < 72:
				sc.Steps = append(sc.Steps, stepSpec{Op: "delver", Key: k, Ver: rg.Intn(6)})
			case c < 84:
				sc.Steps = append(sc.Steps, stepSpec{Op: "tag", Key: k, Ver: rg.Range(-1, 5), Tags: vkit.Pick(rg, L.TagSets)})
			case c < 92:
				sc.Steps = append(sc.Steps, stepSpec{Op: "trans", Key: k, Ver: rg.Range(-1, 5), Class: vkit.Pick(rg, c25Classes)})
			default:
				sc.Steps = append(sc.Steps, stepSpec{Op: "untag", Key: k, Ver: rg.Range(-1, 5)})
			}
			if rg.Chance(35) {
				age(3)
			}
		}
		if pagedShape >= 0 && pagedShape < 3 {
			sc.Steps = append(sc.Steps, stepSpec{Op: "del", Key: k})
			if pagedShape == 2 {
				sc.Steps = append(sc.Steps, stepSpec{Op: "del", Key: k})
			}
			if pagedShape >= 1 {
				for j := 0; j < 3; j++ {
					sc.Steps = append(sc.Steps, stepSpec{Op: "delobjver", Key: k})
				}
			}
		}
		if flavour == "marker" && rg.Chance(80) {
			// reduce the key to delete markers only (1 or 2 of them)
			sc.Steps = append(sc.Steps, stepSpec{Op: "del", Key: k})
			if rg.Chance(40) {
				sc.Steps = append(sc.Steps, stepSpec{Op: "del", Key: k})
			}
			for j := 0; j < 6; j++ {
				sc.Steps = append(sc.Steps, stepSpec{Op: "delobjver", Key: k})
			}
		}
		if flavour == "perturb" {
			// touch several OLD versions after newer ones exist (tagging and
			// user transitions rewrite the row and with it LastModified)
			m := rg.Range(1, 4)
			for j := 0; j < m; j++ {
				if rg.Chance(70) {
					sc.Steps = append(sc.Steps, stepSpec{Op: "tag", Key: k, Ver: j, Tags: vkit.Pick(rg, L.TagSets)})
				} else {
					sc.Steps = append(sc.Steps, stepSpec{Op: "trans", Key: k, Ver: j, Class: vkit.Pick(rg, c25Classes)})
				}
			}
		}
		if flavour == "abort" || rg.Chance(15) {
			sc.Steps = append(sc.Steps, stepSpec{Op: "mpu", Key: k, Size: 10})
			if rg.Chance(40) {
				sc.Steps = append(sc.Steps, stepSpec{Op: "mpu", Key: vkit.Pick(rg, c25Keys), Size: 0})
			}
		}
		if state == "suspended-later" && rg.Chance(50) {
			sc.Steps = append(sc.Steps, stepSpec{Op: "vers", State: "suspended"})
			sc.Steps = append(sc.Steps, genPut(rg, L, k))
			if rg.Chance(30) {
				sc.Steps = append(sc.Steps, stepSpec{Op: "vers", State: "enabled"})
				sc.Steps = append(sc.Steps, genPut(rg, L, k))
			}
		}
	}
	if flavour == "paged" {
		f := stepSpec{Op: "fill", Tail: rg.Intn(40)}
		for range keys {
			f.Split = append(f.Split, []int{1, 1, 1, 1, 2, 3, 0, -1}[rg.Intn(8)])
		}
		sc.Steps = append(sc.Steps, f)
	}
	// let time pass so that day-based rules can be due for some items only
	if rg.Chance(70) || flavour == "replace" || flavour == "paged" {
		d := rg.Range(1, 5)
		sc.Steps = append(sc.Steps, stepSpec{Op: "age", Days: d})
		aged += d
	}
	if flavour == "mixed" && rg.Chance(50) {
		sc.Steps = append(sc.Steps, genPut(rg, L, keys[0]))
	}

	// passes
	offsEarly := []string{"-1ns", "-1ns", "-13h", "far-"}
	offsDue := []string{"0", "0", "+1ns", "+13h"}
	offsLate := []string{"far+", "0", "-1ns", "+13h"}
	sc.Passes = []passSpec{
		{Pick: rg.Intn(8), Off: vkit.Pick(rg, offsEarly)},
		{Pick: rg.Intn(8), Off: vkit.Pick(rg, offsDue)},
		{Pick: rg.Intn(8), Off: vkit.Pick(rg, offsLate)},
	}
	sc.Passes[1].Pick = sc.Passes[0].Pick // same target: just before, then at the due instant
	if flavour == "replace" {
		mode := []string{"identical", "different"}[(idx/8)%2]
		sc.Passes[1].Replace = mode
		sc.Passes[2].Replace = mode
		sc.Passes[2].Off = "far+"
	}
	return sc
}

// shape is the distinctness signature of a scenario: versioning trajectory,
// rule clause kinds, history op string, clock offsets.
func (sc *c25Scenario) shape() string {
	var rk []string
	for _, r := range sc.Rules {
		var p []string
		if !r.Enabled {
			p = append(p, "off")
		}
		if r.ExpDays != nil {
			p = append(p, "ed")
		}
		if r.ExpDateOff != nil {
			p = append(p, "eD")
		}
		if r.ExpiredMarker {
			p = append(p, "em")
		}
		if r.AbortDays != nil {
			p = append(p, "ab")
		}
		if len(r.Transitions) > 0 {
			p = append(p, fmt.Sprintf("t%d", len(r.Transitions)))
		}
		if r.NcExpDays != nil {
			p = append(p, "nc")
			if r.NcExpKeep != nil {
				p = append(p, fmt.Sprintf("k%d", *r.NcExpKeep))
			}
		}
		if len(r.NcTransitions) > 0 {
			p = append(p, fmt.Sprintf("nt%d", len(r.NcTransitions)))
		}
		f := "nofilter"
		if r.LegacyPrefix != nil {
			f = "legacy"
		} else if r.Filter != nil {
			switch {
			case r.Filter.And != nil:
				f = "and"
			case r.Filter.Tag != nil:
				f = "tag"
			case r.Filter.SizeGT != nil || r.Filter.SizeLT != nil:
				f = "size"
			case r.Filter.Prefix != nil:
				f = "prefix"
			default:
				f = "empty"
			}
		}
		rk = append(rk, f+"/"+strings.Join(p, "+"))
	}
	sort.Strings(rk)
	var ops []string
	for _, s := range sc.Steps {
		o := s.Op
		if s.Op == "age" {
			o = fmt.Sprintf("age%d", s.Days)
		}
		if s.Op == "vers" {
			o = "v:" + s.State
		}
		if s.Op == "fill" {
			o = fmt.Sprintf("fill%v+%d", s.Split, s.Tail)
		}
		ops = append(ops, o)
	}
	var ps []string
	for _, p := range sc.Passes {
		ps = append(ps, p.Off+p.Replace)
	}
	return strings.Join(rk, ",") + "|" + strings.Join(ops, " ") + "|" + strings.Join(ps, ",")
}
