package main

import (
	"bytes"
	"context"
	"database/sql"
	"encoding/json"
	"errors"
	"fmt"
	"io"
	"os"
	"sort"
	"strings"
	"sync"
	"sync/atomic"
	"time"

	"github.com/jdillenkofer/pithos/internal/storage"
	"github.com/jdillenkofer/pithos/internal/storage/database"
	"github.com/jdillenkofer/pithos/internal/storage/middlewares/delegator"
	"github.com/jdillenkofer/pithos/internal/storage/middlewares/lifecyclereconciler"
	"github.com/jdillenkofer/pithos/internal/verif/vkit"
)

// ---- conversion of the generator's rule description to pithos' type ----

func (r *ruleSpec) toPithos(today time.Time) storage.LifecycleRule {
	out := storage.LifecycleRule{ID: sptr(r.ID), Status: storage.LifecycleRuleStatusDisabled}
	if r.Enabled {
		out.Status = storage.LifecycleRuleStatusEnabled
	}
	out.Prefix = r.LegacyPrefix
	if r.Filter != nil {
		f := &storage.LifecycleFilter{Prefix: r.Filter.Prefix, ObjectSizeGreaterThan: r.Filter.SizeGT, ObjectSizeLessThan: r.Filter.SizeLT}
		if r.Filter.Tag != nil {
			f.Tag = &storage.LifecycleTag{Key: r.Filter.Tag.K, Value: r.Filter.Tag.V}
		}
		if a := r.Filter.And; a != nil {
			fa := &storage.LifecycleFilterAnd{Prefix: a.Prefix, ObjectSizeGreaterThan: a.SizeGT, ObjectSizeLessThan: a.SizeLT}
			for _, t := range a.Tags {
				fa.Tags = append(fa.Tags, storage.LifecycleTag{Key: t.K, Value: t.V})
			}
			f.And = fa
		}
		out.Filter = f
	}
	date := func(off int) *time.Time { t := today.Add(time.Duration(off) * 24 * time.Hour); return &t }
	if r.ExpDays != nil {
		out.Expiration = &storage.LifecycleExpiration{Days: r.ExpDays}
	} else if r.ExpDateOff != nil {
		out.Expiration = &storage.LifecycleExpiration{Date: date(*r.ExpDateOff)}
	} else if r.ExpiredMarker {
		t := true
		out.Expiration = &storage.LifecycleExpiration{ExpiredObjectDeleteMarker: &t}
	}
	if r.AbortDays != nil {
		out.AbortIncompleteMultipartUpload = &storage.LifecycleAbortIncompleteMultipartUpload{DaysAfterInitiation: r.AbortDays}
	}
	for _, t := range r.Transitions {
		lt := storage.LifecycleTransition{StorageClass: t.Class, Days: t.Days}
		if t.DateOff != nil {
			lt.Date = date(*t.DateOff)
		}
		out.Transitions = append(out.Transitions, lt)
	}
	if r.NcExpDays != nil {
		out.NoncurrentVersionExpiration = &storage.LifecycleNoncurrentVersionExpiration{NoncurrentDays: r.NcExpDays, NewerNoncurrentVersions: r.NcExpKeep}
	}
	for _, t := range r.NcTransitions {
		d := t.Days
		out.NoncurrentVersionTransitions = append(out.NoncurrentVersionTransitions, storage.LifecycleNoncurrentVersionTransition{NoncurrentDays: &d, NewerNoncurrentVersions: t.Keep, StorageClass: t.Class})
	}
	return out
}

// ---- execution of one scenario ----

type c25action struct {
	Pass    int     `json:"pass"`
	Call    string  `json:"call"`
	Key     string  `json:"key"`
	Version string  `json:"version,omitempty"`
	Target  string  `json:"target_class,omitempty"`
	Err     string  `json:"error,omitempty"`
	Verdict verdict `json:"verdict"`
}

type c25exec struct {
	r      *vkit.Run
	ctx    context.Context
	env    *vkit.Env
	inner  storage.Storage
	bucket storage.BucketName
	sc     c25Scenario
	m      *model
	ev     *evaluator
	today  time.Time

	pass        int
	now         time.Time
	replaceMode string
	replacedKey map[string]bool
	passActions int

	pending []pendingPref // transitions whose only problem is "expiration also due"
	callCtx context.Context // ctx of the reconciler call being intercepted (may carry its transaction)

	// layout of the last complete version listing the harness read (syncCheck):
	// keys whose rows lie on both sides of a 1000-row page boundary -> shape
	straddle   map[string]string
	listedRows int
	filled     bool

	discard string // non-empty: scenario unusable (reason)
	// relocated: the reconciler sees timestamps in a non-UTC location (same instants)
	relocated bool
	fired   []string
	actions []c25action
}

func (x *c25exec) key(k string) storage.ObjectKey { return storage.MustNewObjectKey(k) }

// inTx reports whether the reconciler wrapped the intercepted call in a
// database transaction (a fixed reconciler may re-check and act atomically).
func inTx(ctx context.Context) bool {
	_, ok := database.TxControllerFromContext(ctx)
	return ok
}

func (x *c25exec) listKey(k string) []storage.ObjectVersion {
	ctx := x.ctx
	if x.callCtx != nil {
		ctx = x.callCtx
	}
	res, err := x.inner.ListObjectVersions(ctx, x.bucket, storage.ListObjectVersionsOptions{Prefix: &k, MaxKeys: 1000})
	if err != nil {
		x.discard = "list-failed:" + err.Error()
		return nil
	}
	var out []storage.ObjectVersion
	for _, v := range res.Versions {
		if v.Key.String() == k {
			out = append(out, v)
		}
	}
	return out
}

func effClass(c *string) string {
	if c == nil || *c == "" {
		return "STANDARD"
	}
	return *c
}

// bracket verifies that an instant pithos stored lies inside the harness'
// [before, after] bracket of the call and on the run day (no midnight straddle).
func (x *c25exec) bracket(what string, t0, stored, t1 time.Time) bool {
	if stored.Before(t0) || stored.After(t1) {
		x.discard = fmt.Sprintf("bracket-violated:%s stored=%s not in [%s,%s]", what, stored.Format(time.RFC3339Nano), t0.Format(time.RFC3339Nano), t1.Format(time.RFC3339Nano))
		return false
	}
	d0 := t0.UTC().Truncate(24 * time.Hour)
	d1 := t1.UTC().Truncate(24 * time.Hour)
	if !d0.Equal(x.today) || !d1.Equal(x.today) {
		x.discard = "midnight-straddle"
		return false
	}
	return true
}

func copyTags(t map[string]string) map[string]string {
	if len(t) == 0 {
		return nil
	}
	o := map[string]string{}
	for k, v := range t {
		o[k] = v
	}
	return o
}

// content of a version: PRNG bytes from its seed, first byte shifted by the
// variant (so a "different content" replacement is guaranteed to differ).
func c25Content(seed uint64, size int64, variant int) []byte {
	data := vkit.NewRand(seed).Bytes(int(size))
	if len(data) > 0 {
		data[0] += byte(variant)
	}
	return data
}

func (x *c25exec) doPut(k string, size int64, tags map[string]string, class string, seed uint64, replaced string) {
	x.doPutVariant(k, size, tags, class, seed, 0, replaced)
}

func (x *c25exec) doPutVariant(k string, size int64, tags map[string]string, class string, seed uint64, variant int, replaced string) {
	data := c25Content(seed, size, variant)
	opts := &storage.PutObjectOptions{Tags: copyTags(tags)}
	if class != "" && class != "STANDARD" {
		c := class
		opts.StorageClass = &c
	}
	t0 := time.Now().UTC()
	res, err := x.inner.PutObject(x.ctx, x.bucket, x.key(k), nil, bytes.NewReader(data), nil, opts)
	t1 := time.Now().UTC()
	if err != nil {
		x.discard = "put-failed:" + err.Error()
		return
	}
	id := "null"
	if res.VersionID != nil && *res.VersionID != "" {
		id = *res.VersionID
	}
	for _, v := range x.listKey(k) {
		if v.VersionID == id || (id == "null" && v.VersionID == "") {
			if !x.bracket("put", t0, v.LastModified, t1) {
				return
			}
			et := ""
			if v.ETag != nil {
				et = *v.ETag
			}
			cl := class
			if cl == "" {
				cl = "STANDARD"
			}
			x.m.applyPut(k, &mVersion{ID: id, Size: size, Tags: copyTags(tags), Class: cl, ETag: et, Created: v.LastModified, ContentSeed: seed, ContentVariant: variant, Replaced: replaced})
			return
		}
	}
	if x.discard == "" {
		x.discard = "put-not-listed"
	}
}

func (x *c25exec) pickVersion(k string, sel int, objectsOnly bool) *mVersion {
	var l []*mVersion
	for _, v := range x.m.Keys[k] {
		if objectsOnly && v.Marker {
			continue
		}
		l = append(l, v)
	}
	if len(l) == 0 {
		return nil
	}
	if sel < 0 {
		return l[len(l)-1]
	}
	return l[sel%len(l)]
}

func (x *c25exec) markerCreated(k string, id string, t0, t1 time.Time) (time.Time, bool) {
	for _, v := range x.listKey(k) {
		if v.VersionID == id {
			return v.LastModified, x.bracket("delete-marker", t0, v.LastModified, t1)
		}
	}
	if x.discard == "" {
		x.discard = "marker-not-listed"
	}
	return time.Time{}, false
}

func (x *c25exec) step(i int, s stepSpec) {
	ctx := x.ctx
	switch s.Op {
	case "put":
		x.doPut(s.Key, s.Size, s.Tags, s.Class, uint64(x.sc.Index)*1000003+uint64(i)+17, "")
	case "del":
		t0 := time.Now().UTC()
		res, err := x.inner.DeleteObject(ctx, x.bucket, x.key(s.Key), nil)
		t1 := time.Now().UTC()
		if err != nil {
			x.discard = "delete-failed:" + err.Error()
			return
		}
		if x.m.Versioning == "off" {
			x.m.applyKeyDelete(s.Key, "", t1)
			return
		}
		if res == nil || res.VersionID == nil || !res.IsDeleteMarker {
			x.discard = "delete-returned-no-marker"
			return
		}
		if created, ok := x.markerCreated(s.Key, *res.VersionID, t0, t1); ok {
			x.m.applyKeyDelete(s.Key, *res.VersionID, created)
		}
	case "delver", "delobjver":
		var v *mVersion
		if s.Op == "delobjver" {
			v = x.pickVersion(s.Key, 0, true)
		} else {
			v = x.pickVersion(s.Key, s.Ver, false)
		}
		if v == nil {
			x.r.Count("steps.skipped.no-version", 1)
			return
		}
		id := v.ID
		if _, err := x.inner.DeleteObject(ctx, x.bucket, x.key(s.Key), &storage.DeleteObjectOptions{VersionID: &id}); err != nil {
			x.discard = "delete-version-failed:" + err.Error()
			return
		}
		x.m.applyVersionDelete(s.Key, id)
	case "tag", "untag":
		v := x.pickVersion(s.Key, s.Ver, true)
		if v == nil {
			x.r.Count("steps.skipped.no-version", 1)
			return
		}
		id := v.ID
		var err error
		if s.Op == "tag" && len(s.Tags) > 0 {
			err = x.inner.PutObjectTagging(ctx, x.bucket, x.key(s.Key), copyTags(s.Tags), &storage.ObjectTaggingOptions{VersionID: &id})
			v.Tags = copyTags(s.Tags)
		} else {
			err = x.inner.DeleteObjectTagging(ctx, x.bucket, x.key(s.Key), &storage.ObjectTaggingOptions{VersionID: &id})
			v.Tags = nil
		}
		if err != nil {
			x.discard = "tagging-failed:" + err.Error()
		}
	case "trans":
		v := x.pickVersion(s.Key, s.Ver, true)
		if v == nil {
			x.r.Count("steps.skipped.no-version", 1)
			return
		}
		id := v.ID
		if err := x.inner.TransitionObjectStorageClass(ctx, x.bucket, x.key(s.Key), s.Class, &storage.TransitionObjectStorageClassOptions{VersionID: &id}); err != nil {
			x.discard = "user-transition-failed:" + err.Error()
			return
		}
		v.Class = s.Class
	case "mpu":
		t0 := time.Now().UTC()
		res, err := x.inner.CreateMultipartUpload(ctx, x.bucket, x.key(s.Key), nil, nil, nil)
		t1 := time.Now().UTC()
		if err != nil {
			x.discard = "create-upload-failed:" + err.Error()
			return
		}
		if s.Size > 0 {
			if _, err := x.inner.UploadPart(ctx, x.bucket, x.key(s.Key), res.UploadId, 1, bytes.NewReader(vkit.NewRand(uint64(i)).Bytes(int(s.Size))), nil); err != nil {
				x.discard = "upload-part-failed:" + err.Error()
				return
			}
		}
		lr, err := x.inner.ListMultipartUploads(ctx, x.bucket, storage.ListMultipartUploadsOptions{MaxUploads: 1000})
		if err != nil {
			x.discard = "list-uploads-failed:" + err.Error()
			return
		}
		for _, u := range lr.Uploads {
			if u.UploadId.String() == res.UploadId.String() {
				if x.bracket("initiate-upload", t0, u.Initiated, t1) {
					x.m.Uploads = append(x.m.Uploads, &mUpload{Key: s.Key, ID: u.UploadId.String(), Initiated: u.Initiated})
				}
				return
			}
		}
		x.discard = "upload-not-listed"
	case "vers":
		st := storage.BucketVersioningStatusEnabled
		if s.State == "suspended" {
			st = storage.BucketVersioningStatusSuspended
		}
		if err := x.inner.PutBucketVersioningConfiguration(ctx, x.bucket, &storage.BucketVersioningConfiguration{Status: &st}); err != nil {
			x.discard = "versioning-failed:" + err.Error()
			return
		}
		x.m.Versioning = s.State
	case "fill":
		x.fill(i, s)
	case "age":
		d := time.Duration(s.Days) * 24 * time.Hour
		if err := ageBucket(ctx, x.env.DB, x.bucket.String(), d); err != nil {
			x.discard = "age-failed:" + err.Error()
			return
		}
		x.m.shift(d)
	}
}

// ageBucket simulates the passage of whole days by shifting every stored
// timestamp of the bucket's object rows (versions, delete markers, pending
// uploads) back uniformly. The rows end up exactly as if the writes had
// happened that many days earlier; time-of-day is untouched.
func ageBucket(ctx context.Context, db database.Database, bucket string, d time.Duration) error {
	return database.WithTx(ctx, db, &sql.TxOptions{}, func(ctx context.Context, tx database.Tx) error {
		rows, err := tx.SqlTx().QueryContext(ctx, "SELECT id, created_at, updated_at FROM objects WHERE bucket_name = $1", bucket)
		if err != nil {
			return err
		}
		type row struct {
			id   string
			c, u time.Time
		}
		var all []row
		for rows.Next() {
			var r row
			if err := rows.Scan(&r.id, &r.c, &r.u); err != nil {
				rows.Close()
				return err
			}
			all = append(all, r)
		}
		if err := rows.Err(); err != nil {
			return err
		}
		rows.Close()
		for _, r := range all {
			if _, err := tx.SqlTx().ExecContext(ctx, "UPDATE objects SET created_at = $1, updated_at = $2 WHERE id = $3", r.c.UTC().Add(-d), r.u.UTC().Add(-d), r.id); err != nil {
				return err
			}
		}
		return nil
	})
}

// syncCheck compares the model with what the real storage lists. A mismatch
// means model and pithos disagree about the *state* (not about the reconciler's
// decisions); such a scenario is set aside, not judged.
func (x *c25exec) syncCheck() string {
	all, err := x.listAll()
	if err != nil {
		return "list-failed:" + err.Error()
	}
	x.noteListingLayout(all)
	type st struct {
		marker, latest bool
		class          string
	}
	real := map[string]st{}
	for _, v := range all {
		id := v.VersionID
		if id == "" {
			id = "null"
		}
		real[v.Key.String()+"\x00"+id] = st{v.IsDeleteMarker, v.IsLatest, effClass(v.StorageClass)}
	}
	n := 0
	for k, l := range x.m.Keys {
		for i, v := range l {
			n++
			rv, ok := real[k+"\x00"+v.ID]
			if !ok {
				return fmt.Sprintf("model-has-extra-version %s/%s", k, v.ID)
			}
			if rv.marker != v.Marker {
				return fmt.Sprintf("marker-flag-differs %s/%s", k, v.ID)
			}
			if rv.latest != (i == len(l)-1) {
				return fmt.Sprintf("latest-flag-differs %s/%s real=%v", k, v.ID, rv.latest)
			}
			if !v.Marker && rv.class != v.Class {
				return fmt.Sprintf("class-differs %s/%s real=%s model=%s", k, v.ID, rv.class, v.Class)
			}
		}
	}
	if n != len(real) {
		return fmt.Sprintf("storage-has-%d-versions-model-%d", len(real), n)
	}
	lr, err := x.inner.ListMultipartUploads(x.ctx, x.bucket, storage.ListMultipartUploadsOptions{MaxUploads: 1000})
	if err != nil {
		return "list-uploads-failed:" + err.Error()
	}
	if len(lr.Uploads) != len(x.m.Uploads) {
		return fmt.Sprintf("uploads-differ real=%d model=%d", len(lr.Uploads), len(x.m.Uploads))
	}
	return ""
}

// lmOrderPerturbed reports whether ordering the key's stored versions by the
// LastModified pithos reports (newest first, as the reconciler does) differs
// from the true recency order of the model. Used only to make violation
// signatures specific (the verdict never depends on it).
func (x *c25exec) lmOrderPerturbed(k string) bool {
	real := x.listKey(k)
	sort.SliceStable(real, func(i, j int) bool { return real[i].LastModified.After(real[j].LastModified) })
	l := x.m.Keys[k]
	if len(real) != len(l) {
		return true
	}
	for i, v := range real {
		id := v.VersionID
		if id == "" {
			id = "null"
		}
		if l[len(l)-1-i].ID != id {
			return true
		}
	}
	return false
}

func keepCountSig(v *verdict, perturbed bool) {
	if !v.OK && strings.HasSuffix(v.Sig, "-keep-count") && perturbed {
		v.Sig += ":lastmodified-order-perturbed"
	}
}

func (x *c25exec) snapshotKey(k string) any {
	b, _ := json.Marshal(x.m.Keys[k])
	var out any
	_ = json.Unmarshal(b, &out)
	return out
}

func (x *c25exec) violation(sig, what string, act c25action, before any, extra map[string]any) {
	x.fired = append(x.fired, sig)
	w := map[string]any{
		"scenario":          x.sc,
		"pass":              x.pass,
		"injected_now":      x.now.Format(time.RFC3339Nano),
		"run_day_midnight":  x.today.Format(time.RFC3339),
		"versioning":        x.m.Versioning,
		"action":            act,
		"key_history_before": before,
		"uploads":           x.m.Uploads,
	}
	for k, v := range extra {
		w[k] = v
	}
	if os.Getenv("VERIF_LOG") != "" {
		b, _ := json.Marshal(w)
		fmt.Fprintf(os.Stderr, "WITNESS %s %s\n", sig, b)
	}
	x.r.Violation(sig, what, w)
}

type pendingPref struct {
	act    c25action
	before any
	at     int // index into x.actions
}

// settlePreferences classifies the transitions of this pass that the reference
// faults only because an expiration of the same item was due as well: if the
// reconciler itself expired that item at the same injected clock it chose the
// transition although it knew about the expiration; otherwise it merely dates
// the expiration later than S3 does (and moved the data first).
func (x *c25exec) settlePreferences() {
	for _, p := range x.pending {
		expiredToo := false
		for _, a := range x.actions[p.at+1:] {
			if a.Pass != p.act.Pass || a.Key != p.act.Key {
				continue
			}
			if (a.Call == "expire-current" || a.Call == "delete-version") && a.Version == p.act.Version && a.Err == "" {
				expiredToo = true
			}
		}
		sig := p.act.Verdict.Sig
		note := "the reconciler transitioned the item and expired it in the same pass at the same clock"
		if !expiredToo {
			sig += ":reconciler-dates-expiration-later"
			note = "the reference finds an expiration of this item due at the injected clock (S3 would delete, not transition); the reconciler did not expire it in this pass, i.e. it dates the expiration later than S3 and moved the data first"
		}
		a := p.act
		a.Verdict.Sig = sig
		what := fmt.Sprintf("%s on %s %s to %s at injected now=%s although an expiration of the same item is due", a.Call, a.Key, a.Version, a.Target, x.now.Format(time.RFC3339Nano))
		x.violation(sig, what, a, p.before, map[string]any{"note": note})
	}
	x.pending = nil
}

func offsetClass(now time.Time, due *time.Time) string {
	if due == nil {
		return "no-time-gate"
	}
	d := now.Sub(*due)
	switch {
	case d == 0:
		return "exactly-at-due"
	case d < 24*time.Hour:
		return "within-24h-after-due"
	case d < 30*24*time.Hour:
		return "days-after-due"
	default:
		return "far-after-due"
	}
}

func (x *c25exec) record(act c25action, before any, extra map[string]any) {
	x.actions = append(x.actions, act)
	x.passActions++
	v := act.Verdict
	if v.Noop {
		x.r.Count("actions.noop."+act.Call, 1)
		return
	}
	x.r.Count("actions."+act.Call, 1)
	if v.OK {
		clause := "?"
		var due *time.Time
		if v.Best != nil {
			clause = v.Best.Clause
			due = v.Best.Due
		}
		x.r.Count("justified."+act.Call+".by."+clause, 1)
		x.r.Count("justified.clock."+offsetClass(x.now, due), 1)
		return
	}
	if v.PreferenceSuspect {
		x.pending = append(x.pending, pendingPref{act: act, before: before, at: len(x.actions) - 1})
		return
	}
	if strings.Contains(v.Sig, ":filter-tag:") && v.Best != nil && v.Best.Rule < len(x.sc.Rules) {
		// name the kind of tag mismatch the reconciler let through
		if mv, _ := x.m.find(act.Key, act.Version); mv != nil {
			if d := x.sc.Rules[v.Best.Rule].tagMiss(mv.Tags); d != "" {
				v.Sig += ":" + d
				act.Verdict.Sig = v.Sig
			}
		}
	}
	what := fmt.Sprintf("%s on %s %s at injected now=%s is not permitted by the reference lifecycle evaluation", act.Call, act.Key, act.Version, x.now.Format(time.RFC3339Nano))
	x.violation(v.Sig, what, act, before, extra)
}

func errName(err error) string {
	switch {
	case err == nil:
		return ""
	case errors.Is(err, storage.ErrPreconditionFailed):
		return "PreconditionFailed"
	case errors.Is(err, storage.ErrNoSuchKey):
		return "NoSuchKey"
	default:
		s := err.Error()
		if len(s) > 40 {
			s = s[:40]
		}
		return s
	}
}

// maybeReplace overwrites the key between the reconciler's listing and its
// conditional delete / transition (once per key and pass).
func (x *c25exec) maybeReplace(k string) {
	if x.replaceMode == "" || x.replacedKey[k] {
		return
	}
	if x.callCtx != nil && inTx(x.callCtx) {
		// a concurrent writer cannot interleave inside the reconciler's own
		// transaction; the overwrite was injected before it began (WithTransaction)
		x.r.Count("replaced-after-listing.not-possible-inside-reconciler-transaction", 1)
		return
	}
	cur := x.m.current(k)
	if cur == nil || cur.Marker {
		return
	}
	x.replacedKey[k] = true
	seed, size, variant := cur.ContentSeed, cur.Size, cur.ContentVariant
	if x.replaceMode == "different" {
		variant++
		if size == 0 {
			size = 1
		}
	}
	x.doPutVariant(k, size, cur.Tags, cur.Class, seed, variant, x.replaceMode)
	x.r.Count("replaced-after-listing."+x.replaceMode, 1)
	if nv := x.m.current(k); nv != nil {
		if x.replaceMode == "identical" && nv.ETag != cur.ETag {
			x.discard = "identical-replacement-has-different-etag"
		}
		if x.replaceMode == "different" && nv.ETag == cur.ETag {
			x.discard = "different-replacement-has-identical-etag"
		}
	}
}

// recStorage sits between the reconciler and the real storage: every call the
// reconciler makes is observed here, judged against the reference and then
// applied to the model.
type recStorage struct {
	delegator.DelegatingStorage
	x *c25exec
}

// relocate returns the same instant carrying a fixed zone in which the local
// calendar date is the day BEFORE the UTC date (local time 23:59:59). Every
// second scenario hands the reconciler its listing / head timestamps this way
// (a metadata backend may return timestamps in any location; the instant is
// unchanged, so the reference's due instants are too): code that derives the
// "next midnight UTC" from the timestamp's local calendar date acts a day early.
func (s *recStorage) relocate(t time.Time) time.Time {
	if !s.x.relocated || t.IsZero() {
		return t
	}
	u := t.UTC()
	sec := u.Hour()*3600 + u.Minute()*60 + u.Second() + 1
	s.x.r.Count("reconciler.timestamps-relocated", 1)
	return t.In(time.FixedZone("verif-west", -sec))
}

func (s *recStorage) Start(context.Context) error { return nil }
func (s *recStorage) Stop(context.Context) error  { return nil }

func (s *recStorage) foreign(b storage.BucketName, call string) bool {
	if b.String() != s.x.bucket.String() {
		// every other bucket of this database belongs to a finished scenario
		// whose lifecycle configuration has been deleted
		s.x.r.Count("calls-on-other-bucket."+call, 1)
		act := c25action{Pass: s.x.pass, Call: call, Key: b.String(), Verdict: verdict{Sig: "acted-wrong:bucket-without-lifecycle-configuration"}}
		s.x.record(act, nil, nil)
		return true
	}
	return false
}

func (s *recStorage) ListObjects(ctx context.Context, b storage.BucketName, o storage.ListObjectsOptions) (*storage.ListBucketResult, error) {
	s.x.r.Count("reconciler.calls.ListObjects", 1)
	if o.StartAfter != nil {
		// a follow-up page of the sweep that is already running, not a new listing
		s.x.r.Count("reconciler.calls.ListObjects.follow-up-page", 1)
		return s.relocObjects(s.Next.ListObjects(ctx, b, o))
	}
	// a fresh listing observes whatever was written before it: objects that
	// were overwritten earlier in this pass are "listed" again from here on
	for _, l := range s.x.m.Keys {
		for _, v := range l {
			v.Replaced = ""
		}
	}
	s.x.replacedKey = map[string]bool{}
	return s.relocObjects(s.Next.ListObjects(ctx, b, o))
}

func (s *recStorage) relocObjects(res *storage.ListBucketResult, err error) (*storage.ListBucketResult, error) {
	if err == nil && res != nil && s.x.relocated {
		for i := range res.Objects {
			res.Objects[i].LastModified = s.relocate(res.Objects[i].LastModified)
		}
	}
	return res, err
}

func (s *recStorage) ListObjectVersions(ctx context.Context, b storage.BucketName, o storage.ListObjectVersionsOptions) (*storage.ListObjectVersionsResult, error) {
	s.x.r.Count("reconciler.calls.ListObjectVersions", 1)
	if o.KeyMarker == nil && b.String() == s.x.bucket.String() {
		s.x.ev.freezeListing()
	}
	if o.KeyMarker != nil {
		s.x.r.Count("reconciler.calls.ListObjectVersions.follow-up-page", 1)
	}
	res, err := s.Next.ListObjectVersions(ctx, b, o)
	if err == nil && res != nil && s.x.relocated {
		for i := range res.Versions {
			res.Versions[i].LastModified = s.relocate(res.Versions[i].LastModified)
		}
	}
	return res, err
}

func (s *recStorage) ListMultipartUploads(ctx context.Context, b storage.BucketName, o storage.ListMultipartUploadsOptions) (*storage.ListMultipartUploadsResult, error) {
	s.x.r.Count("reconciler.calls.ListMultipartUploads", 1)
	res, err := s.Next.ListMultipartUploads(ctx, b, o)
	if err == nil && res != nil && s.x.relocated {
		for i := range res.Uploads {
			res.Uploads[i].Initiated = s.relocate(res.Uploads[i].Initiated)
		}
	}
	return res, err
}

// The overwrite "after the key was listed" is injected at the reconciler's
// first access to the key after its listing, whatever that access is.
func (s *recStorage) GetObjectTagging(ctx context.Context, b storage.BucketName, k storage.ObjectKey, o *storage.ObjectTaggingOptions) (map[string]string, error) {
	s.x.r.Count("reconciler.calls.GetObjectTagging", 1)
	if (o == nil || o.VersionID == nil) && b.String() == s.x.bucket.String() {
		s.x.callCtx = ctx
		s.x.maybeReplace(k.String())
		s.x.callCtx = nil
	}
	return s.Next.GetObjectTagging(ctx, b, k, o)
}

func (s *recStorage) HeadObject(ctx context.Context, b storage.BucketName, k storage.ObjectKey, o *storage.HeadObjectOptions) (*storage.Object, error) {
	s.x.r.Count("reconciler.calls.HeadObject", 1)
	if (o == nil || o.VersionID == nil) && b.String() == s.x.bucket.String() {
		s.x.callCtx = ctx
		s.x.maybeReplace(k.String())
		s.x.callCtx = nil
	}
	obj, err := s.Next.HeadObject(ctx, b, k, o)
	if err == nil && obj != nil && s.x.relocated {
		obj.LastModified = s.relocate(obj.LastModified)
	}
	return obj, err
}

// WithTransaction: a reconciler that re-checks and acts inside one transaction
// cannot be interleaved; the concurrent overwrite lands just before it begins.
func (s *recStorage) WithTransaction(ctx context.Context, opts *sql.TxOptions, fn func(ctx context.Context, txStorage storage.Storage) error) error {
	s.x.r.Count("reconciler.calls.WithTransaction", 1)
	if !inTx(ctx) && s.x.replaceMode != "" {
		for _, k := range s.x.m.sortedKeys() {
			s.x.maybeReplace(k)
		}
	}
	return s.DelegatingStorage.WithTransaction(ctx, opts, fn)
}

func (s *recStorage) DeleteObject(ctx context.Context, b storage.BucketName, key storage.ObjectKey, opts *storage.DeleteObjectOptions) (*storage.DeleteObjectResult, error) {
	x := s.x
	k := key.String()
	if s.foreign(b, "DeleteObject") {
		return s.Next.DeleteObject(ctx, b, key, opts)
	}
	var vid *string
	if opts != nil {
		vid = opts.VersionID
	}
	x.callCtx = ctx
	defer func() { x.callCtx = nil }()
	if vid == nil {
		x.maybeReplace(k)
	}
	before := x.snapshotKey(k)
	perturbed := false
	if vid != nil {
		perturbed = x.lmOrderPerturbed(k)
		if perturbed {
			x.r.Count("observations.version-delete-with-lastmodified-order-perturbed", 1)
		}
	}
	t0 := time.Now().UTC()
	res, err := s.Next.DeleteObject(ctx, b, key, opts)
	t1 := time.Now().UTC()
	if err != nil {
		x.r.Count("reconciler.call-failed.DeleteObject."+errName(err), 1)
		if cur := x.m.current(k); vid == nil && cur != nil && cur.Replaced != "" {
			x.r.Count("replaced-after-listing.guard-held."+cur.Replaced+".delete", 1)
		}
		return res, err
	}
	if vid == nil {
		act := c25action{Pass: x.pass, Call: "expire-current", Key: k}
		cur := x.m.current(k)
		if cur != nil {
			act.Version = cur.ID
		}
		if cur != nil && cur.Replaced != "" {
			itself := x.ev.judgeExpireCurrent(k, x.now)
			act.Verdict = verdict{Sig: "acted-on-replaced:" + cur.Replaced + "-content", Family: "expiration", Evals: itself.Evals}
			x.r.Count("replaced-after-listing.acted."+cur.Replaced+".delete", 1)
			x.record(act, before, map[string]any{"replacement_itself_due_under_rules": itself.OK, "note": "the key was overwritten after the reconciler listed it and before this conditional delete; the delete went through"})
		} else {
			act.Verdict = x.ev.judgeExpireCurrent(k, x.now)
			x.record(act, before, nil)
		}
		// effect
		if x.m.Versioning == "off" {
			x.m.applyKeyDelete(k, "", t1)
		} else if res != nil && res.VersionID != nil && res.IsDeleteMarker {
			if created, ok := x.markerCreated(k, *res.VersionID, t0, t1); ok {
				x.m.applyKeyDelete(k, *res.VersionID, created)
			}
		} else {
			x.discard = "reconciler-delete-returned-no-marker"
		}
		return res, err
	}
	act := c25action{Pass: x.pass, Call: "delete-version", Key: k, Version: *vid}
	if v, _ := x.m.find(k, *vid); v != nil && v.Marker {
		act.Call = "delete-marker"
	}
	act.Verdict = x.ev.judgeDeleteVersion(k, *vid, x.now)
	keepCountSig(&act.Verdict, perturbed)
	extra := map[string]any{"lastmodified_order_differs_from_true_recency": perturbed}
	if act.Call == "delete-marker" {
		x.r.Count(fmt.Sprintf("actions.delete-marker.listing-pages.%d", (x.listedRows+c25Page-1)/c25Page), 1)
		if shape, ok := x.straddle[k]; ok {
			x.r.Count("actions.delete-marker.key-history-straddles-listing-page", 1)
			extra["key_rows_straddle_listing_page_boundary"] = shape
			extra["listing_rows"] = x.listedRows
			if !act.Verdict.OK && strings.Contains(act.Verdict.Sig, "not-sole-version") {
				act.Verdict.Sig += ":history-straddles-listing-page"
			}
		}
	}
	x.record(act, before, extra)
	x.m.applyVersionDelete(k, *vid)
	return res, err
}

func (s *recStorage) TransitionObjectStorageClass(ctx context.Context, b storage.BucketName, key storage.ObjectKey, target string, opts *storage.TransitionObjectStorageClassOptions) error {
	x := s.x
	k := key.String()
	if s.foreign(b, "TransitionObjectStorageClass") {
		return s.Next.TransitionObjectStorageClass(ctx, b, key, target, opts)
	}
	var vid *string
	if opts != nil {
		vid = opts.VersionID
	}
	x.callCtx = ctx
	defer func() { x.callCtx = nil }()
	if vid == nil {
		x.maybeReplace(k)
	}
	before := x.snapshotKey(k)
	perturbed := false
	if vid != nil {
		perturbed = x.lmOrderPerturbed(k)
	}
	err := s.Next.TransitionObjectStorageClass(ctx, b, key, target, opts)
	if err != nil {
		x.r.Count("reconciler.call-failed.Transition."+errName(err), 1)
		if cur := x.m.current(k); vid == nil && cur != nil && cur.Replaced != "" {
			x.r.Count("replaced-after-listing.guard-held."+cur.Replaced+".transition", 1)
		}
		return err
	}
	act := c25action{Pass: x.pass, Call: "transition-current", Key: k, Target: target}
	var mv *mVersion
	if vid == nil {
		mv = x.m.current(k)
		if mv != nil {
			act.Version = mv.ID
		}
	} else {
		act.Call = "transition-noncurrent"
		act.Version = *vid
		mv, _ = x.m.find(k, *vid)
	}
	if vid == nil && mv != nil && mv.Replaced != "" {
		itself := x.ev.judgeTransition(k, nil, target, x.now)
		act.Verdict = verdict{Sig: "acted-on-replaced:" + mv.Replaced + "-content", Family: "transition", Evals: itself.Evals}
		x.r.Count("replaced-after-listing.acted."+mv.Replaced+".transition", 1)
		x.record(act, before, map[string]any{"replacement_itself_due_under_rules": itself.OK, "note": "the key was overwritten after the reconciler listed it and before this conditional transition; the transition went through"})
	} else {
		act.Verdict = x.ev.judgeTransition(k, vid, target, x.now)
		keepCountSig(&act.Verdict, perturbed)
		if act.Verdict.OK && mv != nil && mv.Class == target {
			x.r.Count("observations.transition-to-same-class", 1)
		}
		x.record(act, before, map[string]any{"lastmodified_order_differs_from_true_recency": perturbed})
	}
	if mv != nil {
		mv.Class = target
	}
	return nil
}

func (s *recStorage) AbortMultipartUpload(ctx context.Context, b storage.BucketName, key storage.ObjectKey, id storage.UploadId) error {
	x := s.x
	if s.foreign(b, "AbortMultipartUpload") {
		return s.Next.AbortMultipartUpload(ctx, b, key, id)
	}
	err := s.Next.AbortMultipartUpload(ctx, b, key, id)
	if err != nil {
		x.r.Count("reconciler.call-failed.Abort."+errName(err), 1)
		return err
	}
	act := c25action{Pass: x.pass, Call: "abort-upload", Key: key.String(), Version: id.String()}
	act.Verdict = x.ev.judgeAbort(key.String(), id.String(), x.now)
	x.record(act, nil, nil)
	for i, u := range x.m.Uploads {
		if u.ID == id.String() {
			x.m.Uploads = append(x.m.Uploads[:i:i], x.m.Uploads[i+1:]...)
			break
		}
	}
	return nil
}

func (s *recStorage) unexpected(call, key string) {
	act := c25action{Pass: s.x.pass, Call: call, Key: key, Verdict: verdict{Sig: "acted-wrong:unexpected-mutation:" + call}}
	s.x.record(act, nil, nil)
}

func (s *recStorage) PutObject(ctx context.Context, b storage.BucketName, k storage.ObjectKey, ct *string, d io.Reader, ci *storage.ChecksumInput, o *storage.PutObjectOptions) (*storage.PutObjectResult, error) {
	s.unexpected("PutObject", k.String())
	return s.Next.PutObject(ctx, b, k, ct, d, ci, o)
}

func (s *recStorage) DeleteObjects(ctx context.Context, b storage.BucketName, e []storage.DeleteObjectsInputEntry) (*storage.DeleteObjectsResult, error) {
	s.unexpected("DeleteObjects", "")
	return s.Next.DeleteObjects(ctx, b, e)
}

func (s *recStorage) PutObjectTagging(ctx context.Context, b storage.BucketName, k storage.ObjectKey, t map[string]string, o *storage.ObjectTaggingOptions) error {
	s.unexpected("PutObjectTagging", k.String())
	return s.Next.PutObjectTagging(ctx, b, k, t, o)
}

func (s *recStorage) DeleteObjectTagging(ctx context.Context, b storage.BucketName, k storage.ObjectKey, o *storage.ObjectTaggingOptions) error {
	s.unexpected("DeleteObjectTagging", k.String())
	return s.Next.DeleteObjectTagging(ctx, b, k, o)
}

func (s *recStorage) DeleteBucket(ctx context.Context, b storage.BucketName) error {
	s.unexpected("DeleteBucket", "")
	return s.Next.DeleteBucket(ctx, b)
}

func (s *recStorage) CopyObject(ctx context.Context, sb storage.BucketName, sk storage.ObjectKey, db storage.BucketName, dk storage.ObjectKey, o *storage.CopyObjectOptions) (*storage.CopyObjectResult, error) {
	s.unexpected("CopyObject", dk.String())
	return s.Next.CopyObject(ctx, sb, sk, db, dk, o)
}

type reconcileOncer interface {
	ReconcileOnce(ctx context.Context, cancel *atomic.Bool)
}

// observeBeforePass counts what the pass about to run can exercise (evidence
// only): listing layout, and objects next to empty-valued filter tags.
func (x *c25exec) observeBeforePass() {
	if x.listedRows > c25Page {
		x.r.Count("paged.passes", 1)
		for _, shape := range x.straddle {
			x.r.Count("paged.passes.key-history-straddles-listing-page", 1)
			x.r.Count("paged.passes.straddle."+shape, 1)
		}
	}
	for i := range x.sc.Rules {
		rule := &x.sc.Rules[i]
		if !rule.Enabled {
			continue
		}
		for _, t := range rule.tagPreds() {
			if t.V != "" {
				continue
			}
			for k, l := range x.m.Keys {
				if !strings.HasPrefix(k, rule.prefix()) {
					continue
				}
				for _, v := range l {
					if v.Marker {
						continue
					}
					if val, ok := v.Tags[t.K]; !ok {
						x.r.Count("observations.versions-lacking-the-key-of-an-empty-valued-filter-tag", 1)
					} else if val == "" {
						x.r.Count("observations.versions-carrying-an-empty-valued-filter-tag", 1)
					}
				}
			}
		}
	}
}

func offsetOf(off string) time.Duration {
	switch off {
	case "-1ns":
		return -time.Nanosecond
	case "+1ns":
		return time.Nanosecond
	case "+13h":
		return 13 * time.Hour
	case "-13h":
		return -13 * time.Hour
	case "far+":
		return 400 * 24 * time.Hour
	case "far-":
		return -400 * 24 * time.Hour
	}
	return 0
}

// runScenario executes one scenario in its own bucket. Returns the signatures
// of the violations it raised.
func runC25Scenario(r *vkit.Run, env *vkit.Env, inner storage.Storage, sc c25Scenario, bucketName string) *c25exec {
	ctx := context.Background()
	// Day-based rules are anchored at midnight UTC of the run day: a scenario must not
	// straddle midnight. Instead of discarding scenarios (and ending inconclusive) when
	// the check happens to run around midnight, wait until the window has passed (at
	// most ~4 minutes once a day; this is a pause, no oracle reads this clock).
	for {
		now := time.Now().UTC()
		day := now.Truncate(24 * time.Hour)
		if now.Sub(day) >= 2*time.Minute && day.Add(24*time.Hour).Sub(now) >= 2*time.Minute {
			break
		}
		time.Sleep(5 * time.Second)
	}
	start := time.Now().UTC()
	x := &c25exec{r: r, ctx: ctx, env: env, inner: inner, sc: sc, m: newModel(), today: start.Truncate(24 * time.Hour), bucket: storage.MustNewBucketName(bucketName)}
	x.ev = &evaluator{rules: sc.Rules, today: x.today, m: x.m}
	x.relocated = sc.Relocated
	// keep the whole scenario >= 2 min away from midnight UTC
	if start.Sub(x.today) < 2*time.Minute || x.today.Add(24*time.Hour).Sub(start) < 2*time.Minute {
		x.discard = "too-close-to-midnight-utc"
		return x
	}
	if err := inner.CreateBucket(ctx, x.bucket); err != nil {
		x.discard = "create-bucket-failed:" + err.Error()
		return x
	}
	defer func() { _ = inner.DeleteBucketLifecycleConfiguration(ctx, x.bucket) }()

	cfg := &storage.BucketLifecycleConfiguration{}
	for i := range sc.Rules {
		cfg.Rules = append(cfg.Rules, sc.Rules[i].toPithos(x.today))
	}
	if verr := storage.ValidateBucketLifecycleConfiguration(cfg); verr != nil {
		x.discard = "generator-produced-invalid-config:" + verr.Message
		return x
	}
	for i, s := range sc.Steps {
		x.step(i, s)
		if x.discard != "" {
			return x
		}
		r.Count("history.steps."+s.Op, 1)
	}
	if err := inner.PutBucketLifecycleConfiguration(ctx, x.bucket, cfg); err != nil {
		x.discard = "put-lifecycle-failed:" + err.Error()
		return x
	}
	if d := x.syncCheck(); d != "" {
		x.discard = "state-divergence-before-reconcile:" + d
		return x
	}
	r.Count("history.versioning-final."+x.m.Versioning, 1)
	for _, l := range x.m.Keys {
		r.Count(fmt.Sprintf("history.versions-per-key.%d", len(l)), 1)
	}

	rec := &recStorage{DelegatingStorage: delegator.Wrap(inner), x: x}
	mw := lifecyclereconciler.NewStorageMiddleware(rec, lifecyclereconciler.WithNow(func() time.Time { return x.now }), lifecyclereconciler.WithReconcileInterval(0))
	ro, ok := mw.(reconcileOncer)
	if !ok {
		x.discard = "reconciler-has-no-ReconcileOnce"
		return x
	}
	for pi, p := range sc.Passes {
		x.pass = pi
		for _, l := range x.m.Keys {
			for _, v := range l {
				v.Replaced = ""
			}
		}
		cands := x.ev.candidates()
		var dues []time.Time
		for _, c := range cands {
			if len(dues) == 0 || !dues[len(dues)-1].Equal(c.Due) {
				dues = append(dues, c.Due)
			}
		}
		base := x.today.Add(48 * time.Hour)
		if len(dues) > 0 {
			base = dues[p.Pick%len(dues)]
			r.Count("passes.clock-relative-to-real-due."+p.Off, 1)
		} else {
			r.Count("passes.no-due-candidate."+p.Off, 1)
		}
		x.now = base.Add(offsetOf(p.Off))
		x.replaceMode = p.Replace
		x.replacedKey = map[string]bool{}
		x.ev.listed = nil
		x.passActions = 0
		// targets whose only gate is this due instant
		nTargets := 0
		for _, c := range cands {
			if c.Due.Equal(base) {
				nTargets++
			}
		}
		nBefore := len(x.actions)
		x.observeBeforePass()
		ro.ReconcileOnce(ctx, nil)
		x.settlePreferences()
		r.Count("passes", 1)
		if x.discard != "" {
			return x
		}
		acted := len(x.actions) - nBefore
		r.Count("passes.actions-total", int64(acted))
		if len(dues) > 0 {
			switch {
			case offsetOf(p.Off) < 0 && p.Off != "far-":
				r.Count("passes.just-before-due.targets", int64(nTargets))
			case p.Off == "0":
				r.Count("passes.exactly-at-due.targets", int64(nTargets))
				if acted > 0 {
					r.Count("passes.exactly-at-due.with-actions", 1)
				}
			}
		}
		if d := x.syncCheck(); d != "" {
			x.discard = "state-divergence-after-reconcile:" + d
			return x
		}
	}
	end := time.Now().UTC()
	if !end.Truncate(24 * time.Hour).Equal(x.today) {
		x.discard = "midnight-straddle"
	}
	return x
}

func runC25(tier, replay string) {
	r := vkit.Begin("C25", "exploration", tier)
	r.SetRule("scenario = generated rule set (1-3 S3-valid rules: legacy prefix / prefix / tag / size / And filters, Expiration Days 1-3 or Date, ExpiredObjectDeleteMarker, transitions to 1-2 classes with Days 0-3 or Date, noncurrent expiration/transition days 1-3 with NewerNoncurrentVersions 1-3, abort-incomplete days, enabled/disabled) x generated history on 1-3 keys (puts with sizes around the size thresholds / tag sets / classes, delete markers, version deletes, (un)tagging and user transitions of old versions, incomplete uploads, versioning off/enabled/suspended, ageing by whole days) x 3 reconcile passes whose injected clock is placed relative to a due instant computed by the reference (due-1ns, due, due+1ns, +-13h, +-400d), two of them optionally with the key overwritten (identical / different content) between listing and action; plus 'tagedge' scenarios (every rule filtered by 1-3 tag predicates, many with EMPTY values, objects untagged / carrying the tag with an empty or another value / carrying one of two filter tags / the key in another case) and 'paged' scenarios (versioned bucket padded with 2000+ rows of filler keys with their own 1-3 row histories so that every reconciler listing spans several pages; the scenario keys - current delete marker over older versions, sole delete marker, marker over older marker - are placed so that 0..all of their rows stay on the page ending at a multiple of 1000; ExpiredObjectDeleteMarker rule with each spelling of the empty prefix). distinct = distinct (rule-clause kinds, filter kinds, history op string, clock offsets) tuples")
	r.Assume("reference = independent re-implementation of S3 lifecycle semantics (day-based instants round up to the next midnight UTC; noncurrent age counts from the successor's creation; NewerNoncurrentVersions counts noncurrent versions incl. delete markers (permissive reading); an expired object delete marker is a current delete marker that is the only version of its key; expiration beats transition)")
	r.Assume(fmt.Sprintf("process time zone = %s; every second scenario hands the reconciler its listing/head timestamps relocated into a fixed zone whose calendar date is the day before the UTC date (same instants)", time.Now().Location()))
	r.Assume("creation instants are the LastModified values pithos stored, each verified to lie inside the harness' wall-clock bracket of the creating call and on the run day; ageing is simulated by shifting created_at/updated_at of the bucket's object rows back by whole days through SQL (rows are exactly what an earlier write would have left)")
	r.Assume("safety only: actions the reconciler does NOT take are never judged; scenarios whose model and storage disagree about the state before a pass (other properties' territory) are set aside and counted")
	root := r.Rand()

	if replay != "" {
		b, err := os.ReadFile(replay)
		if err != nil {
			fmt.Println("cannot read replay:", err)
			os.Exit(3)
		}
		var w struct {
			Signature string `json:"signature"`
			Witness   struct {
				Scenario c25Scenario `json:"scenario"`
			} `json:"witness"`
		}
		if err := json.Unmarshal(b, &w); err != nil {
			fmt.Println("cannot parse replay:", err)
			os.Exit(3)
		}
		env, err := vkit.OpenEnv(r.SubDir("replay"))
		if err != nil {
			r.Inconclusive("cannot open env: " + err.Error())
			r.Finish()
		}
		inner, err := env.NewStorage("sql")
		if err != nil {
			r.Inconclusive("cannot build storage: " + err.Error())
			r.Finish()
		}
		x := runC25Scenario(r, env, inner, w.Witness.Scenario, "c25-replay")
		r.Eval(w.Witness.Scenario.shape())
		ok := false
		for _, s := range x.fired {
			if s == w.Signature {
				ok = true
			}
		}
		if x.discard != "" {
			fmt.Println("replay: scenario set aside:", x.discard)
		}
		_ = inner.Stop(context.Background())
		env.Close()
		finishReplay(r, ok)
	}

	nBase := r.N(480, 12000)
	nTag := r.N(64, 1600)  // extra "tagedge" scenarios
	nPaged := r.N(8, 64)   // extra "paged" scenarios (each builds a bucket of 2000+ versions)
	n := nBase + nTag + nPaged
	extraOf := func(i int) string {
		switch {
		case i < nBase:
			return ""
		case i < nBase+nTag:
			return "tagedge"
		}
		return "paged"
	}
	workers := r.N(4, 8)
	const perEnv = 20
	var wg sync.WaitGroup
	var mu sync.Mutex
	discards := map[string]int{}
	judged := 0
	for w := 0; w < workers; w++ {
		wg.Add(1)
		go func(w int) {
			defer wg.Done()
			var env *vkit.Env
			var inner storage.Storage
			inEnv := 0
			closeEnv := func() {
				if inner != nil {
					_ = inner.Stop(context.Background())
				}
				if env != nil {
					env.Close()
				}
				env, inner = nil, nil
			}
			defer closeEnv()
			for i := w; i < n; i += workers {
				if env == nil || inEnv >= perEnv {
					closeEnv()
					var err error
					env, err = vkit.OpenEnv(r.SubDir(fmt.Sprintf("w%d-%d", w, i)))
					if err != nil {
						r.Inconclusive("cannot open env: " + err.Error())
						return
					}
					inner, err = env.NewStorage("sql")
					if err != nil {
						r.Inconclusive("cannot build storage: " + err.Error())
						return
					}
					inEnv = 0
				}
				inEnv++
				sc := genScenario(root, i, extraOf(i))
				sc.Relocated = i%2 == 1
				x := runC25Scenario(r, env, inner, sc, fmt.Sprintf("c25-%d", i))
				mu.Lock()
				if x.discard != "" {
					d := x.discard
					if j := strings.Index(d, ":"); j > 0 {
						d = d[:j]
					}
					discards[d]++
					if os.Getenv("VERIF_LOG") != "" {
						fmt.Fprintf(os.Stderr, "scenario %d set aside: %s\n", i, x.discard)
					}
				} else {
					judged++
				}
				mu.Unlock()
				if x.discard == "" {
					r.Eval(sc.shape())
					if sc.Flavour != "" {
						r.Count("scenarios.judged."+sc.Flavour, 1)
					}
					if i < 3 || i == nBase || i == nBase+nTag {
						r.Sample(map[string]any{"scenario": sc, "actions": x.actions})
					} else if len(x.actions) > 0 && i%37 == 0 {
						r.Sample(map[string]any{"scenario": sc, "actions": x.actions})
					}
				}
			}
		}(w)
	}
	wg.Wait()
	ds := make([]string, 0, len(discards))
	for k, v := range discards {
		ds = append(ds, fmt.Sprintf("%s=%d", k, v))
		r.Count("scenarios.set-aside."+k, int64(v))
	}
	sort.Strings(ds)
	r.Count("scenarios.judged", int64(judged))
	nAct := r.Counter("actions.expire-current") + r.Counter("actions.delete-version") + r.Counter("actions.delete-marker") + r.Counter("actions.transition-current") + r.Counter("actions.transition-noncurrent") + r.Counter("actions.abort-upload")
	for _, bad := range []string{"bracket-violated", "midnight-straddle", "too-close-to-midnight-utc", "generator-produced-invalid-config", "reconciler-has-no-ReconcileOnce"} {
		if discards[bad] > 0 && (bad != "midnight-straddle" && bad != "too-close-to-midnight-utc" || judged < n/2) {
			r.Inconclusive(fmt.Sprintf("%d scenarios unusable: %s", discards[bad], bad))
		}
	}
	if judged < n/2 {
		r.Inconclusive(fmt.Sprintf("only %d of %d scenarios could be judged (%s)", judged, n, strings.Join(ds, " ")))
	}
	if nAct < int64(n/4) {
		r.Inconclusive(fmt.Sprintf("only %d reconciler actions observed in %d scenarios", nAct, n))
	}
	for _, kind := range []string{"expire-current", "delete-version", "delete-marker", "transition-current", "transition-noncurrent", "abort-upload"} {
		if r.Counter("actions."+kind) == 0 {
			r.Inconclusive("no " + kind + " action was ever observed")
		}
	}
	if r.Counter("observations.versions-lacking-the-key-of-an-empty-valued-filter-tag") == 0 || r.Counter("observations.versions-carrying-an-empty-valued-filter-tag") == 0 {
		r.Inconclusive("no pass ever saw an enabled rule with an empty-valued filter tag next to objects with and without that tag")
	}
	if r.Counter("scenarios.judged.paged") == 0 || r.Counter("reconciler.calls.ListObjectVersions.follow-up-page") == 0 || r.Counter("reconciler.calls.ListObjects.follow-up-page") == 0 {
		r.Inconclusive("the reconciler never had to fetch a follow-up listing page")
	}
	if r.Counter("paged.passes.key-history-straddles-listing-page") == 0 || r.Counter("paged.passes.straddle.current-delete-marker-ends-page") == 0 {
		r.Inconclusive("no reconcile pass ran on a bucket in which a key's version history lay on both sides of a listing page boundary")
	}
	if r.Counter("replaced-after-listing.identical") == 0 || r.Counter("replaced-after-listing.different") == 0 {
		r.Inconclusive("the replaced-after-listing double never fired in both modes")
	}
	r.Finish()
}
