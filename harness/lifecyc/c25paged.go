package main

// C25, listings that span several pages: the "fill" step pads a versioned
// bucket with filler keys so that ListObjectVersions / ListObjects need more
// than one page and the version histories of the scenario's own keys lie on
// both sides of page boundaries (some rows on the earlier page, the rest on the
// next one; ending exactly at a page end; starting exactly at a page start).
// Filler keys carry small generated histories of their own and are part of the
// model like every other key: whatever the reconciler does to them is judged by
// the same reference.

import (
	"bytes"
	"fmt"
	"os"
	"time"

	"github.com/jdillenkofer/pithos/internal/storage"
	"github.com/jdillenkofer/pithos/internal/verif/vkit"
)

// c25Page is the largest page S3 list calls return (MaxKeys 1000); it is the
// page size the reconciler asks for.
const c25Page = 1000

// listAll reads the bucket's complete version listing page by page.
func (x *c25exec) listAll() ([]storage.ObjectVersion, error) {
	var out []storage.ObjectVersion
	var km, vm *string
	for page := 0; ; page++ {
		res, err := x.inner.ListObjectVersions(x.ctx, x.bucket, storage.ListObjectVersionsOptions{KeyMarker: km, VersionIDMarker: vm, MaxKeys: c25Page})
		if err != nil {
			return nil, err
		}
		out = append(out, res.Versions...)
		if !res.IsTruncated || res.NextKeyMarker == nil {
			return out, nil
		}
		if page > 1000 {
			return nil, fmt.Errorf("version listing does not terminate")
		}
		km, vm = res.NextKeyMarker, res.NextVersionIDMarker
	}
}

// noteListingLayout records, from a real complete listing, which keys have
// rows on both sides of a page boundary (used for evidence counters and to make
// violation signatures specific; no verdict depends on it).
func (x *c25exec) noteListingLayout(all []storage.ObjectVersion) {
	x.straddle = map[string]string{}
	x.listedRows = len(all)
	for b := c25Page; b < len(all); b += c25Page {
		last, first := all[b-1], all[b]
		if last.Key.String() != first.Key.String() {
			continue
		}
		k := last.Key.String()
		shape := "other"
		// rows of the key on the earlier page
		onEarlier := 0
		for i := b - 1; i >= 0 && all[i].Key.String() == k; i-- {
			onEarlier++
		}
		if onEarlier == 1 && last.IsDeleteMarker && last.IsLatest {
			shape = "current-delete-marker-ends-page"
		}
		x.straddle[k] = shape
	}
}

type fillOp struct {
	key  string
	op   string // put del delver
	id   string // version id produced (put, del) or removed (delver)
	size int64
	tags map[string]string
}

func fillerBefore(target string, n int) string {
	b := []byte(target)
	b[len(b)-1]--
	return fmt.Sprintf("%s~%05d", b, n)
}

// fill pads the bucket. For the n-th key of the model (in listing order) it
// inserts filler keys that sort directly before it so that exactly Split[n]
// (mod history length + 1) of the key's rows stay on the page that ends at row
// n*1000; Tail more filler rows follow the last key.
func (x *c25exec) fill(stepIdx int, s stepSpec) {
	if x.m.Versioning != "enabled" {
		x.discard = "fill-needs-versioning-enabled"
		return
	}
	rg := vkit.NewRand(uint64(x.sc.Index)*7919 + uint64(stepIdx) + 99)
	targets := x.m.sortedKeys()
	var ops []fillOp
	rows := 0
	page := 1
	prev := ""
	nFill := 0
	t0 := time.Now().UTC()
	exec := func(key string, kind string) int {
		// returns rows added
		put := func() bool {
			size := []int64{0, 0, 0, 0, 40}[rg.Intn(5)]
			var tags map[string]string
			if rg.Chance(12) {
				tags = vkit.Pick(rg, c25TagSets)
			}
			res, err := x.inner.PutObject(x.ctx, x.bucket, x.key(key), nil, bytes.NewReader(c25Content(uint64(nFill)+5, size, 0)), nil, &storage.PutObjectOptions{Tags: copyTags(tags)})
			if err != nil || res.VersionID == nil || *res.VersionID == "" {
				x.discard = fmt.Sprintf("fill-put-failed:%v", err)
				return false
			}
			ops = append(ops, fillOp{key: key, op: "put", id: *res.VersionID, size: size, tags: tags})
			return true
		}
		del := func() bool {
			res, err := x.inner.DeleteObject(x.ctx, x.bucket, x.key(key), nil)
			if err != nil || res == nil || res.VersionID == nil || !res.IsDeleteMarker {
				x.discard = fmt.Sprintf("fill-delete-failed:%v", err)
				return false
			}
			ops = append(ops, fillOp{key: key, op: "del", id: *res.VersionID})
			return true
		}
		nFill++
		switch kind {
		case "o":
			if !put() {
				return 0
			}
			return 1
		case "om":
			if !put() || !del() {
				return 0
			}
			return 2
		case "oo":
			if !put() || !put() {
				return 0
			}
			return 2
		case "oom":
			if !put() || !put() || !del() {
				return 0
			}
			return 3
		case "m":
			if !put() || !del() {
				return 0
			}
			id := ops[len(ops)-2].id
			if _, err := x.inner.DeleteObject(x.ctx, x.bucket, x.key(key), &storage.DeleteObjectOptions{VersionID: &id}); err != nil {
				x.discard = "fill-delete-version-failed:" + err.Error()
				return 0
			}
			ops = append(ops, fillOp{key: key, op: "delver", id: id})
			return 1
		}
		return 0
	}
	pickKind := func(room int) string {
		c := rg.Intn(100)
		switch {
		case room >= 3 && c < 4:
			return "oom"
		case room >= 2 && c < 16:
			return "om"
		case room >= 2 && c < 24:
			return "oo"
		case c < 28:
			return "m"
		}
		return "o"
	}
	for ti, t := range targets {
		h := len(x.m.Keys[t])
		split := 1
		if ti < len(s.Split) {
			split = s.Split[ti]
		}
		j := ((split % (h + 1)) + (h + 1)) % (h + 1)
		need := page*c25Page - j - rows
		for need < 0 {
			page++
			need = page*c25Page - j - rows
		}
		n := 0
		for need > 0 {
			fk := fillerBefore(t, n)
			n++
			if !(prev < fk && fk < t) {
				x.discard = "fill-key-order"
				return
			}
			got := exec(fk, pickKind(need))
			if x.discard != "" {
				return
			}
			need -= got
			rows += got
		}
		rows += h
		page++
		prev = t
		x.r.Count(fmt.Sprintf("paged.fill.target-rows-on-earlier-page.%d-of-%d", j, h), 1)
	}
	for n, left := 0, s.Tail; left > 0 && prev != ""; n++ {
		got := exec(fmt.Sprintf("%s~%05d", prev, n), pickKind(left))
		if x.discard != "" {
			return
		}
		left -= got
		rows += got
	}
	t1 := time.Now().UTC()
	all, err := x.listAll()
	if err != nil {
		x.discard = "list-failed:" + err.Error()
		return
	}
	if os.Getenv("VERIF_LOG") != "" {
		for _, t := range targets {
			var pos []int
			for i, v := range all {
				if v.Key.String() == t {
					pos = append(pos, i)
				}
			}
			fmt.Fprintf(os.Stderr, "fill scenario %d target %q rows at %v of %d\n", x.sc.Index, t, pos, len(all))
		}
	}
	type lm struct {
		t    time.Time
		etag string
	}
	stored := map[string]lm{}
	for _, v := range all {
		et := ""
		if v.ETag != nil {
			et = *v.ETag
		}
		stored[v.Key.String()+"\x00"+v.VersionID] = lm{v.LastModified, et}
	}
	// apply the filler operations to the model in execution order, with the
	// creation instants pithos stored
	for i, o := range ops {
		switch o.op {
		case "put", "del":
			st, ok := stored[o.key+"\x00"+o.id]
			if !ok {
				// removed again by a later delver of this filler (kind "m"): its
				// instant is irrelevant, take the marker's that follows it
				if i+1 < len(ops) && ops[i+1].key == o.key {
					st, ok = stored[o.key+"\x00"+ops[i+1].id]
				}
				if !ok {
					x.discard = "fill-version-not-listed"
					return
				}
			}
			if !x.bracket("fill-"+o.op, t0, st.t, t1) {
				return
			}
			if o.op == "put" {
				x.m.applyPut(o.key, &mVersion{ID: o.id, Size: o.size, Tags: copyTags(o.tags), Class: "STANDARD", ETag: st.etag, Created: st.t, ContentSeed: 0})
			} else {
				x.m.applyKeyDelete(o.key, o.id, st.t)
			}
		case "delver":
			x.m.applyVersionDelete(o.key, o.id)
		}
	}
	x.filled = true
	x.r.Count("paged.fill.filler-keys", int64(nFill))
	x.r.Count("paged.fill.filler-operations", int64(len(ops)))
	x.r.Count("paged.fill.rows-total", int64(len(all)))
}
