// Engine "lifecyc": runtime monitors for the lifecycle reconciler (C25) and the
// event-notification outbox (C22). Both run the real pithos code against a real
// SQLite-backed storage with recording / faulting doubles spliced in at the
// interfaces pithos itself exposes (storage.Storage, notification.Repository,
// notification.Publisher, partstore.PartStore).
package main

import (
	"flag"
	"fmt"
	"os"

	"github.com/jdillenkofer/pithos/internal/verif/vkit"
)

// finishReplay ends a -replay run WITHOUT rewriting the property's evidence
// file (a replay executes one case; the evidence of the last full run stays).
func finishReplay(r *vkit.Run, reproduced bool) {
	_ = os.RemoveAll(r.Dir)
	if reproduced {
		fmt.Println("replay: reproduced")
		os.Exit(1)
	}
	fmt.Println("replay: not reproduced")
	os.Exit(0)
}

func main() {
	prop := flag.String("prop", "", "property id")
	tier := flag.String("tier", "", "quick|thorough")
	replay := flag.String("replay", "", "replay file")
	flag.Parse()
	switch *prop {
	case "C25":
		runC25(*tier, *replay)
	case "C22":
		runC22(*tier, *replay)
	default:
		fmt.Fprintln(os.Stderr, "engine lifecyc: unknown property", *prop)
		os.Exit(3)
	}
}
