package main

import (
	"bytes"
	"context"
	"database/sql"
	"encoding/json"
	"errors"
	"fmt"
	"os"
	"sort"
	"strings"
	"sync"
	"sync/atomic"
	"time"

	"github.com/jdillenkofer/pithos/internal/storage"
	"github.com/jdillenkofer/pithos/internal/storage/database"
	"github.com/jdillenkofer/pithos/internal/storage/metadatapart"
	"github.com/jdillenkofer/pithos/internal/storage/metadatapart/partstore"
	"github.com/jdillenkofer/pithos/internal/storage/middlewares/delegator"
	"github.com/jdillenkofer/pithos/internal/storage/notification"
	"github.com/jdillenkofer/pithos/internal/verif/vkit"
)

// ---- reference: which (destination, event) rows must a committed event produce ----

type nRule struct {
	Kind   string   `json:"kind"` // topic | queue | function
	ARN    string   `json:"arn"`
	Events []string `json:"events"`
	Prefix *string  `json:"prefix,omitempty"`
	Suffix *string  `json:"suffix,omitempty"`
}

type nConfig struct {
	Rules       []nRule `json:"rules"`
	EventBridge bool    `json:"event_bridge,omitempty"`
}

// refEventSelected: S3 event-type selection. A configured type selects an
// event if it is that very type, or if it is a family wildcard
// "s3:<Family>:*" and the event belongs to that family.
func refEventSelected(configured, event string) bool {
	c := strings.Split(configured, ":")
	e := strings.Split(event, ":")
	for i, seg := range c {
		if seg == "*" && i == len(c)-1 {
			return len(e) > i
		}
		if i >= len(e) || e[i] != seg {
			return false
		}
	}
	return len(c) == len(e)
}

func (r *nRule) selects(event, key string) bool {
	sel := false
	for _, c := range r.Events {
		if refEventSelected(c, event) {
			sel = true
			break
		}
	}
	if !sel {
		return false
	}
	if r.Prefix != nil && (len(key) < len(*r.Prefix) || key[:len(*r.Prefix)] != *r.Prefix) {
		return false
	}
	if r.Suffix != nil && (len(key) < len(*r.Suffix) || key[len(key)-len(*r.Suffix):] != *r.Suffix) {
		return false
	}
	return true
}

type rowKey struct {
	ARN, Event, Bucket, Key string
}

func (k rowKey) String() string { return k.ARN + " " + k.Event + " " + k.Bucket + "/" + k.Key }

func (c *nConfig) expectedRows(bucket, key, event string) []rowKey {
	if c == nil {
		return nil
	}
	var out []rowKey
	// pithos stores topic, queue and function rules in three lists; the
	// multiset of rows does not depend on the order
	for _, r := range c.Rules {
		if r.selects(event, key) {
			out = append(out, rowKey{r.ARN, event, bucket, key})
		}
	}
	if c.EventBridge {
		out = append(out, rowKey{"eventbridge:" + bucket, event, bucket, key})
	}
	return out
}

func (c *nConfig) toPithos() *storage.BucketNotificationConfiguration {
	out := &storage.BucketNotificationConfiguration{EventBridgeEnabled: c.EventBridge}
	for i, r := range c.Rules {
		pr := storage.NotificationConfigurationRule{ID: sptr(fmt.Sprintf("n%d", i)), DestinationARN: r.ARN, Events: append([]string{}, r.Events...)}
		if r.Prefix != nil {
			pr.FilterRules = append(pr.FilterRules, storage.NotificationFilterRule{Name: "prefix", Value: *r.Prefix})
		}
		if r.Suffix != nil {
			pr.FilterRules = append(pr.FilterRules, storage.NotificationFilterRule{Name: "suffix", Value: *r.Suffix})
		}
		switch r.Kind {
		case "topic":
			pr.DestinationType = storage.NotificationDestinationTopic
			out.TopicConfigurations = append(out.TopicConfigurations, pr)
		case "queue":
			pr.DestinationType = storage.NotificationDestinationQueue
			out.QueueConfigurations = append(out.QueueConfigurations, pr)
		default:
			pr.DestinationType = storage.NotificationDestinationCloudFunction
			out.CloudFunctionConfigurations = append(out.CloudFunctionConfigurations, pr)
		}
	}
	return out
}

var (
	c22EventTypes = []string{
		"s3:ObjectCreated:*", "s3:ObjectCreated:Put", "s3:ObjectCreated:Copy", "s3:ObjectCreated:CompleteMultipartUpload",
		"s3:ObjectRemoved:*", "s3:ObjectRemoved:Delete", "s3:ObjectRemoved:DeleteMarkerCreated",
		"s3:ObjectTagging:*", "s3:ObjectTagging:Put", "s3:ObjectTagging:Delete",
		"s3:LifecycleExpiration:*", "s3:LifecycleExpiration:Delete", "s3:LifecycleExpiration:DeleteMarkerCreated", "s3:LifecycleTransition",
		"s3:ObjectRestore:*", "s3:Replication:*",
	}
	c22Keys     = []string{"img/a.jpg", "img/b.png", "doc/a.txt", "doc/x.jpg", "a.jpg", "tmp/z", "img/sub/c.jpg"}
	c22Prefixes = []string{"img/", "doc/", "i", "img/sub/", "tmp/", "zzz/"}
	c22Suffixes = []string{".jpg", ".png", ".txt", "jpg", "z", ".gif"}
)

func genNConfig(rg *vkit.Rand, tag string) *nConfig {
	c := &nConfig{EventBridge: rg.Chance(20)}
	n := rg.Range(1, 4)
	for i := 0; i < n; i++ {
		kind := vkit.Pick(rg, []string{"topic", "queue", "function"})
		arn := map[string]string{"topic": "arn:aws:sns:eu-central-1:000000000000:", "queue": "arn:aws:sqs:eu-central-1:000000000000:", "function": "arn:aws:lambda:eu-central-1:000000000000:function:"}[kind] + fmt.Sprintf("%s-%d", tag, i)
		r := nRule{Kind: kind, ARN: arn}
		ne := rg.Range(1, 4)
		ev := append([]string{}, c22EventTypes...)
		vkit.Shuffle(rg, ev)
		r.Events = ev[:ne]
		if rg.Chance(45) {
			// a family wildcard next to exact types of the same / another family
			r.Events = append(r.Events, vkit.Pick(rg, []string{"s3:ObjectCreated:*", "s3:ObjectRemoved:*", "s3:ObjectTagging:*", "s3:LifecycleExpiration:*"}))
		}
		if rg.Chance(35) {
			r.Prefix = sptr(vkit.Pick(rg, c22Prefixes))
		}
		if rg.Chance(25) {
			r.Suffix = sptr(vkit.Pick(rg, c22Suffixes))
		}
		c.Rules = append(c.Rules, r)
	}
	return c
}

func allEventsConfig(tag string) *nConfig {
	return &nConfig{Rules: []nRule{{Kind: "queue", ARN: "arn:aws:sqs:eu-central-1:000000000000:" + tag,
		Events: []string{"s3:ObjectCreated:*", "s3:ObjectRemoved:*", "s3:ObjectTagging:*", "s3:LifecycleExpiration:*", "s3:LifecycleTransition"}}}}
}

// ---- the stack under test ----

type c22Stack struct {
	r      *vkit.Run
	ctx    context.Context
	env    *vkit.Env
	real   storage.Storage // metadatapart over SQLite
	fs     *faultStorage
	fps    *faultPartStore
	repo   *recRepo
	pub    *scriptPublisher
	mw     *notification.StorageMiddleware
	outbox string
	seq    atomic.Int64
	conf   map[string]*nConfig
	vers   map[string]string // bucket -> off|enabled|suspended
}

// newC22Stack builds notification-middleware -> faultStorage -> metadatapart(sql metadata + faultable sql part store),
// all on ONE SQLite database, exactly how config.go wires it (shared db handle).
func newC22Stack(r *vkit.Run, dir string, disp notification.DispatcherConfig, start bool) (*c22Stack, error) {
	env, err := vkit.OpenEnv(dir)
	if err != nil {
		return nil, err
	}
	s := &c22Stack{r: r, ctx: context.Background(), env: env, outbox: "verif", conf: map[string]*nConfig{}, vers: map[string]string{}}
	env.WrapLeaf = func(kind string, ps partstore.PartStore) partstore.PartStore {
		s.fps = &faultPartStore{PartStore: ps}
		return s.fps
	}
	ms, err := env.NewMetadataStore()
	if err != nil {
		return nil, err
	}
	ps, err := env.BuildPartStore("sql")
	if err != nil {
		return nil, err
	}
	s.real, err = metadatapart.NewStorage(env.DB, ms, ps, vkit.FastGC()...)
	if err != nil {
		return nil, err
	}
	s.fs = &faultStorage{DelegatingStorage: delegator.Wrap(s.real)}
	s.repo = &recRepo{Repository: notification.NewSQLRepository(), seq: &s.seq}
	s.pub = &scriptPublisher{seq: &s.seq}
	s.mw, err = notification.NewStorageMiddleware(s.fs, env.DB, s.repo, s.pub, s.outbox, 30*time.Second, disp, nil)
	if err != nil {
		return nil, err
	}
	if start {
		if err := s.mw.Start(s.ctx); err != nil {
			return nil, err
		}
	} else {
		// no dispatcher: rows stay in the outbox table where the monitor reads them
		if err := s.real.Start(s.ctx); err != nil {
			return nil, err
		}
	}
	return s, nil
}

func (s *c22Stack) close(started bool) {
	if started {
		_ = s.mw.Stop(s.ctx)
	} else {
		_ = s.real.Stop(s.ctx)
	}
	s.env.Close()
}

func (s *c22Stack) bucket(name string, versioning string, c *nConfig, skipValidation bool) error {
	b := storage.MustNewBucketName(name)
	if _, known := s.vers[name]; !known {
		if err := s.mw.CreateBucket(s.ctx, b); err != nil {
			return err
		}
		s.vers[name] = "off"
	}
	if versioning != "off" && s.vers[name] != versioning {
		st := storage.BucketVersioningStatusEnabled
		if versioning == "suspended" {
			st = storage.BucketVersioningStatusSuspended
		}
		if err := s.mw.PutBucketVersioningConfiguration(s.ctx, b, &storage.BucketVersioningConfiguration{Status: &st}); err != nil {
			return err
		}
		s.vers[name] = versioning
	}
	ctx := s.ctx
	if skipValidation {
		ctx = storage.WithSkipNotificationDestinationValidation(ctx)
	}
	var pc *storage.BucketNotificationConfiguration
	if c != nil {
		pc = c.toPithos()
	}
	if err := s.mw.PutBucketNotificationConfiguration(ctx, b, pc); err != nil {
		return err
	}
	s.conf[name] = c
	return nil
}

type outRow struct {
	ID           string
	ARN, Event   string
	Bucket, Key  string
	Attempts     int
	Next         time.Time
	Updated      time.Time
	DeadLettered bool
}

func (s *c22Stack) rows() (map[string]outRow, error) {
	out := map[string]outRow{}
	err := database.WithTx(s.ctx, s.env.DB, &sql.TxOptions{ReadOnly: true}, func(ctx context.Context, tx database.Tx) error {
		rs, err := tx.SqlTx().QueryContext(ctx, "SELECT id, destination_arn, event_name, payload, attempts, next_attempt_at, updated_at, dead_lettered_at FROM notification_outbox_entries WHERE outbox_id = $1", s.outbox)
		if err != nil {
			return err
		}
		defer rs.Close()
		for rs.Next() {
			var r outRow
			var payload []byte
			var dl sql.NullTime
			if err := rs.Scan(&r.ID, &r.ARN, &r.Event, &payload, &r.Attempts, &r.Next, &r.Updated, &dl); err != nil {
				return err
			}
			r.Bucket, r.Key = payloadBucketKey(payload)
			r.DeadLettered = dl.Valid
			out[r.ID] = r
		}
		return rs.Err()
	})
	return out, err
}

// snapshot renders the complete observable object state of the given buckets.
func (s *c22Stack) snapshot(buckets []string) (string, error) {
	var sb strings.Builder
	for _, bn := range buckets {
		b := storage.MustNewBucketName(bn)
		res, err := s.real.ListObjectVersions(s.ctx, b, storage.ListObjectVersionsOptions{MaxKeys: 1000})
		if err != nil {
			return "", err
		}
		fmt.Fprintf(&sb, "[%s]\n", bn)
		for _, v := range res.Versions {
			et := ""
			if v.ETag != nil {
				et = *v.ETag
			}
			fmt.Fprintf(&sb, "%s|%s|m=%v|l=%v|%d|%s|%s|%s", v.Key.String(), v.VersionID, v.IsDeleteMarker, v.IsLatest, v.Size, et, effClass(v.StorageClass), v.LastModified.UTC().Format(time.RFC3339Nano))
			if !v.IsDeleteMarker {
				vid := v.VersionID
				tags, err := s.real.GetObjectTagging(s.ctx, b, v.Key, &storage.ObjectTaggingOptions{VersionID: &vid})
				if err != nil {
					return "", err
				}
				ks := vkit.SortedKeys(tags)
				for _, k := range ks {
					fmt.Fprintf(&sb, "|%s=%s", k, tags[k])
				}
			}
			sb.WriteString("\n")
		}
		ups, err := s.real.ListMultipartUploads(s.ctx, b, storage.ListMultipartUploadsOptions{MaxUploads: 1000})
		if err != nil {
			return "", err
		}
		for _, u := range ups.Uploads {
			lp, err := s.real.ListParts(s.ctx, b, u.Key, u.UploadId, storage.ListPartsOptions{MaxParts: 1000})
			if err != nil {
				return "", err
			}
			fmt.Fprintf(&sb, "upload %s %s parts=%d\n", u.Key.String(), u.UploadId.String(), len(lp.Parts))
		}
	}
	return sb.String(), nil
}

// ---- operations ----

type c22op struct {
	Kind      string            `json:"kind"` // put copy complete delete delete-version multi-delete tag untag transition lc-expire lc-expire-version lc-transition
	Bucket    string            `json:"bucket"`
	Key       string            `json:"key"`
	SrcBucket string            `json:"src_bucket,omitempty"`
	SrcKey    string            `json:"src_key,omitempty"`
	Size      int               `json:"size,omitempty"`
	Tags      map[string]string `json:"tags,omitempty"`
	Keys      []string          `json:"keys,omitempty"`
	Class     string            `json:"class,omitempty"`
	Version   string            `json:"version,omitempty"`
	Seed      uint64            `json:"seed,omitempty"`
	// TargetIsMarker: the version addressed by delete-version is a delete marker
	TargetIsMarker bool `json:"target_is_delete_marker,omitempty"`
	uploadID       *storage.UploadId
}

// label is the operation class used in signatures and counters.
func (o *c22op) label() string {
	if o.Kind == "delete-version" && o.TargetIsMarker {
		return "delete-marker-version"
	}
	if o.Kind == "lc-expire-version" && o.TargetIsMarker {
		return "lc-expire-marker-version"
	}
	return o.Kind
}

func (o *c22op) storageCall() string {
	switch o.Kind {
	case "put":
		return "PutObject"
	case "copy":
		return "CopyObject"
	case "complete":
		return "CompleteMultipartUpload"
	case "delete", "delete-version", "lc-expire", "lc-expire-version":
		return "DeleteObject"
	case "multi-delete":
		return "DeleteObjects"
	case "tag":
		return "PutObjectTagging"
	case "untag":
		return "DeleteObjectTagging"
	default:
		return "TransitionObjectStorageClass"
	}
}

// events the committed operation must announce (S3 event types), derived from
// the operation and the bucket's versioning state - not from pithos' result.
func (s *c22Stack) plannedEvents(o *c22op) []rowKey {
	versioned := s.vers[o.Bucket] != "off"
	ev := func(name, key string) rowKey { return rowKey{Event: name, Bucket: o.Bucket, Key: key} }
	switch o.Kind {
	case "put":
		return []rowKey{ev("s3:ObjectCreated:Put", o.Key)}
	case "copy":
		return []rowKey{ev("s3:ObjectCreated:Copy", o.Key)}
	case "complete":
		return []rowKey{ev("s3:ObjectCreated:CompleteMultipartUpload", o.Key)}
	case "delete":
		if versioned {
			return []rowKey{ev("s3:ObjectRemoved:DeleteMarkerCreated", o.Key)}
		}
		return []rowKey{ev("s3:ObjectRemoved:Delete", o.Key)}
	case "delete-version":
		return []rowKey{ev("s3:ObjectRemoved:Delete", o.Key)}
	case "lc-expire-version":
		// lifecycle removing one version (noncurrent expiration, expired delete marker): a permanent delete
		return []rowKey{ev("s3:LifecycleExpiration:Delete", o.Key)}
	case "multi-delete":
		var out []rowKey
		for _, k := range o.Keys {
			if versioned {
				out = append(out, ev("s3:ObjectRemoved:DeleteMarkerCreated", k))
			} else {
				out = append(out, ev("s3:ObjectRemoved:Delete", k))
			}
		}
		return out
	case "tag":
		return []rowKey{ev("s3:ObjectTagging:Put", o.Key)}
	case "untag":
		return []rowKey{ev("s3:ObjectTagging:Delete", o.Key)}
	case "lc-expire":
		if versioned {
			return []rowKey{ev("s3:LifecycleExpiration:DeleteMarkerCreated", o.Key)}
		}
		return []rowKey{ev("s3:LifecycleExpiration:Delete", o.Key)}
	case "lc-transition":
		return []rowKey{ev("s3:LifecycleTransition", o.Key)}
	}
	return nil // plain "transition": a user-initiated class change is not an S3 event
}

func (s *c22Stack) expectedRows(o *c22op) []rowKey {
	var out []rowKey
	for _, e := range s.plannedEvents(o) {
		out = append(out, s.conf[e.Bucket].expectedRows(e.Bucket, e.Key, e.Event)...)
	}
	return out
}

func (s *c22Stack) exec(o *c22op) error {
	ctx := s.ctx
	b := storage.MustNewBucketName(o.Bucket)
	k := storage.MustNewObjectKey(o.Key)
	switch o.Kind {
	case "put":
		_, err := s.mw.PutObject(ctx, b, k, nil, bytes.NewReader(vkit.NewRand(o.Seed).Bytes(o.Size)), nil, &storage.PutObjectOptions{Tags: copyTags(o.Tags)})
		return err
	case "copy":
		_, err := s.mw.CopyObject(ctx, storage.MustNewBucketName(o.SrcBucket), storage.MustNewObjectKey(o.SrcKey), b, k, nil)
		return err
	case "complete":
		_, err := s.mw.CompleteMultipartUpload(ctx, b, k, *o.uploadID, nil, nil)
		return err
	case "delete":
		_, err := s.mw.DeleteObject(ctx, b, k, nil)
		return err
	case "delete-version":
		v := o.Version
		_, err := s.mw.DeleteObject(ctx, b, k, &storage.DeleteObjectOptions{VersionID: &v})
		return err
	case "lc-expire-version":
		v := o.Version
		_, err := s.mw.DeleteObject(storage.WithNotificationEventOverride(ctx, "s3:LifecycleExpiration:Delete"), b, k, &storage.DeleteObjectOptions{VersionID: &v})
		return err
	case "multi-delete":
		var es []storage.DeleteObjectsInputEntry
		for _, kk := range o.Keys {
			es = append(es, storage.DeleteObjectsInputEntry{Key: storage.MustNewObjectKey(kk)})
		}
		res, err := s.mw.DeleteObjects(ctx, b, es)
		if err == nil && res != nil {
			for _, e := range res.Entries {
				if !e.Deleted {
					return fmt.Errorf("multi-delete entry %s not deleted: %s", e.Key.String(), e.ErrCode)
				}
			}
		}
		return err
	case "tag":
		return s.mw.PutObjectTagging(ctx, b, k, copyTags(o.Tags), nil)
	case "untag":
		return s.mw.DeleteObjectTagging(ctx, b, k, nil)
	case "transition":
		return s.mw.TransitionObjectStorageClass(ctx, b, k, o.Class, nil)
	case "lc-transition":
		return s.mw.TransitionObjectStorageClass(storage.WithNotificationEventOverride(ctx, "s3:LifecycleTransition"), b, k, o.Class, nil)
	case "lc-expire":
		_, err := s.mw.DeleteObject(storage.WithNotificationEventOverride(ctx, "s3:LifecycleExpiration:Delete"), b, k, nil)
		return err
	}
	return fmt.Errorf("unknown op %s", o.Kind)
}

// ---- part A: iff under fault enumeration ----

type c22History struct {
	s        *c22Stack
	idx      int
	rg       *vkit.Rand
	buckets  []string
	live     map[string]map[string]bool // bucket -> key -> current version is an object
	seen     map[string]bool            // outbox row ids already accounted for
	fired    []string
	failed   string
	mutation int
}

func (h *c22History) violation(sig, what string, o *c22op, extra map[string]any) {
	h.fired = append(h.fired, sig)
	w := map[string]any{"part": "A", "history": h.idx, "mutation": h.mutation, "op": o, "bucket_config": h.s.conf[o.Bucket], "bucket_versioning": h.s.vers[o.Bucket]}
	for k, v := range extra {
		w[k] = v
	}
	h.s.r.Violation(sig, what, w)
}

func (h *c22History) liveKeys(b string) []string {
	var ks []string
	for k, ok := range h.live[b] {
		if ok {
			ks = append(ks, k)
		}
	}
	sort.Strings(ks)
	return ks
}

func (h *c22History) genOp() *c22op {
	rg := h.rg
	for tries := 0; tries < 50; tries++ {
		b := h.buckets[[]int{0, 1, 1, 2, 2, 2, 2, 3, 3, 3}[rg.Intn(10)]]
		lk := h.liveKeys(b)
		kind := vkit.Pick(rg, []string{"put", "put", "put", "copy", "complete", "delete", "delete", "delete-version", "delete-version", "lc-expire-version", "multi-delete", "tag", "untag", "transition", "lc-expire", "lc-transition"})
		o := &c22op{Kind: kind, Bucket: b, Key: vkit.Pick(rg, c22Keys), Seed: rg.Uint64()}
		switch kind {
		case "put":
			o.Size = vkit.Pick(rg, []int{0, 1, 300, 5000})
			if rg.Chance(30) {
				o.Tags = map[string]string{"t": fmt.Sprint(rg.Intn(3))}
			}
			return o
		case "complete":
			o.Size = vkit.Pick(rg, []int{1, 700})
			return o
		case "copy":
			sb := vkit.Pick(rg, h.buckets)
			sk := h.liveKeys(sb)
			if len(sk) == 0 {
				continue
			}
			o.SrcBucket, o.SrcKey = sb, vkit.Pick(rg, sk)
			if o.SrcBucket == o.Bucket && o.SrcKey == o.Key {
				continue
			}
			return o
		case "delete", "tag", "untag", "transition", "lc-expire", "lc-transition":
			if len(lk) == 0 {
				continue
			}
			o.Key = vkit.Pick(rg, lk)
			if kind == "tag" {
				o.Tags = map[string]string{"t": fmt.Sprint(rg.Intn(5)), "u": "x"}
			}
			if kind == "transition" || kind == "lc-transition" {
				o.Class = vkit.Pick(rg, []string{"STANDARD_IA", "GLACIER", "ONEZONE_IA"})
			}
			return o
		case "delete-version", "lc-expire-version":
			if h.s.vers[b] == "off" {
				continue
			}
			// any stored version of any key of the bucket, delete markers preferred half of the time
			res, err := h.s.real.ListObjectVersions(h.s.ctx, storage.MustNewBucketName(b), storage.ListObjectVersionsOptions{MaxKeys: 1000})
			if err != nil || len(res.Versions) == 0 {
				continue
			}
			cands := res.Versions
			if rg.Bool() {
				var ms []storage.ObjectVersion
				for _, v := range res.Versions {
					if v.IsDeleteMarker {
						ms = append(ms, v)
					}
				}
				if len(ms) > 0 {
					cands = ms
				}
			}
			v := cands[rg.Intn(len(cands))]
			o.Key, o.Version, o.TargetIsMarker = v.Key.String(), v.VersionID, v.IsDeleteMarker
			return o
		case "multi-delete":
			if len(lk) < 2 {
				continue
			}
			vkit.Shuffle(rg, lk)
			o.Keys = lk[:rg.Range(2, min(3, len(lk)))]
			o.Key = o.Keys[0]
			return o
		}
	}
	return &c22op{Kind: "put", Bucket: h.buckets[0], Key: c22Keys[0], Size: 10, Seed: h.rg.Uint64()}
}

// refreshLive re-reads which keys currently resolve to an object.
func (h *c22History) refreshLive() {
	for _, bn := range h.buckets {
		h.live[bn] = map[string]bool{}
		res, err := h.s.real.ListObjects(h.s.ctx, storage.MustNewBucketName(bn), storage.ListObjectsOptions{MaxKeys: 1000})
		if err != nil {
			continue
		}
		for _, o := range res.Objects {
			h.live[bn][o.Key.String()] = true
		}
	}
}

type c22variant struct {
	Name  string `json:"name"`  // storage-before storage-after partstore-before partstore-after save-before save-after clean
	N     int    `json:"n,omitempty"`
	Class string `json:"class"` // signature fragment
}

func diffRows(want []rowKey, got []outRow) (missing, extra []string) {
	cnt := map[rowKey]int{}
	for _, w := range want {
		cnt[w]++
	}
	for _, g := range got {
		k := rowKey{g.ARN, g.Event, g.Bucket, g.Key}
		if cnt[k] > 0 {
			cnt[k]--
		} else {
			extra = append(extra, k.String())
		}
	}
	for k, n := range cnt {
		for i := 0; i < n; i++ {
			missing = append(missing, k.String())
		}
	}
	sort.Strings(missing)
	sort.Strings(extra)
	return
}

func (h *c22History) newRows() ([]outRow, error) {
	all, err := h.s.rows()
	if err != nil {
		return nil, err
	}
	var out []outRow
	for id, r := range all {
		if !h.seen[id] {
			out = append(out, r)
		}
	}
	sort.Slice(out, func(i, j int) bool { return out[i].ID < out[j].ID })
	return out, nil
}

func (h *c22History) accept(rows []outRow) {
	for _, r := range rows {
		h.seen[r.ID] = true
	}
}

// runMutation enumerates every failure point of one generated mutation and
// finally runs it without faults.
func (h *c22History) runMutation(o *c22op) {
	s := h.s
	r := s.r
	if o.Kind == "complete" {
		b, k := storage.MustNewBucketName(o.Bucket), storage.MustNewObjectKey(o.Key)
		up, err := s.mw.CreateMultipartUpload(s.ctx, b, k, nil, nil, nil)
		if err != nil {
			h.failed = "create-upload:" + err.Error()
			return
		}
		if _, err := s.mw.UploadPart(s.ctx, b, k, up.UploadId, 1, bytes.NewReader(vkit.NewRand(o.Seed).Bytes(o.Size)), nil); err != nil {
			h.failed = "upload-part:" + err.Error()
			return
		}
		o.uploadID = &up.UploadId
		if rows, _ := h.newRows(); len(rows) > 0 {
			h.violation("row-without-event:multipart-preparation", "CreateMultipartUpload/UploadPart produced outbox rows", o, map[string]any{"rows": rows})
			h.accept(rows)
		}
	}
	want := s.expectedRows(o)
	variants := []c22variant{{Name: "storage-before", Class: "mutation-fails-before-inner-call"}, {Name: "storage-after", Class: "mutation-fails-after-inner-call"}}
	for n := 1; n <= len(want); n++ {
		pos := "first"
		if n > 1 && n == len(want) {
			pos = "last"
		} else if n > 1 {
			pos = "middle"
		}
		variants = append(variants, c22variant{Name: "save-before", N: n, Class: "outbox-insert-fails:" + pos}, c22variant{Name: "save-after", N: n, Class: "outbox-insert-fails-after-write:" + pos})
	}
	if o.Kind == "put" && o.Size > 0 {
		variants = append(variants, c22variant{Name: "partstore-before", Class: "part-store-put-fails"}, c22variant{Name: "partstore-after", Class: "part-store-put-fails-after-write"})
	}
	variants = append(variants, c22variant{Name: "clean"})
	if h.idx == 0 && h.mutation < 3 {
		r.Sample(map[string]any{"history": h.idx, "mutation": h.mutation, "op": o, "bucket_config": s.conf[o.Bucket], "versioning": s.vers[o.Bucket], "expected_rows": want, "fault_points": variants})
	}

	before, err := s.snapshot(h.buckets)
	if err != nil {
		h.failed = "snapshot:" + err.Error()
		return
	}
	for _, v := range variants {
		s.fs.set("", "")
		s.fps.set("")
		s.repo.armSave(0, "")
		switch v.Name {
		case "storage-before":
			s.fs.set(o.storageCall(), "before")
		case "storage-after":
			s.fs.set(o.storageCall(), "after")
		case "partstore-before":
			s.fps.set("before")
		case "partstore-after":
			s.fps.set("after")
		case "save-before":
			s.repo.armSave(v.N, "before")
		case "save-after":
			s.repo.armSave(v.N, "after")
		}
		err := s.exec(o)
		fired := s.fs.didFire() || s.fps.didFire() || s.repo.didFire()
		saves := s.repo.saveCalls()
		s.fs.set("", "")
		s.fps.set("")
		s.repo.armSave(0, "")
		after, serr := s.snapshot(h.buckets)
		rows, rerr := h.newRows()
		if serr != nil || rerr != nil {
			h.failed = fmt.Sprintf("observe: %v %v", serr, rerr)
			return
		}
		r.Eval(fmt.Sprintf("%s|%s|v=%s|rows=%d|%s#%d", o.label(), s.vers[o.Bucket], v.Name, len(want), v.Class, v.N))
		if v.Name != "clean" {
			if !fired {
				r.Count("faults.armed-but-not-reached."+v.Name, 1)
				if err == nil {
					// the fault point does not exist on this path (e.g. empty object
					// writes no part): the mutation simply committed
					h.checkCommitted(o, want, rows, before, after, v)
					return
				}
			}
			r.Count("faults.injected."+v.Name, 1)
			r.Count("faults.injected.by-op."+o.label(), 1)
			if err == nil {
				h.violation("fault-swallowed:"+v.Class+":"+o.label(), fmt.Sprintf("%s returned success although %s was injected", o.Kind, v.Name), o, map[string]any{"variant": v, "new_rows": rows})
				h.checkCommitted(o, want, rows, before, after, v)
				return
			}
			if !errors.Is(err, errInjected) {
				r.Count("faults.error-not-the-injected-one", 1)
			}
			if after != before {
				h.violation("rollback-incomplete:"+v.Class+":"+o.label(), fmt.Sprintf("%s failed (%v) but the object state changed", o.Kind, err), o, map[string]any{"variant": v, "state_before": before, "state_after": after})
				before = after
			}
			if len(rows) > 0 {
				h.violation("row-without-commit:"+v.Class+":"+o.label(), fmt.Sprintf("%s failed (%v) but %d outbox row(s) were committed", o.Kind, err, len(rows)), o, map[string]any{"variant": v, "new_rows": rows})
				h.accept(rows)
			}
			r.Count("faults.rolled-back-clean."+v.Name, 1)
			_ = saves
			continue
		}
		if err != nil {
			h.failed = fmt.Sprintf("clean %s failed: %v", o.Kind, err)
			r.Count("mutations.clean-failed."+o.Kind, 1)
			return
		}
		h.checkCommitted(o, want, rows, before, after, v)
	}
}

func (h *c22History) checkCommitted(o *c22op, want []rowKey, rows []outRow, before, after string, v c22variant) {
	r := h.s.r
	r.Count("mutations.committed."+o.label(), 1)
	if after == before {
		r.Count("observations.committed-without-visible-state-change."+o.Kind, 1)
	}
	missing, extra := diffRows(want, rows)
	for _, m := range missing {
		ev := strings.Fields(m)[1]
		h.violation("row-missing:"+o.label()+":"+ev, "committed mutation without its outbox row: "+m, o, map[string]any{"variant": v, "expected_rows": want, "new_rows": rows})
	}
	for _, e := range extra {
		ev := strings.Fields(e)[1]
		h.violation("row-unexpected:"+o.label()+":"+ev, "outbox row that no matching rule / committed event explains: "+e, o, map[string]any{"variant": v, "expected_rows": want, "new_rows": rows})
	}
	for _, row := range rows {
		r.Count("rows.by-event."+row.Event, 1)
		switch {
		case strings.HasPrefix(row.ARN, "eventbridge:"):
			r.Count("rows.by-destination.eventbridge", 1)
		case strings.Contains(row.ARN, ":sns:"):
			r.Count("rows.by-destination.topic", 1)
		case strings.Contains(row.ARN, ":sqs:"):
			r.Count("rows.by-destination.queue", 1)
		default:
			r.Count("rows.by-destination.function", 1)
		}
	}
	if len(want) == 0 {
		r.Count("mutations.committed-with-no-matching-rule", 1)
	}
	if len(want) > 1 {
		r.Count("mutations.committed-with-overlapping-rules", 1)
	}
	h.accept(rows)
	h.refreshLive()
}

func runC22History(r *vkit.Run, root *vkit.Rand, idx, nMut int) *c22History {
	rg := root.Fork(fmt.Sprintf("c22-history-%d", idx))
	s, err := newC22Stack(r, r.SubDir(fmt.Sprintf("a%d", idx)), notification.DispatcherConfig{}, false)
	h := &c22History{idx: idx, rg: rg, live: map[string]map[string]bool{}, seen: map[string]bool{}}
	if err != nil {
		h.failed = "stack:" + err.Error()
		return h
	}
	h.s = s
	defer s.close(false)
	pre := fmt.Sprintf("c22h%d-", idx)
	h.buckets = []string{pre + "plain", pre + "all", pre + "flt", pre + "gen"}
	setup := func() error {
		if err := s.bucket(h.buckets[0], "off", nil, true); err != nil {
			return err
		}
		// one configuration goes through destination validation + test events
		if err := s.bucket(h.buckets[1], "off", allEventsConfig("all"), false); err != nil {
			return err
		}
		if err := s.bucket(h.buckets[2], "enabled", genNConfig(rg, "flt"), true); err != nil {
			return err
		}
		return s.bucket(h.buckets[3], vkit.Pick(rg, []string{"off", "enabled", "suspended"}), genNConfig(rg, "gen"), true)
	}
	if err := setup(); err != nil {
		h.failed = "setup:" + err.Error()
		return h
	}
	if rows, _ := h.newRows(); len(rows) > 0 || s.pub.testEvents == 0 {
		if len(rows) > 0 {
			h.violation("row-without-event:configuration", "bucket configuration calls produced outbox rows (test events must never be persisted)", &c22op{Kind: "config"}, map[string]any{"rows": rows})
			h.accept(rows)
		}
	}
	r.Count("test-events-published-synchronously", int64(s.pub.testEvents))
	h.refreshLive()
	for i := 0; i < nMut; i++ {
		h.mutation = i
		if i > 0 && i%8 == 0 {
			// new rule sets mid-history
			if err := s.bucket(h.buckets[2], "enabled", genNConfig(rg, fmt.Sprintf("flt%d", i)), true); err != nil {
				h.failed = "reconfigure:" + err.Error()
				return h
			}
			if err := s.bucket(h.buckets[3], s.vers[h.buckets[3]], genNConfig(rg, fmt.Sprintf("gen%d", i)), true); err != nil {
				h.failed = "reconfigure:" + err.Error()
				return h
			}
		}
		o := h.genOp()
		h.runMutation(o)
		if h.failed != "" {
			return h
		}
	}
	return h
}

// ---- part B: delivery, retry, backoff, dead-lettering ----

type c22Delivery struct {
	Index       int   `json:"index"`
	MaxAttempts int   `json:"max_attempts"`
	MinMs       int   `json:"min_backoff_ms"`
	MaxMs       int   `json:"max_backoff_ms"`
	Concurrency int   `json:"concurrency"`
	Batch       int   `json:"batch"`
	Fails       []int `json:"fail_scripts"` // per mutation: publish attempts that fail first (1<<30 = always)
}

func genDelivery(root *vkit.Rand, idx int) c22Delivery {
	rg := root.Fork(fmt.Sprintf("c22-delivery-%d", idx))
	d := c22Delivery{Index: idx, MaxAttempts: []int{1, 3, 3, 2, 4}[idx%5], MinMs: rg.Range(5, 40), Concurrency: []int{1, 4}[idx%2], Batch: []int{1, 8}[(idx/2)%2]}
	d.MaxMs = d.MinMs * vkit.Pick(rg, []int{1, 3, 3, 100}) / vkit.Pick(rg, []int{1, 2})
	if d.MaxMs < d.MinMs {
		d.MaxMs = d.MinMs + d.MinMs/2 // cap between the 1st and 2nd backoff step
	}
	n := rg.Range(5, 9)
	for i := 0; i < n; i++ {
		switch c := rg.Intn(10); {
		case c < 3:
			d.Fails = append(d.Fails, 0)
		case c < 7:
			d.Fails = append(d.Fails, rg.Range(1, d.MaxAttempts)) // k == MaxAttempts -> dead-lettered on the last attempt
		default:
			d.Fails = append(d.Fails, 1<<30)
		}
	}
	return d
}

func runC22Delivery(r *vkit.Run, d c22Delivery, watchdog time.Duration) (fired []string, inconclusive string) {
	minB, maxB := time.Duration(d.MinMs)*time.Millisecond, time.Duration(d.MaxMs)*time.Millisecond
	s, err := newC22Stack(r, r.SubDir(fmt.Sprintf("b%d", d.Index)), notification.DispatcherConfig{MaxAttempts: d.MaxAttempts, MinBackoff: minB, MaxBackoff: maxB, Concurrency: d.Concurrency, BatchSize: d.Batch}, true)
	if err != nil {
		return nil, "stack:" + err.Error()
	}
	defer s.close(true)
	viol := func(sig, what string, extra map[string]any) {
		fired = append(fired, sig)
		w := map[string]any{"part": "B", "scenario": d}
		for k, v := range extra {
			w[k] = v
		}
		r.Violation(sig, what, w)
	}
	bn := fmt.Sprintf("c22d%d", d.Index)
	cfg := &nConfig{Rules: []nRule{
		{Kind: "queue", ARN: "arn:aws:sqs:eu-central-1:000000000000:q", Events: []string{"s3:ObjectCreated:*"}},
		{Kind: "topic", ARN: "arn:aws:sns:eu-central-1:000000000000:t", Events: []string{"s3:ObjectCreated:Put"}, Prefix: sptr("two/")},
	}}
	if err := s.bucket(bn, "off", cfg, true); err != nil {
		return nil, "setup:" + err.Error()
	}
	b := storage.MustNewBucketName(bn)
	expected := 0
	for i, f := range d.Fails {
		key := fmt.Sprintf("one/o%d-fail%d", i, f)
		if f >= 1<<30 {
			key = fmt.Sprintf("one/o%d-failall", i)
		}
		if i%3 == 2 {
			key = "two/" + key[4:] // matched by both rules: two rows, same script
		}
		if _, err := s.mw.PutObject(s.ctx, b, storage.MustNewObjectKey(key), nil, bytes.NewReader([]byte("x")), nil, nil); err != nil {
			return nil, "put:" + err.Error()
		}
		expected += len(cfg.expectedRows(bn, key, "s3:ObjectCreated:Put"))
	}
	// drain: every saved entry is either published successfully or dead-lettered.
	// A pump mutation (always delivered) wakes the dispatcher between its 1 s ticks.
	deadline := time.Now().Add(watchdog)
	pump := 0
	status := func() (saved map[string]repoEvent, done int, pendingReal int) {
		saved = map[string]repoEvent{}
		ok := map[string]bool{}
		for _, e := range s.repo.events() {
			switch e.Call {
			case "save":
				if e.OK {
					saved[e.ID] = e
				}
			case "deadletter":
				if e.OK {
					ok[e.ID] = true
				}
			}
		}
		for _, p := range s.pub.events() {
			if !p.Failed {
				ok[p.ID] = true
			}
		}
		for id, e := range saved {
			if ok[id] {
				done++
			} else if !strings.HasPrefix(e.Key, "pump/") {
				pendingReal++
			}
		}
		return
	}
	for {
		saved, done, pendingReal := status()
		if done == len(saved) && len(saved) >= expected {
			break
		}
		if time.Now().After(deadline) {
			return fired, fmt.Sprintf("delivery scenario %d did not drain within %s (%d/%d entries settled)", d.Index, watchdog, done, len(saved))
		}
		if pendingReal > 0 {
			pump++
			if _, err := s.mw.PutObject(s.ctx, b, storage.MustNewObjectKey(fmt.Sprintf("pump/p%d", pump)), nil, bytes.NewReader(nil), nil, nil); err != nil {
				return fired, "pump:" + err.Error()
			}
		}
		time.Sleep(4 * time.Millisecond)
	}
	r.Count("delivery.pump-mutations", int64(pump))
	// settle: longer than the dispatcher's idle tick, so a wrongly re-claimed
	// (dead-lettered or delivered) entry would be published again
	time.Sleep(1300 * time.Millisecond)

	repoLog, pubLog := s.repo.events(), s.pub.events()
	type life struct {
		save     *repoEvent
		pubs     []pubEvent
		releases []repoEvent
		dead     *repoEvent
		deleted  bool
	}
	lives := map[string]*life{}
	get := func(id string) *life {
		if lives[id] == nil {
			lives[id] = &life{}
		}
		return lives[id]
	}
	for i := range repoLog {
		e := repoLog[i]
		l := get(e.ID)
		switch e.Call {
		case "save":
			if e.OK {
				l.save = &repoLog[i]
			}
		case "release":
			if e.OK {
				l.releases = append(l.releases, e)
			}
		case "deadletter":
			if e.OK {
				l.dead = &repoLog[i]
			}
		case "delete":
			if e.OK {
				l.deleted = true
			}
		}
	}
	for _, p := range pubLog {
		get(p.ID).pubs = append(get(p.ID).pubs, p)
	}
	final, err := s.rows()
	if err != nil {
		return fired, "rows:" + err.Error()
	}
	backoff := func(k int) time.Duration { // after the k-th failed attempt
		dly := minB
		for i := 1; i < k; i++ {
			dly *= 2
			if dly > maxB {
				break
			}
		}
		if dly > maxB {
			dly = maxB
		}
		return dly
	}
	nReal := 0
	for id, l := range lives {
		if l.save == nil {
			viol("delivery:publish-of-unknown-entry", "an entry was claimed/published that no committed mutation saved", map[string]any{"id": id, "publishes": l.pubs})
			continue
		}
		isPump := strings.HasPrefix(l.save.Key, "pump/")
		if !isPump {
			nReal++
		}
		script := failCountFromKey(l.save.Key)
		w := map[string]any{"id": id, "key": l.save.Key, "arn": l.save.ARN, "publishes": l.pubs, "releases": l.releases, "dead_letter": l.dead}
		nFail, nOK := 0, 0
		for j, p := range l.pubs {
			if p.Failed {
				nFail++
			} else {
				nOK++
			}
			if p.Attempts != j+1 {
				viol("delivery:attempt-counter-wrong", fmt.Sprintf("publish #%d of an entry carried attempts=%d", j+1, p.Attempts), w)
			}
			if l.dead != nil && p.Seq > l.dead.Seq {
				viol("delivery:published-after-dead-letter", "an entry was published again after it had been dead-lettered", w)
			}
			if j > 0 && !l.pubs[j-1].Failed {
				viol("delivery:published-after-success", "an entry was published again after a successful delivery", w)
			}
		}
		r.Count("delivery.publish-attempts", int64(len(l.pubs)))
		r.Count("delivery.publish-failures", int64(nFail))
		// retry timing and stored backoff, from timestamps pithos wrote
		for j := 0; j < len(l.releases) && j < len(l.pubs); j++ {
			rel, p := l.releases[j], l.pubs[j]
			want := backoff(j + 1)
			lo, hi := p.ClaimedAt.Add(want), rel.Now.Add(want)
			if rel.Next.Before(lo) || rel.Next.After(hi) {
				viol(fmt.Sprintf("delivery:backoff-out-of-bounds:after-failure-%d-of-%d", j+1, d.MaxAttempts), fmt.Sprintf("stored next_attempt_at %s not within [claim+%s, release+%s] = [%s, %s]", rel.Next.Format(time.RFC3339Nano), want, want, lo.Format(time.RFC3339Nano), hi.Format(time.RFC3339Nano)), w)
			} else {
				r.Count(fmt.Sprintf("delivery.backoff-checked.step-%d", j+1), 1)
				if want == maxB && minB != maxB {
					r.Count("delivery.backoff-checked.capped-by-max", 1)
				}
			}
			if j+1 < len(l.pubs) {
				nxt := l.pubs[j+1]
				if nxt.ClaimedAt.Before(rel.Next) {
					viol("delivery:retried-before-next-attempt-time", fmt.Sprintf("attempt %d was claimed at %s, before the stored next_attempt_at %s", j+2, nxt.ClaimedAt.Format(time.RFC3339Nano), rel.Next.Format(time.RFC3339Nano)), w)
				} else {
					r.Count("delivery.retry-not-before-next-attempt-checked", 1)
				}
				if !nxt.StoredNext.Equal(rel.Next) {
					viol("delivery:stored-next-attempt-differs", "the next_attempt_at read back by the following claim differs from the released value", w)
				}
			}
		}
		row, inTable := final[id]
		switch {
		case nOK > 0:
			r.Count("delivery.delivered", 1)
			if nFail > 0 {
				r.Count("delivery.delivered-after-retries", 1)
			}
			if inTable {
				viol("delivery:delivered-entry-still-in-outbox", "a successfully published entry is still in the outbox table", w)
			}
			if l.dead != nil {
				viol("delivery:delivered-and-dead-lettered", "an entry was both delivered and dead-lettered", w)
			}
			if script < d.MaxAttempts && nFail != script {
				viol("delivery:retry-count-wrong", fmt.Sprintf("script fails %d times, observed %d failures before success", script, nFail), w)
			}
		case l.dead != nil:
			r.Count("delivery.dead-lettered", 1)
			if nFail != d.MaxAttempts {
				viol(fmt.Sprintf("delivery:dead-lettered-after-%d-not-%d-attempts", nFail, d.MaxAttempts), fmt.Sprintf("dead-lettered after %d failed attempts, MaxAttempts=%d", nFail, d.MaxAttempts), w)
			}
			if !inTable || !row.DeadLettered || row.Attempts != d.MaxAttempts {
				viol("delivery:dead-letter-row-wrong", fmt.Sprintf("dead-lettered row: present=%v dead_lettered_at set=%v attempts=%d (MaxAttempts %d)", inTable, row.DeadLettered, row.Attempts, d.MaxAttempts), w)
			}
			if script < d.MaxAttempts {
				viol("delivery:dead-lettered-too-early", fmt.Sprintf("script fails only %d times but the entry was dead-lettered (MaxAttempts %d)", script, d.MaxAttempts), w)
			}
		default:
			viol("delivery:entry-neither-delivered-nor-dead-lettered", "after drain an entry is neither delivered nor dead-lettered", w)
		}
	}
	for id, row := range final {
		if l := lives[id]; l == nil || l.dead == nil {
			viol("delivery:leftover-row", "outbox row left that is not a dead-lettered entry", map[string]any{"row": row})
		}
	}
	if nReal != expected {
		viol("row-count:delivery-scenario", fmt.Sprintf("%d entries saved for the scripted mutations, reference expects %d", nReal, expected), nil)
	}
	r.Eval(fmt.Sprintf("delivery|max=%d|conc=%d|batch=%d|cap=%v|scripts=%v", d.MaxAttempts, d.Concurrency, d.Batch, d.MaxMs < d.MinMs*4, d.Fails))
	return fired, ""
}

func runC22(tier, replay string) {
	r := vkit.Begin("C22", "fault_enumeration", tier)
	r.SetRule("part A: generated histories of object mutations (put, copy, complete-multipart, delete, delete-version, multi-delete, put/delete tagging, user transition, lifecycle expiration / transition via the event-override context) over 4 buckets (no rules / all events / generated 1-4 rules with family wildcards, exact types, prefix+suffix filters, overlapping rules, topic+queue+function destinations, EventBridge flag; unversioned / enabled / suspended; rule sets replaced mid-history); for EVERY mutation every failure point is enumerated: inner storage call fails before / after doing its work, part-store PutPart fails before / after writing, the n-th outbox insert fails before / after writing for n = 1..rows, then the fault-free run. part B: delivery scenarios (MaxAttempts 1-4, MinBackoff 5-40 ms, caps, concurrency 1/4, batch 1/8) with a scripted publisher (fail k times then succeed, k up to MaxAttempts, or always). distinct = distinct (operation, versioning, fault point, rows expected) tuples + delivery configurations")
	r.Assume(fmt.Sprintf("process time zone = %s (set by ./check for this engine: UTC would hide local-time / UTC mix-ups in stored timestamps)", time.Now().Location()))
	r.Assume("reference = own re-implementation of S3 event-type selection (exact type or family wildcard) and prefix/suffix key filters; expected event types derive from the operation and the bucket's versioning state, never from pithos' return values")
	r.Assume("object state = ListObjectVersions (ids, flags, size, ETag, class, LastModified) + tags per version + pending uploads and their parts of all buckets, read from the real storage below the middleware; outbox rows are read directly from notification_outbox_entries")
	r.Assume("delivery oracle compares only timestamps pithos itself wrote (claim now = updated_at, released next_attempt_at, release now); the wall clock is used for the drain watchdog only (expiry = inconclusive); a pump mutation wakes the dispatcher between its 1 s idle ticks")
	root := r.Rand()
	nHist, nMut := r.N(8, 100), r.N(30, 60)
	nDel := r.N(16, 200)
	watchdog := 60 * time.Second

	if replay != "" {
		b, err := os.ReadFile(replay)
		if err != nil {
			fmt.Println("cannot read replay:", err)
			os.Exit(3)
		}
		var w struct {
			Seed      uint64 `json:"seed"`
			Tier      string `json:"tier"`
			Signature string `json:"signature"`
			Witness   struct {
				Part     string      `json:"part"`
				History  int         `json:"history"`
				Scenario c22Delivery `json:"scenario"`
			} `json:"witness"`
		}
		if err := json.Unmarshal(b, &w); err != nil {
			fmt.Println("cannot parse replay:", err)
			os.Exit(3)
		}
		rr := vkit.NewRand(w.Seed)
		var fired []string
		if w.Signature == "delivery:backoff-out-of-bounds:long-failing-entry" || w.Signature == "delivery:retried-before-next-attempt-time:long-failing-entry" {
			for i, lc := range []struct {
				maxAttempts int
				minB, maxB  time.Duration
			}{{0, time.Second, 300 * time.Second}, {0, 60 * time.Second, 1000 * time.Hour}, {2000, 250 * time.Millisecond, 30 * time.Second}} {
				f, _ := runC22LongFailing(r, i, lc.maxAttempts, lc.minB, lc.maxB, watchdog)
				fired = append(fired, f...)
			}
		} else if w.Witness.Part == "B" {
			var inc string
			fired, inc = runC22Delivery(r, w.Witness.Scenario, watchdog)
			if inc != "" {
				r.Inconclusive(inc)
			}
		} else {
			nm := nMut
			if w.Tier == "thorough" {
				nm = 60
			}
			h := runC22History(r, rr, w.Witness.History, nm)
			fired = h.fired
			if h.failed != "" {
				fmt.Println("replay: history aborted:", h.failed)
			}
		}
		ok := false
		for _, s := range fired {
			if s == w.Signature {
				ok = true
			}
		}
		finishReplay(r, ok)
	}

	var wg sync.WaitGroup
	var mu sync.Mutex
	var problems []string
	sem := make(chan struct{}, r.N(4, 8))
	for i := 0; i < nHist; i++ {
		wg.Add(1)
		sem <- struct{}{}
		go func(i int) {
			defer wg.Done()
			defer func() { <-sem }()
			h := runC22History(r, root, i, nMut)
			if h.failed != "" {
				mu.Lock()
				problems = append(problems, fmt.Sprintf("history %d: %s", i, h.failed))
				mu.Unlock()
			}
		}(i)
	}
	wg.Wait()
	for i := 0; i < nDel; i++ {
		wg.Add(1)
		sem <- struct{}{}
		go func(i int) {
			defer wg.Done()
			defer func() { <-sem }()
			d := genDelivery(root, i)
			if i < 2 {
				r.Sample(map[string]any{"delivery_scenario": d})
			}
			_, inc := runC22Delivery(r, d, watchdog)
			if inc != "" {
				mu.Lock()
				problems = append(problems, inc)
				mu.Unlock()
			}
		}(i)
	}
	wg.Wait()
	// long-failing entries: default limits (1 s .. 300 s, unlimited attempts), a wide range and a large finite limit
	for i, lc := range []struct {
		maxAttempts int
		minB, maxB  time.Duration
	}{{0, time.Second, 300 * time.Second}, {0, 60 * time.Second, 1000 * time.Hour}, {2000, 250 * time.Millisecond, 30 * time.Second}} {
		_, inc := runC22LongFailing(r, i, lc.maxAttempts, lc.minB, lc.maxB, watchdog)
		if inc != "" {
			problems = append(problems, inc)
		}
	}
	sort.Strings(problems)
	for _, p := range problems {
		r.Inconclusive(p)
	}
	for _, must := range []string{"delivery.backoff-checked.long-failing", "faults.injected.storage-before", "faults.injected.storage-after", "faults.injected.partstore-before", "faults.injected.save-before", "faults.injected.save-after", "delivery.dead-lettered", "delivery.delivered-after-retries", "delivery.backoff-checked.step-1", "delivery.retry-not-before-next-attempt-checked", "mutations.committed-with-overlapping-rules", "mutations.committed-with-no-matching-rule"} {
		if r.Counter(must) == 0 {
			r.Inconclusive("never observed: " + must)
		}
	}
	r.Finish()
}
