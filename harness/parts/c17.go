package main

import (
	"io"
	"bytes"
	"context"
	"encoding/json"
	"fmt"
	"os"
	"sort"
	"strings"
	"time"

	"github.com/jdillenkofer/pithos/internal/storage/database"
	"github.com/jdillenkofer/pithos/internal/storage/metadatapart/partstore"
	"github.com/jdillenkofer/pithos/internal/verif/vkit"
)

// C17: erasure coding tolerates parity-many shard faults and never lies.
// Shard files are produced by real PutPart calls and then mutated in the raw
// filesystem directories of the shard stores.

type c17Spec struct {
	D    int `json:"data"`
	P    int `json:"parity"`
	Size int `json:"size"`
}

type c17Fault struct {
	Shard int    `json:"shard"`
	Kind  string `json:"kind"`
}

type c17Case struct {
	D      int        `json:"data"`
	P      int        `json:"parity"`
	Size   int        `json:"size"`
	Idx    int        `json:"idx"`
	Faults []c17Fault `json:"faults"`
	Tx     string     `json:"read_mode"`
	NF     int        `json:"faulty_shards"`
	Group  string     `json:"group"`
	// EarlyClose: before the read that is judged, a consumer reads 10 bytes of the faulty part and
	// closes the stream (ranged GET, aborted download) - a healing read that is abandoned half-way
	EarlyClose bool `json:"early_close_first,omitempty"`
}

const ecStripe = 1024

var c17Configs = [][2]int{{1, 1}, {2, 1}, {2, 2}, {3, 2}}

func c17Sizes(d int, tier string) []int {
	ds := d * ecStripe
	s := []int{0, 1, ds - 1, ds, ds + 1, 2*ds + 7}
	if tier == "thorough" {
		s = append(s, 2*ds, 3*ds-1, 5*ds+1, 20*ds+3, 200*1024)
	}
	return s
}

// faultKinds lists the fault variants applicable to a shard with nFrames frames.
func c17FaultKinds(nFrames int, big bool) []string {
	k := []string{"missing", "trunc:zero-bytes", "trunc:mid-shard-header",
		"flip:shard-magic", "flip:shard-version", "flip:shard-data", "flip:shard-total", "flip:shard-index", "flip:shard-stripe",
		"foreign", "stale-same-size", "stale-other-size"}
	fr := map[int]bool{}
	if nFrames > 0 {
		fr[0], fr[nFrames-1], fr[nFrames/2] = true, true, true
	}
	var fl []int
	for f := range fr {
		fl = append(fl, f)
	}
	sort.Ints(fl)
	for _, f := range fl {
		for _, v := range []string{"trunc:frame-boundary", "trunc:mid-frame-header", "trunc:mid-payload",
			"flip:frame-stripeindex:lo", "flip:frame-stripeindex:hi", "flip:frame-databytes:lo", "flip:frame-databytes:hi",
			"flip:frame-payloadlen:lo", "flip:frame-payloadlen:hi", "flip:frame-hash:first", "flip:frame-hash:last",
			"flip:payload:first", "flip:payload:mid", "flip:payload:last"} {
			k = append(k, fmt.Sprintf("%s@%d", v, f))
		}
		if big {
			k = append(k, fmt.Sprintf("flip:frame-payloadlen:16m@%d", f))
		}
	}
	if nFrames > 0 {
		k = append(k, "trunc:last-byte")
	}
	if nFrames >= 2 { // intact, hash-valid frames in the wrong place (only the stripe index tells)
		k = append(k, "reorder:swap-first-two-frames", "reorder:drop-first-frame", "reorder:duplicate-first-frame")
	}
	return k
}

// kindClass strips the frame number and byte position: "flip:frame-databytes".
func kindClass(kind string) string {
	if i := strings.Index(kind, "@"); i >= 0 {
		kind = kind[:i]
	}
	p := strings.Split(kind, ":")
	if len(p) > 2 {
		p = p[:2]
	}
	return strings.Join(p, ":")
}

type c17ctx struct {
	rec    recorder
	spec   *childSpec
	d, p   int
	size   int
	db     database.Database
	ps     partstore.PartStore
	dirs   []string
	idA    partstore.PartId
	cur    []byte
	orig   [][]byte // shard files of the current content
	staleS [][]byte // shard files of a previous PutPart of the same id, same size
	staleO [][]byte // ... of a different size
	forgn  [][]byte // shard files of another part of equal size
	shard  []ecShard
	dirty  []bool
}

// applyFault returns the bytes to store for the shard (present=false: remove the file; ok=false: variant is a no-op here).
func (c *c17ctx) applyFault(i int, kind string) (out []byte, present bool, ok bool) {
	o := c.orig[i]
	sh := c.shard[i]
	name, frame := kind, 0
	if j := strings.Index(kind, "@"); j >= 0 {
		name = kind[:j]
		fmt.Sscanf(kind[j+1:], "%d", &frame)
	}
	cut := func(n int) ([]byte, bool, bool) {
		if n < 0 || n >= len(o) {
			return nil, true, false
		}
		return append([]byte{}, o[:n]...), true, true
	}
	xor := func(off int, mask byte) ([]byte, bool, bool) {
		if off < 0 || off >= len(o) {
			return nil, true, false
		}
		b := append([]byte{}, o...)
		b[off] ^= mask
		return b, true, true
	}
	repl := func(b []byte) ([]byte, bool, bool) {
		if b == nil || bytes.Equal(b, o) {
			return nil, true, false
		}
		return append([]byte{}, b...), true, true
	}
	var f ecFrame
	if strings.Contains(kind, "@") {
		if frame >= len(sh.Frames) {
			return nil, true, false
		}
		f = sh.Frames[frame]
	}
	switch name {
	case "missing":
		return nil, false, true
	case "trunc:zero-bytes":
		return cut(0)
	case "trunc:mid-shard-header":
		return cut(7)
	case "trunc:last-byte":
		return cut(len(o) - 1)
	case "trunc:frame-boundary":
		return cut(f.Off)
	case "trunc:mid-frame-header":
		return cut(f.Off + 20)
	case "trunc:mid-payload":
		return cut(f.payloadOff() + (f.PayloadLen+1)/2)
	case "flip:shard-magic":
		return xor(0, 0x01)
	case "flip:shard-version":
		return xor(4, 0x01)
	case "flip:shard-data":
		return xor(6, 0x01)
	case "flip:shard-total":
		return xor(8, 0x01)
	case "flip:shard-index":
		return xor(10, 0x01)
	case "flip:shard-stripe":
		return xor(13, 0x04)
	case "flip:frame-stripeindex:lo":
		return xor(f.Off+7, 0x01)
	case "flip:frame-stripeindex:hi":
		return xor(f.Off, 0x80)
	case "flip:frame-databytes:lo":
		return xor(f.Off+11, 0x01)
	case "flip:frame-databytes:hi":
		return xor(f.Off+8, 0x01)
	case "flip:frame-payloadlen:lo":
		return xor(f.Off+15, 0x01)
	case "flip:frame-payloadlen:hi":
		return xor(f.Off+13, 0x01) // +-64 KiB
	case "flip:frame-payloadlen:16m":
		return xor(f.Off+12, 0x01) // +16 MiB allocation
	case "flip:frame-payloadlen:256m":
		return xor(f.Off+12, 0x10) // 256 MiB allocation (gigabyte-sized values take minutes to page in in this sandbox)
	case "flip:frame-hash:first":
		return xor(f.Off+16, 0x01)
	case "flip:frame-hash:last":
		return xor(f.Off+47, 0x80)
	case "flip:payload:first":
		return xor(f.payloadOff(), 0x01)
	case "flip:payload:mid":
		return xor(f.payloadOff()+f.PayloadLen/2, 0x10)
	case "flip:payload:last":
		return xor(f.payloadOff()+f.PayloadLen-1, 0x80)
	case "reorder:swap-first-two-frames", "reorder:drop-first-frame", "reorder:duplicate-first-frame":
		if len(sh.Frames) < 2 {
			return nil, true, false
		}
		f0, f1 := sh.Frames[0], sh.Frames[1]
		b := append([]byte{}, o[:f0.Off]...)
		switch name {
		case "reorder:swap-first-two-frames":
			b = append(append(b, o[f1.Off:f1.end()]...), o[f0.Off:f0.end()]...)
		case "reorder:duplicate-first-frame":
			b = append(append(b, o[f0.Off:f0.end()]...), o[f0.Off:f0.end()]...)
		}
		return append(b, o[f1.end():]...), true, true
	case "foreign":
		return repl(c.forgn[i])
	case "stale-same-size":
		return repl(c.staleS[i])
	case "stale-other-size":
		return repl(c.staleO[i])
	}
	return nil, true, false
}

func (c *c17ctx) path(i int) string { return fsPath(c.dirs[i], c.idA) }

func (c *c17ctx) setShard(i int, b []byte, present bool) {
	if !present {
		_ = os.Remove(c.path(i))
	} else if err := os.WriteFile(c.path(i), b, 0o600); err != nil {
		c.rec.Inconclusive("cannot write shard file: " + err.Error())
	}
	c.dirty[i] = true
}

func (c *c17ctx) reset() {
	for i := range c.dirs {
		if c.dirty[i] {
			_ = os.WriteFile(c.path(i), c.orig[i], 0o600)
			c.dirty[i] = false
		}
	}
}

func (c *c17ctx) read(mode string) (data []byte, err error) {
	defer func() {
		if p := recover(); p != nil {
			err = fmt.Errorf("PANIC: %v", p)
		}
	}()
	if mode == "nil" {
		rc, e := c.ps.GetPart(bg, nil, c.idA)
		if e != nil {
			return nil, e
		}
		return readAllClose(rc)
	}
	err = inTx(c.db, true, func(ctx context.Context, tx database.Tx) error {
		rc, e := c.ps.GetPart(ctx, tx, c.idA)
		if e != nil {
			return e
		}
		var re error
		data, re = readAllClose(rc)
		return re
	})
	return
}

// classify names the root-cause class of a lying / failing read.
func c17Classify(cs c17Case, got, want []byte, err error) string {
	scope := "le-parity"
	if cs.NF > cs.P {
		scope = "gt-parity"
	}
	has := func(cl string) bool {
		for _, f := range cs.Faults {
			if kindClass(f.Kind) == cl {
				return true
			}
		}
		return false
	}
	if err != nil && strings.HasPrefix(err.Error(), "PANIC") {
		return scope + "/reader-panic"
	}
	switch {
	case has("flip:frame-databytes"):
		return scope + "/frame-header-databytes-unauthenticated"
	case has("stale-same-size") || has("stale-other-size"):
		return scope + "/stale-shard-accepted"
	case has("foreign"):
		return scope + "/foreign-shard-accepted"
	}
	if err == nil && len(got) < len(want) && bytes.Equal(got, want[:len(got)]) {
		// the recorded defect: at the stripe where the read stops, every shard that is still
		// open simply ENDS (missing, truncated, refused when opened). A shard that delivered a
		// damaged frame in an EARLIER stripe was dropped there and does not change that; a
		// damaged frame AT the stripe where the read stops cleanly is something else.
		endStripe := -1
		if cs.D > 0 {
			endStripe = len(got) / (cs.D * ecStripe)
		}
		endsEarly := true
		for _, f := range cs.Faults {
			kc := kindClass(f.Kind)
			if kc == "missing" || strings.HasPrefix(kc, "trunc:") || strings.HasPrefix(kc, "flip:shard-") ||
				kc == "reorder:drop-first-frame" || kc == "reorder:duplicate-first-frame" { // length-changing: the shard is refused when it is opened
				continue
			}
			frame := 0 // reorder:swap-first-two-frames is noticed in stripe 0
			if i := strings.Index(f.Kind, "@"); i >= 0 {
				fmt.Sscanf(f.Kind[i+1:], "%d", &frame)
			}
			if frame >= endStripe {
				endsEarly = false
			}
		}
		if endsEarly {
			return scope + "/all-readable-shards-end-early-silent-prefix"
		}
		return scope + "/damaged-frames-read-as-clean-end-silent-prefix"
	}
	var ks []string
	for _, f := range cs.Faults {
		ks = append(ks, kindClass(f.Kind))
	}
	sort.Strings(ks)
	out := "wrong-bytes"
	if err != nil {
		out = "read-error"
	}
	return fmt.Sprintf("%s/%s:%s", scope, out, strings.Join(ks, "+"))
}

func (c *c17ctx) runCase(cs c17Case) {
	c.reset()
	var applied []c17Fault
	for _, f := range cs.Faults {
		b, present, ok := c.applyFault(f.Shard, f.Kind)
		if !ok {
			c.rec.Count("fault_variant_noop_skipped", 1)
			c.reset()
			return
		}
		c.setShard(f.Shard, b, present)
		applied = append(applied, f)
	}
	var kcs []string
	for _, f := range applied {
		kcs = append(kcs, kindClass(f.Kind))
		c.rec.Seen("fault_kinds", kindClass(f.Kind))
		c.rec.Count("faults_applied:"+kindClass(f.Kind), 1)
	}
	sort.Strings(kcs)
	var shards []string
	for _, f := range applied {
		shards = append(shards, fmt.Sprint(f.Shard))
	}
	c.rec.Seen(fmt.Sprintf("subsets_ec%d%d", c.d, c.p), strings.Join(shards, ","))
	c.rec.Eval(fmt.Sprintf("ec%d%d|n=%d|%v|%s", c.d, c.p, c.size, cs.Faults, cs.Tx))
	if cs.EarlyClose {
		c.rec.Count("abandoned_reads_before_the_judged_read", 1)
		func() {
			defer func() { _ = recover() }()
			if rc, e := c.ps.GetPart(bg, nil, c.idA); e == nil {
				_, _ = io.ReadFull(rc, make([]byte, 10))
				_ = rc.Close()
			}
		}()
	}
	got, err := c.read(cs.Tx)
	w := map[string]any{"case": cs, "got": vkit.Brief(got), "want": vkit.Brief(c.cur), "error": errStr(err)}
	exact := err == nil && bytes.Equal(got, c.cur)
	if cs.NF <= c.p {
		c.rec.Count("cases_le_parity", 1)
		if !exact {
			what := fmt.Sprintf("ec(%d+%d) size %d with %d faulty shard(s) %v (<= parity): ", c.d, c.p, c.size, cs.NF, cs.Faults)
			if err != nil {
				what += "read failed: " + errStr(err)
			} else {
				what += fmt.Sprintf("read returned %d bytes != original %d bytes without error (first diff %d)", len(got), len(c.cur), firstDiff(got, c.cur))
			}
			c.rec.Violation(c17Classify(cs, got, c.cur, err), what, w)
			return
		}
		c.rec.Count("le_parity_exact_reads", 1)
		c.verifyHeal(cs, w)
		return
	}
	c.rec.Count("cases_gt_parity", 1)
	switch {
	case err != nil:
		c.rec.Count("gt_parity_read_failed", 1)
	case exact:
		c.rec.Count("gt_parity_read_exact", 1)
	default:
		c.rec.Violation(c17Classify(cs, got, c.cur, err),
			fmt.Sprintf("ec(%d+%d) size %d with %d faulty shards %v (> parity): read returned %d bytes != original %d bytes WITHOUT error (first diff %d)", c.d, c.p, c.size, cs.NF, cs.Faults, len(got), len(c.cur), firstDiff(got, c.cur)), w)
	}
}

// verifyHeal runs after a successful read with <= parity faulty shards.
func (c *c17ctx) verifyHeal(cs c17Case, w map[string]any) {
	missing := map[int]bool{}
	restoredOK := map[int]bool{}
	inS := map[int]bool{}
	for _, f := range cs.Faults {
		inS[f.Shard] = true
		b, rerr := os.ReadFile(c.path(f.Shard))
		restored := rerr == nil && bytes.Equal(b, c.orig[f.Shard])
		cl := kindClass(f.Kind)
		switch {
		case restored:
			restoredOK[f.Shard] = true
			c.rec.Count("shard_after_read_byte_identical:"+cl, 1)
		case rerr == nil && parseECShard(b).Clean && len(parseECShard(b).Frames) == len(c.shard[f.Shard].Frames):
			restoredOK[f.Shard] = true
			c.rec.Count("shard_after_read_parses_clean:"+cl, 1)
		default:
			c.rec.Count("shard_after_read_still_faulty:"+cl, 1)
		}
		if f.Kind == "missing" {
			missing[f.Shard] = true
		}
	}
	if len(missing) == 0 {
		return
	}
	// "healing restores the missing shards": put the non-missing faulty shards
	// back by hand, then take parity-many OTHER shards away so that the healed
	// ones are needed, and read again.
	for _, f := range cs.Faults {
		if !missing[f.Shard] {
			c.setShard(f.Shard, c.orig[f.Shard], true)
		}
	}
	var remove []int
	for pass := 0; pass < 2 && len(remove) < c.p; pass++ {
		for i := 0; i < c.d+c.p && len(remove) < c.p; i++ {
			if missing[i] || (pass == 0 && inS[i]) || (pass == 1 && !inS[i]) {
				continue
			}
			remove = append(remove, i)
		}
	}
	for _, i := range remove {
		c.setShard(i, nil, false)
	}
	got, err := c.read(cs.Tx)
	w["second_read_removed"] = remove
	w["second_error"] = errStr(err)
	if err != nil || !bytes.Equal(got, c.cur) {
		sig := "le-parity/healed-shards-unusable-in-second-read"
		var badData, badParity []int
		for _, i := range keys(missing) {
			if !restoredOK[i] {
				if i < c.d {
					badData = append(badData, i)
				} else {
					badParity = append(badParity, i)
				}
			}
		}
		// a stale / foreign shard or a forged dataBytes field that did not change
		// the first read can still poison the shards written by the healing read
		if rc := c17Classify(cs, nil, c.cur, nil); !strings.Contains(rc, "wrong-bytes:") && !strings.HasSuffix(rc, "silent-prefix") {
			sig = rc
		}
		switch {
		case sig != "le-parity/healed-shards-unusable-in-second-read":
		case len(badData) > 0:
			sig = "le-parity/missing-data-shard-not-restored-by-healing-read"
		case len(badParity) > 0:
			sig = "le-parity/missing-parity-shard-not-restored-by-healing-read"
		}
		w["missing_data_shards_not_restored"] = badData
		w["missing_parity_shards_not_restored"] = badParity
		c.rec.Violation(sig,
			fmt.Sprintf("ec(%d+%d) size %d: after a successful read with missing shard(s) %v, removing the other shards %v (<= parity) makes the part unreadable / different (err=%v, %d bytes): the healing read did not restore the missing shards", c.d, c.p, c.size, keys(missing), remove, err, len(got)), w)
		return
	}
	c.rec.Count("heals_verified_by_second_read_without_other_shards", 1)
}

func keys(m map[int]bool) []int {
	var k []int
	for i := range m {
		k = append(k, i)
	}
	sort.Ints(k)
	return k
}

func subsetsUpTo(n, k int) [][]int {
	var out [][]int
	var rec func(start int, cur []int)
	rec = func(start int, cur []int) {
		if len(cur) > 0 {
			out = append(out, append([]int{}, cur...))
		}
		if len(cur) == k {
			return
		}
		for i := start; i < n; i++ {
			rec(i+1, append(cur, i))
		}
	}
	rec(0, nil)
	sort.SliceStable(out, func(a, b int) bool { return len(out[a]) < len(out[b]) })
	return out
}

func c17Cases(sp c17Spec, tier string, seed uint64, nFrames int) []c17Case {
	rg := vkit.NewRand(seed).Fork(fmt.Sprintf("c17/%d+%d/%d", sp.D, sp.P, sp.Size))
	total := sp.D + sp.P
	kinds := c17FaultKinds(nFrames, false)
	var cases []c17Case
	add := func(group string, fs []c17Fault) {
		mode := "nil"
		if len(cases)%3 == 1 {
			mode = "rotx"
		}
		cases = append(cases, c17Case{D: sp.D, P: sp.P, Size: sp.Size, Idx: len(cases), Faults: fs, Tx: mode, NF: len(fs), Group: group})
	}
	nRandom := 8
	if tier == "thorough" {
		nRandom = 120
	}
	// missing shards (<= parity) whose first, healing read is abandoned after 10 bytes
	for _, sub := range subsetsUpTo(total, sp.P) {
		var fs []c17Fault
		for _, s := range sub {
			fs = append(fs, c17Fault{s, "missing"})
		}
		add("missing-then-abandoned-read", fs)
		cases[len(cases)-1].EarlyClose = true
	}
	for _, sub := range subsetsUpTo(total, sp.P+1) {
		if len(sub) == 1 {
			// single-shard subsets additionally get the 16 MiB length fields
			for _, k := range c17FaultKinds(nFrames, true) {
				add("single", []c17Fault{{sub[0], k}})
			}
			continue
		}
		for _, k := range kinds { // every member gets the same fault
			var fs []c17Fault
			for _, s := range sub {
				fs = append(fs, c17Fault{s, k})
			}
			add("homogeneous", fs)
		}
		for sp1 := range sub { // one member gets each fault, the others are missing
			for _, k := range kinds {
				if k == "missing" {
					continue
				}
				var fs []c17Fault
				for j, s := range sub {
					if j == sp1 {
						fs = append(fs, c17Fault{s, k})
					} else {
						fs = append(fs, c17Fault{s, "missing"})
					}
				}
				add("one-plus-missing", fs)
			}
		}
		for q := 0; q < nRandom; q++ { // PRNG mixtures
			var fs []c17Fault
			for _, s := range sub {
				fs = append(fs, c17Fault{s, kinds[rg.Intn(len(kinds))]})
			}
			add("mixture", fs)
		}
	}
	// every shard damaged in the SAME stripe in a way that is not an end of file: no valid
	// frame is left in that stripe, the read has to fail (it must not end cleanly there)
	if nFrames > 0 {
		fr := map[int]bool{0: true, nFrames - 1: true, nFrames / 2: true}
		var fl []int
		for f := range fr {
			fl = append(fl, f)
		}
		sort.Ints(fl)
		for _, f := range fl {
			for _, v := range []string{"flip:payload:mid", "flip:frame-hash:first", "trunc:mid-payload", "flip:frame-payloadlen:lo", "flip:frame-stripeindex:lo"} {
				var fs []c17Fault
				for s := 0; s < total; s++ {
					k := fmt.Sprintf("%s@%d", v, f)
					if v == "trunc:mid-payload" && s == 0 {
						k = fmt.Sprintf("flip:payload:first@%d", f) // at least one shard goes on after the damaged frame
					}
					fs = append(fs, c17Fault{s, k})
				}
				add("all-shards-same-stripe", fs)
			}
		}
	}
	if tier == "thorough" && sp.Size == sp.D*ecStripe+1 { // 256 MiB payloadLen, one shard at a time (one size per configuration: slow)
		for f := 0; f < nFrames && f < 1; f++ {
			for s := 0; s < total; s++ {
				add("huge-length", []c17Fault{{s, fmt.Sprintf("flip:frame-payloadlen:256m@%d", f)}})
			}
		}
	}
	return cases
}

func c17Child(rec recorder, spec *childSpec) {
	sp := *spec.C17
	env, err := vkit.OpenEnv(spec.Dir + "/env")
	if err != nil {
		rec.Inconclusive("cannot open env: " + err.Error())
		return
	}
	ps, err := env.BuildPartStore(fmt.Sprintf("ec%d%d", sp.D, sp.P))
	if err != nil {
		rec.Inconclusive("cannot build ec store: " + err.Error())
		return
	}
	if err := ps.Start(bg); err != nil {
		rec.Inconclusive("cannot start ec store: " + err.Error())
		return
	}
	total := sp.D + sp.P
	if len(env.FSDirs) != total {
		rec.Inconclusive("unexpected shard directory count")
		return
	}
	rg := vkit.NewRand(spec.Seed).Fork(fmt.Sprintf("c17-data/%d+%d/%d", sp.D, sp.P, sp.Size))
	c := &c17ctx{rec: rec, spec: spec, d: sp.D, p: sp.P, size: sp.Size, db: env.DB, ps: ps, dirs: env.FSDirs, dirty: make([]bool, total)}
	c.idA = newID(rg)
	idF := newID(rg)
	c.cur = rg.Bytes(sp.Size)
	otherSize := sp.Size + sp.D*ecStripe/2 + 3
	put := func(id partstore.PartId, b []byte, nilTx bool) error {
		if nilTx {
			return ps.PutPart(bg, nil, id, bytes.NewReader(b))
		}
		return inTx(c.db, false, func(ctx context.Context, tx database.Tx) error { return ps.PutPart(ctx, tx, id, bytes.NewReader(b)) })
	}
	snap := func(id partstore.PartId) [][]byte {
		out := make([][]byte, total)
		for i := range out {
			b, err := os.ReadFile(fsPath(c.dirs[i], id))
			if err != nil {
				rec.Inconclusive("cannot read shard file after PutPart: " + err.Error())
				return nil
			}
			out[i] = b
		}
		return out
	}
	steps := []struct {
		id   partstore.PartId
		data []byte
		dst  *[][]byte
	}{
		{c.idA, rg.Bytes(otherSize), &c.staleO},
		{c.idA, rg.Bytes(sp.Size), &c.staleS},
		{c.idA, c.cur, &c.orig},
		{idF, rg.Bytes(sp.Size), &c.forgn},
	}
	for k, st := range steps {
		if err := put(st.id, st.data, k%2 == 1); err != nil {
			rec.Inconclusive("setup PutPart failed: " + err.Error())
			return
		}
		if *st.dst = snap(st.id); *st.dst == nil {
			return
		}
	}
	// the harness's own reading of the format must agree with what PutPart wrote
	c.shard = make([]ecShard, total)
	wantFrames := (sp.Size + sp.D*ecStripe - 1) / (sp.D * ecStripe)
	for i := range c.orig {
		sh := parseECShard(c.orig[i])
		if !sh.Clean || sh.Data != sp.D || sh.Total != total || sh.Index != i || sh.Stripe != ecStripe || len(sh.Frames) != wantFrames || sh.innerLen() != sp.Size {
			rec.Inconclusive(fmt.Sprintf("shard file %d of ec(%d+%d) size %d does not have the documented layout", i, sp.D, sp.P, sp.Size))
			return
		}
		c.shard[i] = sh
	}
	if got, err := c.read("nil"); err != nil || !bytes.Equal(got, c.cur) {
		rec.Violation("no-fault/read-differs", fmt.Sprintf("fault-free read of ec(%d+%d) size %d: err=%v", sp.D, sp.P, sp.Size, err), map[string]any{"spec": sp})
		return
	}
	rec.Seen("configs", fmt.Sprintf("%d+%d", sp.D, sp.P))
	rec.Seen("sizes", fmt.Sprintf("%d+%d:%d", sp.D, sp.P, sp.Size))
	cases := c17Cases(sp, spec.Tier, spec.Seed, wantFrames)
	for i, cs := range cases {
		if !spec.selected(i) {
			continue
		}
		rec.Case(i, cs)
		cs := cs
		withWatchdog(rec, 120*time.Second, fmt.Sprintf("C17 case %d ec(%d+%d) size %d %v", i, sp.D, sp.P, sp.Size, cs.Faults), func() { c.runCase(cs) })
	}
	c.reset()
	if got, err := c.read("rotx"); err != nil || !bytes.Equal(got, c.cur) {
		rec.Inconclusive("restoring the original shard files did not restore the part")
	}
	_ = ps.Stop(bg)
	env.Close()
}

func c17OnCrash(pr *parentRec, name string, last *line, info string) {
	var cs c17Case
	_ = json.Unmarshal(last.X, &cs)
	if cs.NF <= cs.P {
		pr.Violation("le-parity/reader-crash", fmt.Sprintf("the process died while reading ec(%d+%d) size %d with %d faulty shard(s) %v: %s", cs.D, cs.P, cs.Size, cs.NF, cs.Faults, info), json.RawMessage(last.X))
		return
	}
	// more faults than parity: a crash is not "returning different bytes"; recorded as an observation
	pr.Count("gt_parity_reader_crashes_observed", 1)
	pr.Seen("gt_parity_crash_cases", string(last.X))
}

func runC17(tier, replay string) {
	r := vkit.Begin("C17", "fault_enumeration", tier)
	pr := newParentRec(r)
	r.SetRule("case = (data+parity, part size, {shard -> fault variant}, read mode). ALL subsets of shards of size <= parity+1 are enumerated; single-shard subsets get every fault variant; larger subsets get every variant applied to all members, every variant on one member with the others missing, and PRNG mixtures. Fault variants: missing, frames reordered / dropped / duplicated, truncation (0 bytes, mid shard header, at / inside the header of / inside the payload of the first, middle and last frame, last byte), one flipped byte in every shard-header field, in every frame-header field (stripe index, dataBytes, payloadLen, hash) and in the payload, foreign shard (same index of another part of equal size), stale shard (same index of a previous PutPart of the same id, equal and different size). distinct = distinct (config,size,assignment,read mode)")
	r.Assume("shard files are produced by real PutPart calls and mutated in the raw filesystem directories; the harness parses them with its own reading of the documented layout and refuses to run (inconclusive) if that does not match")
	r.Assume("'healing restores the missing shards' is required for faults of kind 'missing' (checked by a second read without parity-many other shards); whether truncated / corrupt / stale shards are rewritten by a read is recorded per fault kind as an observation")
	r.Assume("stripe size 1024; shard stores are filesystem stores; reads alternate between nil-transaction and read-only-transaction mode")
	r.SetExhaustive(false)
	if replay != "" {
		b, err := os.ReadFile(replay)
		if err != nil {
			fmt.Println("cannot read replay:", err)
			os.Exit(3)
		}
		var w struct {
			Seed    uint64 `json:"seed"`
			Tier    string `json:"tier"`
			Witness struct {
				Case c17Case `json:"case"`
			} `json:"witness"`
		}
		_ = json.Unmarshal(b, &w)
		cs := w.Witness.Case
		if cs.D == 0 { // crash witnesses are the bare case
			var w2 struct {
				Witness c17Case `json:"witness"`
			}
			_ = json.Unmarshal(b, &w2)
			cs = w2.Witness
		}
		only := cs.Idx
		runJobs(pr, []job{{name: "replay", onCrash: c17OnCrash, spec: childSpec{Prop: "C17", Tier: w.Tier, Seed: w.Seed, Only: &only, C17: &c17Spec{D: cs.D, P: cs.P, Size: cs.Size}}}}, 1, 5*time.Minute)
		if pr.Fired() > 0 {
			fmt.Println("replay: reproduced")
		} else {
			fmt.Println("replay: not reproduced")
		}
		r.Finish()
	}
	var jobs []job
	for _, cfg := range c17Configs {
		for _, sz := range c17Sizes(cfg[0], r.Tier) {
			jobs = append(jobs, job{name: fmt.Sprintf("ec%d+%d/%d", cfg[0], cfg[1], sz), onCrash: c17OnCrash,
				spec: childSpec{Prop: "C17", Tier: r.Tier, Seed: r.Seed, C17: &c17Spec{D: cfg[0], P: cfg[1], Size: sz}}})
		}
	}
	// big jobs first
	sort.SliceStable(jobs, func(a, b int) bool {
		wa := (jobs[a].spec.C17.D + jobs[a].spec.C17.P) * (jobs[a].spec.C17.P + 1)
		wb := (jobs[b].spec.C17.D + jobs[b].spec.C17.P) * (jobs[b].spec.C17.P + 1)
		return wa > wb
	})
	runJobs(pr, jobs, 8, 4*time.Minute)
	if r.SeenCount("configs") != len(c17Configs) {
		r.Inconclusive("not every (data,parity) configuration was exercised")
	}
	wantSubsets := map[string]int{"subsets_ec11": 3, "subsets_ec21": 6, "subsets_ec22": 14, "subsets_ec32": 25}
	for k, n := range wantSubsets {
		if r.SeenCount(k) < n { // + the all-shards subset of the same-stripe group where it is larger than parity+1
			r.Inconclusive(fmt.Sprintf("%s: %d of %d shard subsets enumerated", k, r.SeenCount(k), n))
		}
	}
	if r.Counter("heals_verified_by_second_read_without_other_shards") == 0 {
		r.Inconclusive("no healing read was verified")
	}
	r.SetExtra("subsets_expected", wantSubsets)
	r.Sample(c17Case{D: 2, P: 1, Size: 2049, Faults: []c17Fault{{0, "flip:frame-databytes:lo@1"}}, Tx: "nil", NF: 1, Group: "single"})
	r.Sample(c17Case{D: 3, P: 2, Size: 6151, Faults: []c17Fault{{1, "missing"}, {4, "trunc:mid-payload@0"}}, Tx: "rotx", NF: 2, Group: "one-plus-missing"})
	pr.flushMaxes()
	r.Finish()
}
