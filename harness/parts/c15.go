package main

import (
	"bytes"
	"context"
	"encoding/json"
	"fmt"
	"os"
	"sort"
	"strings"
	"sync"
	"time"

	"github.com/jdillenkofer/pithos/internal/storage/database"
	"github.com/jdillenkofer/pithos/internal/storage/metadatapart/partstore"
	"github.com/jdillenkofer/pithos/internal/verif/vkit"
	"github.com/jdillenkofer/pithos/internal/verifhook"
)

// C15: every part store / middleware composition returns exactly the bytes it
// was given. Oracle: the harness's own map id -> bytes.

type c15Spec struct {
	Stack string `json:"stack"`
}

type c15Case struct {
	Stack  string `json:"stack"`
	Idx    int    `json:"idx"`
	Mode   string `json:"mode"` // sep = one transaction per operation, one = several operations per transaction
	K1     string `json:"kind"`
	N1     int    `json:"size"`
	S1     uint64 `json:"seed"`
	K2     string `json:"kind2"`
	N2     int    `json:"size2"`
	S2     uint64 `json:"seed2"`
	Reader int    `json:"reader"`
}

var c15Stacks = append(append([]string{}, vkit.PartStoreSpecs...), "tink>zstd>fs")

// c15Sizes: every chunk / segment / stripe / threshold boundary of every layer (±1).
func c15Sizes(tier string, stack string, rg *vkit.Rand) []int {
	s := []int{1, 2, 31, 32, 33, // compression header size
		1023, 1024, 1025, // minimum size to compress
		2047, 2048, 2049, 2055, 4095, 4096, 4097, 4103, // EC 2x1024 stripe, multiples, 2*d*s+7
		3071, 3072, 3073, 6143, 6144, 6145, 6151, // EC 3x1024
		65535, 65536, 65537, // compression sample
		130983, 130984, 130985, // tink first segment capacity below a 32-byte compression header
		131015, 131016, 131017, // tink first segment plaintext capacity (128 KiB - 40 - 16)
		262071, 262072, 262073, // two tink segments
		262143, 262144, 262145, // cache part-size threshold
		307199, 307200, 307201, // filesystem cache size limit
		393127, 393128, 393129, // three tink segments
	}
	n := 6
	hi := 70000
	if tier == "thorough" {
		n, hi = 400, 600000
	}
	for i := 0; i < n; i++ {
		s = append(s, rg.Intn(hi))
	}
	if tier == "thorough" && strings.Contains(stack, "outbox") {
		s = append(s, 8<<20-1, 8<<20, 8<<20+1) // outbox chunk
	}
	return s
}

func c15Cases(seed uint64, tier, stack string) []c15Case {
	rg := vkit.NewRand(seed).Fork("c15/" + stack)
	sizes := c15Sizes(tier, stack, rg)
	type ks struct {
		k string
		n int
	}
	var list []ks
	list = append(list, ks{"empty", 0}, ks{"one", 1}, ks{"empty", 0})
	for _, n := range sizes {
		list = append(list, ks{"prng", n})
	}
	compSizes := []int{1024, 1025, 4096, 65536, 65537, 131016, 200000, 262145}
	if tier == "thorough" {
		compSizes = append(compSizes, 1023, 2048, 3072, 65535, 131017, 262144, 307201, 393128, 500000)
	}
	for _, n := range compSizes {
		for _, k := range []string{"zero", "mixed-ci", "mixed-ic", "edge", "magic"} {
			list = append(list, ks{k, n})
		}
	}
	list = append(list, ks{"magic", 20}, ks{"magic", 32}, ks{"zero", 1})
	vkit.Shuffle(rg, list)
	// partner contents for the re-put: another size / kind, including empty
	var cases []c15Case
	for i, a := range list {
		var b ks
		switch rg.Intn(6) {
		case 0:
			b = ks{"empty", 0}
		case 1:
			b = ks{"zero", list[rg.Intn(len(list))].n}
		case 2:
			b = ks{"magic", 32 + rg.Intn(3000)}
		default:
			b = list[rg.Intn(len(list))]
		}
		if b.k == "empty" || b.k == "one" {
			if b.k == "one" {
				b.n = 1
			} else {
				b.n = 0
			}
		}
		mode := "sep"
		if i%3 == 2 {
			mode = "one"
		}
		cases = append(cases, c15Case{Stack: stack, Idx: i, Mode: mode, K1: a.k, N1: a.n, S1: rg.Uint64(), K2: b.k, N2: b.n, S2: rg.Uint64(), Reader: rg.Intn(4)})
	}
	return cases
}

// gate blocks the outbox worker at the partoutbox.after-claim hook while closed.
type gate struct {
	mu     sync.Mutex
	cond   *sync.Cond
	closed bool
}

func newGate() *gate { g := &gate{}; g.cond = sync.NewCond(&g.mu); return g }
func (g *gate) set(closed bool) {
	g.mu.Lock()
	g.closed = closed
	g.mu.Unlock()
	g.cond.Broadcast()
}
func (g *gate) wait() {
	g.mu.Lock()
	for g.closed {
		g.cond.Wait()
	}
	g.mu.Unlock()
}

type c15State struct {
	rec       recorder
	stack     string
	leaf      string // fs | sql | ec
	env       *vkit.Env
	db        database.Database
	ps        partstore.PartStore
	txFreeGet bool
	hasOutbox bool
	gate      *gate
	model     map[string][]byte
	kinds     map[string]string
	order     []string
	absentRd  map[string]bool
	cur       c15Case
	rot       int
}

func leafOf(stack string) string {
	l := stack[strings.LastIndex(stack, ">")+1:]
	if strings.HasPrefix(l, "ec") {
		return "ec"
	}
	return l
}

func (st *c15State) witness(extra map[string]any) map[string]any {
	w := map[string]any{"case": st.cur, "stack": st.stack}
	for k, v := range extra {
		w[k] = v
	}
	return w
}

func emptyClass(b []byte) string {
	if len(b) == 0 {
		return "empty"
	}
	return "nonempty"
}

func (st *c15State) modes() []string {
	m := []string{"rotx", "rwtx"}
	if st.txFreeGet {
		m = append(m, "nil")
	}
	return m
}

func (st *c15State) get(id partstore.PartId, mode string) (data []byte, err error) {
	st.rec.Count("get_"+mode, 1)
	if mode == "nil" {
		rc, gerr := st.ps.GetPart(bg, nil, id)
		if gerr != nil {
			return nil, gerr
		}
		return readAllClose(rc)
	}
	err = inTx(st.db, mode == "rotx", func(ctx context.Context, tx database.Tx) error {
		rc, gerr := st.ps.GetPart(ctx, tx, id)
		if gerr != nil {
			return gerr
		}
		var rerr error
		data, rerr = readAllClose(rc)
		return rerr
	})
	return data, err
}

func (st *c15State) put(id partstore.PartId, content []byte) {
	st.rec.Count("put", 1)
	err := inTx(st.db, false, func(ctx context.Context, tx database.Tx) error {
		return st.ps.PutPart(ctx, tx, id, putReader(st.cur.Reader+len(content), content, st.cur.S1))
	})
	if err != nil {
		st.rec.Violation("put-error:"+st.stack, "PutPart failed: "+errStr(err), st.witness(map[string]any{"size": len(content)}))
		return
	}
	st.setModel(id, content)
}

func (st *c15State) setModel(id partstore.PartId, content []byte) {
	h := idHex(id)
	if _, ok := st.model[h]; !ok {
		st.order = append(st.order, h)
	}
	st.model[h] = content
}

func (st *c15State) dropModel(id partstore.PartId) {
	h := idHex(id)
	delete(st.model, h)
	for i, x := range st.order {
		if x == h {
			st.order = append(st.order[:i], st.order[i+1:]...)
			break
		}
	}
}

func (st *c15State) del(id partstore.PartId) {
	st.rec.Count("delete", 1)
	err := inTx(st.db, false, func(ctx context.Context, tx database.Tx) error { return st.ps.DeletePart(ctx, tx, id) })
	if err != nil {
		st.rec.Violation("delete-error:"+st.stack, "DeletePart failed: "+errStr(err), st.witness(nil))
		return
	}
	st.dropModel(id)
}

func (st *c15State) pendingCount() int {
	n := -1
	_ = inTx(st.db, true, func(ctx context.Context, tx database.Tx) error {
		return tx.SqlTx().QueryRowContext(ctx, "SELECT COUNT(*) FROM part_outbox_entries").Scan(&n)
	})
	return n
}

// observe runs the checks; for outbox stacks once while the committed entries
// are still pending (worker held at its after-claim hook) and once after the
// worker drained them into the inner store.
func (st *c15State) observe(check func(phase string)) {
	if !st.hasOutbox {
		check("")
		return
	}
	if n := st.pendingCount(); n > 0 {
		st.rec.Count("outbox_pending_phase_observations", 1)
		check("pending")
	} else {
		st.rec.Count("outbox_pending_phase_empty", 1)
	}
	st.drain()
	st.rec.Count("outbox_drained_phase_observations", 1)
	check("drained")
}

func (st *c15State) drain() {
	st.gate.set(false)
	deadline := time.Now().Add(90 * time.Second)
	for st.pendingCount() != 0 {
		if time.Now().After(deadline) {
			hang(st.rec, "outbox worker did not drain within 90s on "+st.stack)
			return
		}
		time.Sleep(500 * time.Microsecond)
	}
	st.gate.set(true)
}

func (st *c15State) verifyLive(id partstore.PartId, phase string, modes []string) {
	h := idHex(id)
	want, ok := st.model[h]
	if !ok {
		return
	}
	for _, mode := range modes {
		got, err := st.get(id, mode)
		w := map[string]any{"id": h, "read_mode": mode, "phase": phase, "want": vkit.Brief(want), "content_kind": st.kinds[h]}
		switch {
		case err != nil && isNotFound(err):
			st.rec.Violation(fmt.Sprintf("live-part-notfound:leaf=%s:%s", st.leaf, emptyClass(want)),
				fmt.Sprintf("GetPart(%s) of a live part (%d bytes written) answered ErrPartNotFound on stack %s phase=%q", mode, len(want), st.stack, phase), st.witness(w))
		case err != nil:
			st.rec.Violation("get-error:"+st.stack, fmt.Sprintf("GetPart(%s) of a live part failed: %s", mode, errStr(err)), st.witness(w))
		case !bytes.Equal(got, want):
			w["got"] = vkit.Brief(got)
			w["first_diff"] = firstDiff(got, want)
			st.rec.Violation(fmt.Sprintf("content-mismatch:%s:%s", st.stack, st.kinds[h]),
				fmt.Sprintf("GetPart(%s) returned %d bytes != %d bytes written (first difference at %d) on stack %s phase=%q", mode, len(got), len(want), firstDiff(got, want), st.stack, phase), st.witness(w))
		default:
			st.rec.Count("reads_equal", 1)
		}
	}
}

func (st *c15State) checkAbsent(id partstore.PartId, history, phase string) {
	h := idHex(id)
	st.absentRd[h] = true
	for _, mode := range st.modes() {
		st.rec.Count("absent_reads", 1)
		got, err := st.get(id, mode)
		w := map[string]any{"id": h, "read_mode": mode, "phase": phase, "history": history}
		switch {
		case err == nil:
			st.rec.Violation(fmt.Sprintf("absent-part-readable:leaf=%s:%s", st.leaf, history),
				fmt.Sprintf("GetPart(%s) of a %s part id returned %d bytes without error instead of ErrPartNotFound on stack %s phase=%q", mode, history, len(got), st.stack, phase), st.witness(w))
		case !isNotFound(err):
			st.rec.Violation("absent-part-wrong-error:"+st.stack, fmt.Sprintf("GetPart(%s) of a %s part id failed with %q, not ErrPartNotFound", mode, history, errStr(err)), st.witness(w))
		default:
			st.rec.Count("absent_reads_notfound", 1)
		}
	}
}

func (st *c15State) checkIds(phase string) {
	st.rec.Count("ids_checks", 1)
	var ids []partstore.PartId
	err := inTx(st.db, true, func(ctx context.Context, tx database.Tx) error {
		var e error
		ids, e = st.ps.GetPartIds(ctx, tx)
		return e
	})
	if err != nil {
		st.rec.Violation("ids-error:"+st.stack, "GetPartIds failed: "+errStr(err), st.witness(nil))
		return
	}
	seen := map[string]int{}
	for _, id := range ids {
		seen[idHex(id)]++
	}
	var phantom []string
	for h, n := range seen {
		if n > 1 {
			st.rec.Violation("ids-duplicate:"+st.stack, "GetPartIds lists an id more than once", st.witness(map[string]any{"id": h, "times": n}))
		}
		if _, ok := st.model[h]; !ok {
			phantom = append(phantom, h)
		}
	}
	sort.Strings(phantom)
	for _, h := range phantom {
		sig := "ids-phantom:" + st.stack
		what := "GetPartIds lists an id that is not live"
		if st.absentRd[h] {
			sig = fmt.Sprintf("ids-phantom-after-absent-read:leaf=%s", st.leaf)
			what = "GetPartIds lists a never-written / deleted id after it was merely read (GetPart) on stack " + st.stack
		}
		st.rec.Violation(sig, what, st.witness(map[string]any{"id": h, "phase": phase}))
	}
	for h, want := range st.model {
		if seen[h] == 0 {
			st.rec.Violation(fmt.Sprintf("ids-missing-live:leaf=%s:%s", st.leaf, emptyClass(want)),
				fmt.Sprintf("GetPartIds omits a live part (%d bytes written) on stack %s phase=%q", len(want), st.stack, phase), st.witness(map[string]any{"id": h, "phase": phase}))
		}
	}
	if len(phantom) == 0 {
		st.rec.Count("ids_checks_clean_of_phantoms", 1)
	}
	// clean the phantoms away through the API so that they are reported once per occurrence
	if len(phantom) > 0 {
		_ = inTx(st.db, false, func(ctx context.Context, tx database.Tx) error {
			for _, h := range phantom {
				if e := st.ps.DeletePart(ctx, tx, idFromHex(h)); e != nil {
					return e
				}
			}
			return nil
		})
		if st.hasOutbox {
			st.drain()
		}
	}
}

func (st *c15State) observeCompression(id partstore.PartId, kind string) {
	// evidence that both branches of the compression decision were driven: the
	// stored file of a compression layer sitting directly on a filesystem leaf
	// starts with the middleware's header, byte 17 = algorithm id.
	if !(strings.HasSuffix(st.stack, "zstd>fs") || strings.HasSuffix(st.stack, "gzip>fs")) || len(st.env.FSDirs) != 1 {
		return
	}
	b, err := os.ReadFile(fsPath(st.env.FSDirs[0], id))
	if err != nil || len(b) < 32 {
		return
	}
	alg := map[byte]string{0: "stored", 1: "gzip", 2: "zstd"}[b[17]]
	st.rec.Seen("compression_decisions", st.stack+":"+kind+":"+alg)
}

func (st *c15State) runCase(c c15Case) {
	st.cur = c
	rg := vkit.NewRand(c.S1).Fork("ids")
	id := newID(rg)
	c1 := genContent(c.K1, c.N1, c.S1)
	c2 := genContent(c.K2, c.N2, c.S2)
	st.rec.Eval(fmt.Sprintf("%s|%s|%s:%d|%s:%d|r%d", c.Stack, c.Mode, c.K1, c.N1, c.K2, c.N2, c.Reader%4))
	st.rec.Seen("content_kinds", c.K1)
	st.rec.Seen("content_kinds", c.K2)
	st.rec.Seen("sizes", fmt.Sprint(c.N1))
	st.rec.Seen("modes", c.Mode)
	h := idHex(id)
	all := st.modes()

	st.checkAbsent(id, "never-written", "")
	st.checkIds("after-absent-read")

	switch c.Mode {
	case "sep":
		st.kinds[h] = c.K1
		st.put(id, c1)
		st.observe(func(ph string) { st.verifyLive(id, ph, all); st.checkIds(ph) })
		st.observeCompression(id, c.K1)
		st.kinds[h] = c.K2
		st.put(id, c2) // overwrite with different content
		st.rec.Count("overwrites", 1)
		st.observe(func(ph string) { st.verifyLive(id, ph, all); st.checkIds(ph) })
		st.del(id)
		st.observe(func(ph string) { st.checkAbsent(id, "deleted", ph); st.checkIds(ph) })
		st.kinds[h] = c.K1
		st.put(id, c1) // write again after delete
		st.observe(func(ph string) { st.verifyLive(id, ph, all[:1]) })
	case "one":
		// put + in-transaction read + overwrite in ONE transaction
		st.kinds[h] = c.K2
		err := inTx(st.db, false, func(ctx context.Context, tx database.Tx) error {
			if e := st.ps.PutPart(ctx, tx, id, putReader(c.Reader, c1, c.S1)); e != nil {
				return e
			}
			// observation only: the statement does not promise read-your-writes
			// inside an uncommitted transaction, but whatever is returned must be
			// the pending content (or not-found), never other bytes.
			cls := "error"
			if rc, e := st.ps.GetPart(ctx, tx, id); e == nil {
				got, re := readAllClose(rc)
				switch {
				case re != nil:
				case bytes.Equal(got, c1):
					cls = "sees-own-write"
				case len(got) == 0:
					cls = "empty"
				default:
					cls = "other-bytes"
					st.rec.Violation("in-tx-read-other-bytes:"+st.stack, "GetPart inside the writing transaction returned bytes that are neither the pending content nor absent", st.witness(map[string]any{"got": vkit.Brief(got)}))
				}
			} else if isNotFound(e) {
				cls = "not-found"
			}
			st.rec.Seen("in_tx_read_before_commit", st.stack+":"+cls)
			return st.ps.PutPart(ctx, tx, id, putReader(c.Reader+1, c2, c.S2))
		})
		st.rec.Count("multi_op_transactions", 1)
		if err != nil {
			st.rec.Violation("put-error:"+st.stack, "put+put in one transaction failed: "+errStr(err), st.witness(nil))
			return
		}
		st.setModel(id, c2)
		st.observe(func(ph string) { st.verifyLive(id, ph, all); st.checkIds(ph) })
		// delete + put in one transaction
		st.kinds[h] = c.K1
		err = inTx(st.db, false, func(ctx context.Context, tx database.Tx) error {
			if e := st.ps.DeletePart(ctx, tx, id); e != nil {
				return e
			}
			return st.ps.PutPart(ctx, tx, id, putReader(c.Reader+2, c1, c.S1))
		})
		st.rec.Count("multi_op_transactions", 1)
		if err != nil {
			st.rec.Violation("put-error:"+st.stack, "delete+put in one transaction failed: "+errStr(err), st.witness(nil))
			return
		}
		st.setModel(id, c1)
		st.observe(func(ph string) { st.verifyLive(id, ph, all); st.checkIds(ph) })
		// put + delete of a second id in one transaction
		id2 := newID(rg)
		err = inTx(st.db, false, func(ctx context.Context, tx database.Tx) error {
			if e := st.ps.PutPart(ctx, tx, id2, putReader(c.Reader+3, c2, c.S2)); e != nil {
				return e
			}
			return st.ps.DeletePart(ctx, tx, id2)
		})
		st.rec.Count("multi_op_transactions", 1)
		if err != nil {
			st.rec.Violation("put-error:"+st.stack, "put+delete in one transaction failed: "+errStr(err), st.witness(nil))
			return
		}
		st.observe(func(ph string) { st.checkAbsent(id2, "deleted", ph); st.checkIds(ph) })
		// two ids in one transaction
		id3 := newID(rg)
		st.kinds[idHex(id3)] = c.K2
		err = inTx(st.db, false, func(ctx context.Context, tx database.Tx) error {
			if e := st.ps.PutPart(ctx, tx, id3, putReader(c.Reader, c2, c.S2)); e != nil {
				return e
			}
			return st.ps.PutPart(ctx, tx, id, putReader(c.Reader+1, c1, c.S1))
		})
		st.rec.Count("multi_op_transactions", 1)
		if err != nil {
			st.rec.Violation("put-error:"+st.stack, "two puts in one transaction failed: "+errStr(err), st.witness(nil))
			return
		}
		st.setModel(id3, c2)
		st.setModel(id, c1)
		st.observe(func(ph string) { st.verifyLive(id, ph, all[:1]); st.verifyLive(id3, ph, all); st.checkIds(ph) })
	}
	st.sweep()
}

// sweep re-reads every live part (older ones have left small caches by now)
// and retires the oldest ones.
func (st *c15State) sweep() {
	modes := st.modes()
	for _, h := range append([]string{}, st.order...) {
		st.rot++
		st.verifyLive(idFromHex(h), "sweep", []string{modes[st.rot%len(modes)]})
		st.rec.Count("sweep_reads", 1)
	}
	for len(st.order) > 6 {
		id := idFromHex(st.order[0])
		st.del(id)
		st.observe(func(ph string) { st.checkAbsent(id, "deleted", ph) })
	}
	st.checkIds("sweep")
}

func c15Child(rec recorder, spec *childSpec) {
	stack := spec.C15.Stack
	env, err := vkit.OpenEnv(spec.Dir + "/env")
	if err != nil {
		rec.Inconclusive("cannot open env: " + err.Error())
		return
	}
	st := &c15State{rec: rec, stack: stack, leaf: leafOf(stack), env: env, db: env.DB, model: map[string][]byte{}, kinds: map[string]string{},
		absentRd: map[string]bool{}, hasOutbox: strings.Contains(stack, "outbox"), gate: newGate()}
	if st.hasOutbox {
		verifhook.Set("partoutbox.after-claim", func(string, int64) error { st.gate.wait(); return nil })
		st.gate.set(true)
	}
	ps, err := env.BuildPartStore(stack)
	if err != nil {
		rec.Inconclusive("cannot build stack " + stack + ": " + err.Error())
		return
	}
	st.ps = ps
	if err := ps.Start(bg); err != nil {
		rec.Inconclusive("cannot start stack " + stack + ": " + err.Error())
		return
	}
	st.txFreeGet = partstore.CapabilitiesOf(ps).Has(partstore.CapabilityTxFreeGetPart)
	rec.Seen("stacks", stack)
	if st.txFreeGet {
		rec.Seen("stacks_with_txfree_get", stack)
	}
	cases := c15Cases(spec.Seed, spec.Tier, stack)
	run := func(i int, c c15Case) {
		if !spec.selected(i) {
			return
		}
		rec.Case(i, c)
		withWatchdog(rec, 180*time.Second, fmt.Sprintf("C15 case %d on %s", i, stack), func() { st.runCase(c) })
	}
	for i, c := range cases {
		run(i, c)
	}
	// Stripe boundaries of an erasure-coded leaf *below* length-changing layers
	// cannot be computed up front: measure the length the EC layer received for
	// one part and aim three more parts at its next stripe multiple (-1, 0, +1).
	if st.leaf == "ec" && strings.Contains(stack, ">") && (spec.Only == nil || *spec.Only >= len(cases)) && spec.Until == nil {
		d := int(stack[len(stack)-2] - '0')
		stripe := d * 1024
		probe := func(n int, seed uint64) int {
			id := newID(vkit.NewRand(seed))
			st.cur = c15Case{Stack: stack, Idx: -1, Mode: "probe", K1: "prng", N1: n, S1: seed}
			st.kinds[idHex(id)] = "prng"
			st.put(id, genContent("prng", n, seed))
			if st.hasOutbox {
				st.drain()
			}
			b, err := os.ReadFile(fsPath(env.FSDirs[0], id))
			if err != nil {
				return -1
			}
			return parseECShard(b).innerLen()
		}
		n0 := 5000
		l0 := probe(n0, spec.Seed^0x5151)
		if l0 > 0 {
			delta := (stripe - l0%stripe) % stripe
			for k, dn := range []int{-1, 0, 1} {
				i := len(cases) + k
				n := n0 + delta + dn
				c := c15Case{Stack: stack, Idx: i, Mode: "sep", K1: "prng", N1: n, S1: spec.Seed + uint64(i), K2: "prng", N2: n + stripe, S2: spec.Seed + uint64(i) + 99}
				run(i, c)
				if l := probe(n, spec.Seed+uint64(i)+7); l >= 0 {
					rec.Seen("ec_inner_length_mod_stripe_under_layers", fmt.Sprint((l+1)%stripe-1))
				}
			}
		}
	}
	// final: delete everything, the store must list nothing
	if spec.Only == nil && spec.Until == nil {
		st.cur = c15Case{Stack: stack, Idx: -2, Mode: "final"}
		for len(st.order) > 0 {
			st.del(idFromHex(st.order[0]))
		}
		st.observe(func(ph string) { st.checkIds("final-" + ph) })
	}
	st.gate.set(false)
	sctx, cancel := context.WithTimeout(bg, 60*time.Second)
	defer cancel()
	if err := ps.Stop(sctx); err != nil {
		rec.Count("stop_errors", 1)
	}
	env.Close()
}

func runC15(tier, replay string) {
	r := vkit.Begin("C15", "exploration", tier)
	pr := newParentRec(r)
	r.SetRule("case = (stack, transaction mode, content kind x size, overwrite content kind x size, PutPart reader shape); sizes enumerate every chunk/segment/stripe/threshold boundary +-1 of every layer plus PRNG sizes; each case runs never-written read, put, read (read-only tx, write tx, nil tx where advertised), GetPartIds, overwrite, delete, read-after-delete, re-put, multi-operation transactions, and a sweep over all live parts; outbox stacks are observed both while entries are pending (worker held at its after-claim hook) and after the drain. distinct = distinct (stack,mode,kind,size,kind2,size2,reader) tuples")
	r.Assume("oracle = the harness's own map id -> bytes; read-your-writes inside an uncommitted transaction is observed, not required")
	r.Assume("SQL chunk (256 MB) boundary not reachable; outbox 8 MiB chunk boundary only in the thorough tier")
	stacks := c15Stacks
	var jobs []job
	if replay != "" {
		b, err := os.ReadFile(replay)
		if err != nil {
			fmt.Println("cannot read replay:", err)
			os.Exit(3)
		}
		var w struct {
			Seed    uint64 `json:"seed"`
			Tier    string `json:"tier"`
			Witness struct {
				Case  c15Case `json:"case"`
				Stack string  `json:"stack"`
			} `json:"witness"`
		}
		_ = json.Unmarshal(b, &w)
		sp := childSpec{Prop: "C15", Tier: w.Tier, Seed: w.Seed, C15: &c15Spec{Stack: w.Witness.Stack}}
		if w.Witness.Case.Idx >= 0 {
			u := w.Witness.Case.Idx
			sp.Until = &u
		}
		jobs = append(jobs, job{name: w.Witness.Stack, spec: sp})
		runJobs(pr, jobs, 1, 5*time.Minute)
		if pr.Fired() > 0 {
			fmt.Println("replay: reproduced")
		} else {
			fmt.Println("replay: not reproduced")
		}
		r.Finish()
	}
	for _, s := range stacks {
		jobs = append(jobs, job{name: s, spec: childSpec{Prop: "C15", Tier: r.Tier, Seed: r.Seed, C15: &c15Spec{Stack: s}}})
	}
	runJobs(pr, jobs, 6, 4*time.Minute)
	if r.SeenCount("stacks") != len(stacks) {
		r.Inconclusive(fmt.Sprintf("only %d of %d stacks were exercised", r.SeenCount("stacks"), len(stacks)))
	}
	if r.Counter("outbox_pending_phase_observations") == 0 || r.Counter("outbox_drained_phase_observations") == 0 {
		r.Inconclusive("no outbox observation in the pending or in the drained phase")
	}
	r.Sample(c15Cases(r.Seed, r.Tier, "zstd>tink>fs")[0])
	r.Sample(c15Cases(r.Seed, r.Tier, "cache>outbox>tink>zstd>ec21")[2])
	pr.flushMaxes()
	r.Finish()
}
