// Engine "parts": part-store conformance (C15), encrypted-part tamper/seek
// monitor (C16) and erasure-coding shard-fault enumeration (C17).
//
// Every property runs its batches in child processes of this same binary
// (-child <spec.json>): a child logs each case before executing it and streams
// its observations as JSON lines; the parent merges them into the vkit.Run,
// turns a dead child into a violation (with the last logged case as witness)
// and resumes after the fatal case.
package main

import (
	"flag"
	"fmt"
	"os"
)

func main() {
	prop := flag.String("prop", "", "property id")
	tier := flag.String("tier", "", "quick|thorough")
	replay := flag.String("replay", "", "replay file")
	child := flag.String("child", "", "child batch spec file (internal)")
	flag.Parse()
	if *child != "" {
		runChild(*child)
		return
	}
	switch *prop {
	case "C15":
		runC15(*tier, *replay)
	case "C16":
		runC16(*tier, *replay)
	case "C17":
		runC17(*tier, *replay)
	default:
		fmt.Fprintln(os.Stderr, "engine parts: unknown property", *prop)
		os.Exit(3)
	}
}
