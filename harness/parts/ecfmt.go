package main

import (
	"crypto/sha256"
	"encoding/binary"
)

// Layout of an erasure-coding shard file, re-stated here from
// erasurecoding.go (the harness parses shard files on its own so that it can
// aim mutations at individual fields):
//
//	shard header (15 B): magic "PEC1"[0:4] version[4] dataShards[5:7] totalShards[7:9] shardIndex[9:11] stripe[11:15]
//	frame: stripeIndex[0:8] dataBytes[8:12] payloadLen[12:16] sha256(payload)[16:48] payload[48:48+payloadLen]
const (
	ecShardHeaderSize = 15
	ecFrameHeaderSize = 48
)

type ecFrame struct {
	Off        int // offset of the frame header in the shard file
	StripeIdx  uint64
	DataBytes  int
	PayloadLen int
	HashOK     bool
}

func (f ecFrame) payloadOff() int { return f.Off + ecFrameHeaderSize }
func (f ecFrame) end() int        { return f.Off + ecFrameHeaderSize + f.PayloadLen }

type ecShard struct {
	HeaderOK                   bool
	Data, Total, Index, Stripe int
	Frames                     []ecFrame
	Clean                      bool // the whole file parsed: header ok, every frame complete and hash-valid, no trailing bytes
}

func parseECShard(b []byte) ecShard {
	var s ecShard
	if len(b) < ecShardHeaderSize || string(b[0:4]) != "PEC1" || b[4] != 1 {
		return s
	}
	s.HeaderOK = true
	s.Data = int(binary.BigEndian.Uint16(b[5:7]))
	s.Total = int(binary.BigEndian.Uint16(b[7:9]))
	s.Index = int(binary.BigEndian.Uint16(b[9:11]))
	s.Stripe = int(binary.BigEndian.Uint32(b[11:15]))
	off := ecShardHeaderSize
	clean := true
	for off < len(b) {
		if off+ecFrameHeaderSize > len(b) {
			clean = false
			break
		}
		f := ecFrame{Off: off}
		f.StripeIdx = binary.BigEndian.Uint64(b[off : off+8])
		f.DataBytes = int(binary.BigEndian.Uint32(b[off+8 : off+12]))
		f.PayloadLen = int(binary.BigEndian.Uint32(b[off+12 : off+16]))
		if f.PayloadLen < 1 || off+ecFrameHeaderSize+f.PayloadLen > len(b) {
			clean = false
			break
		}
		h := sha256.Sum256(b[off+ecFrameHeaderSize : off+ecFrameHeaderSize+f.PayloadLen])
		f.HashOK = string(h[:]) == string(b[off+16:off+48])
		if !f.HashOK || f.StripeIdx != uint64(len(s.Frames)) {
			clean = false
		}
		s.Frames = append(s.Frames, f)
		off = f.end()
	}
	s.Clean = clean
	return s
}

// innerLen is the length of the byte stream the erasure-coding store was given
// (sum of the per-stripe dataBytes fields).
func (s ecShard) innerLen() int {
	n := 0
	for _, f := range s.Frames {
		n += f.DataBytes
	}
	return n
}
