package main

import (
	"bufio"
	"encoding/json"
	"fmt"
	"os"
	"os/exec"
	"path/filepath"
	"runtime/debug"
	"runtime/pprof"
	"strconv"
	"strings"
	"sync"
	"time"

	"github.com/jdillenkofer/pithos/internal/verif/vkit"
)

// recorder is what a monitor reports into: the vkit.Run in the parent, a JSON
// line stream in a child.
type recorder interface {
	Eval(sig string)
	Distinct(sig string)
	Count(name string, by int64)
	Seen(set, member string)
	Sample(s any)
	Violation(signature, what string, witness any)
	Inconclusive(why string)
	Max(name string, v int64)
	// Case logs a case *before* it is executed (index i within the batch).
	Case(i int, d any)
}

// ---------------------------------------------------------------- parent side

type parentRec struct {
	*vkit.Run
	mu    sync.Mutex
	fired int
	maxes map[string]int64
	sigs  map[string]int64
	first map[string]any
}

func newParentRec(r *vkit.Run) *parentRec { return &parentRec{Run: r, maxes: map[string]int64{}, sigs: map[string]int64{}, first: map[string]any{}} }

func (p *parentRec) Violation(signature, what string, witness any) {
	p.mu.Lock()
	p.fired++
	p.sigs[signature]++
	if _, ok := p.first[signature]; !ok {
		p.first[signature] = map[string]any{"what": what, "witness": witness}
	}
	p.mu.Unlock()
	p.Run.Violation(signature, what, witness)
}
func (p *parentRec) Fired() int { p.mu.Lock(); defer p.mu.Unlock(); return p.fired }
func (p *parentRec) Max(name string, v int64) {
	p.mu.Lock()
	if v > p.maxes[name] {
		p.maxes[name] = v
	}
	p.mu.Unlock()
}
func (p *parentRec) Case(i int, d any) {}
func (p *parentRec) flushMaxes() {
	p.mu.Lock()
	defer p.mu.Unlock()
	if len(p.maxes) > 0 {
		m := map[string]int64{}
		for k, v := range p.maxes {
			m[k] = v
		}
		p.Run.SetExtra("maxima", m)
	}
	if len(p.sigs) > 0 {
		m := map[string]int64{}
		for k, v := range p.sigs {
			m[k] = v
		}
		p.Run.SetExtra("violation_signatures_raised", m)
		f := map[string]any{}
		for k, v := range p.first {
			f[k] = v
		}
		p.Run.SetExtra("first_witness_per_signature", f)
		// one replayable witness per signature class, also for recorded findings
		// (vkit writes replay files only for unlisted signatures)
		dir := filepath.Join(vkit.VerifRoot(), "replay", p.Run.Prop)
		_ = os.MkdirAll(dir, 0o755)
		for k, v := range p.first {
			name := strings.Map(func(r rune) rune {
				if r >= 'a' && r <= 'z' || r >= 'A' && r <= 'Z' || r >= '0' && r <= '9' || r == '-' || r == '.' {
					return r
				}
				return '_'
			}, k)
			m := v.(map[string]any)
			b, _ := json.MarshalIndent(map[string]any{"property": p.Run.Prop, "seed": p.Run.Seed, "tier": p.Run.Tier, "signature": k, "what": m["what"], "witness": m["witness"]}, "", " ")
			_ = os.WriteFile(filepath.Join(dir, "class-"+name+".json"), b, 0o644)
		}
	}
}

type line struct {
	T string          `json:"t"`
	I int             `json:"i,omitempty"`
	S string          `json:"s,omitempty"`
	K string          `json:"k,omitempty"`
	M string          `json:"m,omitempty"`
	N int64           `json:"n,omitempty"`
	W string          `json:"w,omitempty"`
	X json.RawMessage `json:"x,omitempty"`
}

// childSpec is the batch description handed to a child process.
type childSpec struct {
	Prop  string   `json:"prop"`
	Tier  string   `json:"tier"`
	Seed  uint64   `json:"seed"`
	Dir   string   `json:"dir"`
	Start int      `json:"start"` // first case index to execute (resume after a dead child)
	Only  *int     `json:"only,omitempty"`  // execute exactly this case index (replay)
	Until *int     `json:"until,omitempty"` // execute case indices <= Until (replay of stateful batches)
	C15   *c15Spec `json:"c15,omitempty"`
	C16   *c16Spec `json:"c16,omitempty"`
	C17   *c17Spec `json:"c17,omitempty"`
}

type job struct {
	name string
	spec childSpec
	// onCrash is called when the child died while executing `last`; nil = record
	// a violation "child-crash".
	onCrash func(pr *parentRec, name string, last *line, info string)
}

const (
	exitHang = 96
	exitRSS  = 97
)

func engineBinary() string {
	if b := os.Getenv("VERIF_BIN"); b != "" {
		return b
	}
	b, err := os.Executable()
	if err != nil {
		panic(err)
	}
	return b
}

// runJobs executes the jobs in child processes, par at a time.
func runJobs(pr *parentRec, jobs []job, par int, idle time.Duration) {
	sem := make(chan struct{}, par)
	var wg sync.WaitGroup
	for ji := range jobs {
		wg.Add(1)
		sem <- struct{}{}
		go func(j job, ji int) {
			defer wg.Done()
			defer func() { <-sem }()
			runJob(pr, j, ji, idle)
		}(jobs[ji], ji)
	}
	wg.Wait()
}

func runJob(pr *parentRec, j job, ji int, idle time.Duration) {
	restarts := 0
	for {
		specPath := filepath.Join(pr.Dir, fmt.Sprintf("job-%d-%d.json", ji, restarts))
		j.spec.Dir = filepath.Join(pr.Dir, fmt.Sprintf("job-%d-%d", ji, restarts))
		_ = os.MkdirAll(j.spec.Dir, 0o755)
		b, _ := json.Marshal(j.spec)
		if err := os.WriteFile(specPath, b, 0o644); err != nil {
			pr.Inconclusive("cannot write child spec: " + err.Error())
			return
		}
		cmd := exec.Command(engineBinary(), "-child", specPath)
		cmd.Env = append(os.Environ(), "TMPDIR="+j.spec.Dir)
		stderrPath := specPath + ".stderr"
		ef, _ := os.Create(stderrPath)
		cmd.Stderr = ef
		out, err := cmd.StdoutPipe()
		if err != nil {
			pr.Inconclusive("child pipe: " + err.Error())
			return
		}
		if err := cmd.Start(); err != nil {
			pr.Inconclusive("child start: " + err.Error())
			return
		}
		var last *line
		done := false
		progress := make(chan struct{}, 1)
		readerDone := make(chan struct{})
		go func() {
			defer close(readerDone)
			sc := bufio.NewScanner(out)
			sc.Buffer(make([]byte, 1<<20), 64<<20)
			for sc.Scan() {
				var l line
				if err := json.Unmarshal(sc.Bytes(), &l); err != nil {
					continue
				}
				select {
				case progress <- struct{}{}:
				default:
				}
				switch l.T {
				case "case":
					lc := l
					last = &lc
				case "eval":
					pr.Eval(l.S)
				case "dist":
					pr.Distinct(l.S)
				case "count":
					pr.Count(l.K, l.N)
				case "seen":
					pr.Seen(l.K, l.M)
				case "max":
					pr.Max(l.K, l.N)
				case "sample":
					pr.Sample(append(json.RawMessage(nil), l.X...))
				case "viol":
					// keep the witness verbatim (uint64 seeds must not pass through float64)
					pr.Violation(l.S, l.W, append(json.RawMessage(nil), l.X...))
				case "inc":
					pr.Inconclusive(j.name + ": " + l.W)
				case "done":
					done = true
				}
			}
		}()
		killedIdle := false
	wait:
		for {
			select {
			case <-readerDone:
				break wait
			case <-progress:
			case <-time.After(idle):
				killedIdle = true
				_ = cmd.Process.Kill()
				<-readerDone
				break wait
			}
		}
		werr := cmd.Wait()
		ef.Close()
		if done && werr == nil {
			return
		}
		code := -1
		if ee, ok := werr.(*exec.ExitError); ok {
			code = ee.ExitCode()
		}
		tail := tailFile(stderrPath, 1500)
		info := fmt.Sprintf("exit=%d err=%v stderr-tail=%q", code, werr, tail)
		switch {
		case killedIdle:
			pr.Inconclusive(fmt.Sprintf("%s: child made no progress for %s (last case %s)", j.name, idle, lastCase(last)))
		case code == exitHang:
			// the child already reported its own watchdog as inconclusive
		case last == nil:
			pr.Inconclusive(fmt.Sprintf("%s: child died before its first case: %s", j.name, info))
			return
		default:
			if code == exitRSS {
				info = "rss-limit-exceeded " + info
			}
			if j.onCrash != nil {
				j.onCrash(pr, j.name, last, info)
			} else {
				pr.Violation("child-crash:"+j.name, "process died while executing a case: "+info, json.RawMessage(last.X))
			}
		}
		if last == nil || j.spec.Only != nil || j.spec.Until != nil {
			return
		}
		restarts++
		if restarts > 12 {
			pr.Inconclusive(j.name + ": too many child restarts")
			return
		}
		j.spec.Start = last.I + 1
	}
}

func lastCase(l *line) string {
	if l == nil {
		return "<none>"
	}
	return string(l.X)
}

func tailFile(path string, n int) string {
	b, err := os.ReadFile(path)
	if err != nil {
		return ""
	}
	if len(b) > n {
		b = b[len(b)-n:]
	}
	return string(b)
}

// ----------------------------------------------------------------- child side

type childSink struct {
	mu sync.Mutex
	w  *bufio.Writer
}

func (c *childSink) emit(l line, flush bool) {
	b, _ := json.Marshal(l)
	c.mu.Lock()
	c.w.Write(b)
	c.w.WriteByte('\n')
	if flush {
		c.w.Flush()
	}
	c.mu.Unlock()
}
func raw(v any) json.RawMessage { b, _ := json.Marshal(v); return b }

func (c *childSink) Eval(sig string)             { c.emit(line{T: "eval", S: sig}, false) }
func (c *childSink) Distinct(sig string)         { c.emit(line{T: "dist", S: sig}, false) }
func (c *childSink) Count(name string, by int64) { c.emit(line{T: "count", K: name, N: by}, false) }
func (c *childSink) Seen(set, member string)     { c.emit(line{T: "seen", K: set, M: member}, false) }
func (c *childSink) Sample(s any)                { c.emit(line{T: "sample", X: raw(s)}, false) }
func (c *childSink) Max(name string, v int64)    { c.emit(line{T: "max", K: name, N: v}, false) }
func (c *childSink) Inconclusive(why string)     { c.emit(line{T: "inc", W: why}, true) }
func (c *childSink) Case(i int, d any)           { c.emit(line{T: "case", I: i, X: raw(d)}, true) }
func (c *childSink) Violation(signature, what string, witness any) {
	c.emit(line{T: "viol", S: signature, W: what, X: raw(witness)}, true)
}
func (c *childSink) done() { c.emit(line{T: "done"}, true) }

func rssBytes() int64 {
	b, err := os.ReadFile("/proc/self/statm")
	if err != nil {
		return 0
	}
	f := strings.Fields(string(b))
	if len(f) < 2 {
		return 0
	}
	pages, _ := strconv.ParseInt(f[1], 10, 64)
	return pages * int64(os.Getpagesize())
}

const (
	childSoftMemLimit = 2 << 30 // GC target (debug.SetMemoryLimit)
	childHardRSSLimit = 6 << 30 // the watchdog kills the child above this resident size
)

func runChild(specPath string) {
	b, err := os.ReadFile(specPath)
	if err != nil {
		fmt.Fprintln(os.Stderr, "child: cannot read spec:", err)
		os.Exit(3)
	}
	var spec childSpec
	if err := json.Unmarshal(b, &spec); err != nil {
		fmt.Fprintln(os.Stderr, "child: bad spec:", err)
		os.Exit(3)
	}
	vkit.QuietLogs()
	_ = os.Setenv("TMPDIR", spec.Dir)
	sink := &childSink{w: bufio.NewWriterSize(os.Stdout, 1<<16)}
	// Memory protection (a corrupted length field can make a reader allocate
	// gigabytes): soft GC limit plus a resident-set watchdog. RLIMIT_AS is not
	// used because the Go runtime's address-space reservations make it misfire.
	debug.SetMemoryLimit(childSoftMemLimit)
	var peak int64
	go func() {
		for {
			time.Sleep(25 * time.Millisecond)
			if v := rssBytes(); v > peak {
				peak = v
				if v > childHardRSSLimit {
					sink.Max("child_peak_rss_mib", v>>20)
					sink.mu.Lock()
					sink.w.Flush()
					os.Exit(exitRSS)
				}
			}
		}
	}()
	if pf := os.Getenv("VERIF_PROF"); pf != "" {
		if f, err := os.Create(pf); err == nil {
			_ = pprof.StartCPUProfile(f)
			defer pprof.StopCPUProfile()
		}
	}
	switch spec.Prop {
	case "C15":
		c15Child(sink, &spec)
	case "C16":
		c16Child(sink, &spec)
	case "C17":
		c17Child(sink, &spec)
	default:
		fmt.Fprintln(os.Stderr, "child: unknown prop", spec.Prop)
		os.Exit(3)
	}
	sink.Max("child_peak_rss_mib", peak>>20)
	sink.done()
	pprof.StopCPUProfile()
	os.Exit(0)
}

// hang terminates a child whose case did not finish within the watchdog.
func hang(rec recorder, what string) {
	rec.Inconclusive("watchdog: " + what)
	if cs, ok := rec.(*childSink); ok {
		cs.mu.Lock()
		cs.w.Flush()
		os.Exit(exitHang)
	}
}

// withWatchdog runs f; if it does not return within d the run is inconclusive
// (never a violation: wall clock only appears in watchdogs).
func withWatchdog(rec recorder, d time.Duration, what string, f func()) {
	doneCh := make(chan struct{})
	go func() { defer close(doneCh); f() }()
	select {
	case <-doneCh:
	case <-time.After(d):
		hang(rec, what)
		<-doneCh
	}
}

// selected reports whether case index i is to be executed under spec.
func (s *childSpec) selected(i int) bool {
	if i < s.Start {
		return false
	}
	if s.Only != nil && i != *s.Only {
		return false
	}
	if s.Until != nil && i > *s.Until {
		return false
	}
	return true
}
