package main

import (
	"bytes"
	"context"
	"encoding/binary"
	"encoding/json"
	"fmt"
	"io"
	"os"
	"strings"
	"time"

	"github.com/jdillenkofer/pithos/internal/storage/database"
	"github.com/jdillenkofer/pithos/internal/storage/metadatapart/partstore"
	"github.com/jdillenkofer/pithos/internal/verif/vkit"
)

// C16: encrypted parts are tamper-evident, seekable and confidential at rest.
//
// Stored format (re-stated from tink.go / seekable.go; the monitor checks that
// the stored file really has this shape before aiming mutations at it):
//
//	[32-byte compression header when a compression layer sits below tink]
//	uint32 BE headerLen | JSON part header | tink stream header (1+32+7 = 40 B) |
//	segment 0 (css-40 B incl. 16 B tag) | segment j (css B incl. tag) ... | last segment (shorter)
const (
	tinkCSS        = 128 * 1024
	tinkHdr        = 40
	tinkTag        = 16
	tinkFirstPlain = tinkCSS - tinkHdr - tinkTag // plaintext capacity of segment 0
	tinkPlain      = tinkCSS - tinkTag           // plaintext capacity of later segments
)

func tinkSegments(n int) int {
	if n <= tinkFirstPlain {
		return 1
	}
	return 1 + (n-tinkFirstPlain+tinkPlain-1)/tinkPlain
}

type c16Spec struct {
	Stack string `json:"stack"`
}

var c16Stacks = []string{"tink>fs", "tinkpq>fs", "tink>sql", "tinkpq>sql", "tink>zstd>fs"}

type c16Case struct {
	Stack    string `json:"stack"`
	Idx      int    `json:"idx"`
	LenIdx   int    `json:"len_idx"`
	N        int    `json:"plaintext_len"`
	DataSeed uint64 `json:"data_seed"`
	Phase    string `json:"phase"`
	Family   string `json:"family,omitempty"`
	Sub      string `json:"sub,omitempty"`
	Class    string `json:"class,omitempty"`
	Desc     string `json:"desc,omitempty"`
	Path     string `json:"reader_path,omitempty"`
}

func c16Lengths(tier string, rg *vkit.Rand) []int {
	fs, ps := tinkFirstPlain, tinkPlain
	l := []int{0, 1, 2, 15, 16, 17, 37, 1000, fs - 1, fs, fs + 1, fs + ps - 1, fs + ps, fs + ps + 1, fs + 2*ps - 1, fs + 2*ps, fs + 2*ps + 1}
	np, hi := 2, 3*ps
	if tier == "thorough" {
		for k := 3; k <= 8; k++ {
			l = append(l, fs+k*ps-1, fs+k*ps, fs+k*ps+1)
		}
		np, hi = 20, 9*ps
	}
	for i := 0; i < np; i++ {
		l = append(l, 2+rg.Intn(hi))
	}
	return l
}

// ---- raw access to the stored bytes below the encryption layer

type rawAccess interface {
	read(id partstore.PartId) ([]byte, error)
	write(id partstore.PartId, b []byte) error
	remove(id partstore.PartId) error
}

type fsRaw struct{ dir string }

func (f fsRaw) read(id partstore.PartId) ([]byte, error) { return os.ReadFile(fsPath(f.dir, id)) }
func (f fsRaw) write(id partstore.PartId, b []byte) error {
	return os.WriteFile(fsPath(f.dir, id), b, 0o600)
}
func (f fsRaw) remove(id partstore.PartId) error { return os.Remove(fsPath(f.dir, id)) }

type sqlRaw struct {
	db   database.Database
	leaf partstore.PartStore
}

func (s sqlRaw) read(id partstore.PartId) (b []byte, err error) {
	err = inTx(s.db, true, func(ctx context.Context, tx database.Tx) error {
		rc, e := s.leaf.GetPart(ctx, tx, id)
		if e != nil {
			return e
		}
		b, e = readAllClose(rc)
		return e
	})
	return
}
func (s sqlRaw) write(id partstore.PartId, b []byte) error {
	return inTx(s.db, false, func(ctx context.Context, tx database.Tx) error {
		return s.leaf.PutPart(ctx, tx, id, bytes.NewReader(b))
	})
}
func (s sqlRaw) remove(id partstore.PartId) error {
	return inTx(s.db, false, func(ctx context.Context, tx database.Tx) error { return s.leaf.DeletePart(ctx, tx, id) })
}

type tinkLayout struct {
	base    int // start of the tink part blob inside the raw file
	hdrLen  int
	jsonOff int
	ctOff   int      // tink stream header
	segs    [][2]int // absolute [start,end) of every segment (ciphertext incl. tag)
}

func parseTinkLayout(rawb []byte, n, base int) (tinkLayout, error) {
	var l tinkLayout
	l.base = base
	if len(rawb) < base+4 {
		return l, fmt.Errorf("stored part shorter than its length prefix")
	}
	l.hdrLen = int(binary.BigEndian.Uint32(rawb[base:]))
	l.jsonOff = base + 4
	l.ctOff = l.jsonOff + l.hdrLen
	if l.hdrLen <= 0 || l.ctOff > len(rawb) {
		return l, fmt.Errorf("implausible header length %d", l.hdrLen)
	}
	var hdr map[string]any
	if err := json.Unmarshal(rawb[l.jsonOff:l.ctOff], &hdr); err != nil {
		return l, fmt.Errorf("part header is not JSON: %v", err)
	}
	if ss, _ := hdr["segmentSize"].(float64); int(ss) != tinkCSS {
		return l, fmt.Errorf("segmentSize %v != %d", hdr["segmentSize"], tinkCSS)
	}
	t := len(rawb) - l.ctOff
	nseg := tinkSegments(n)
	if t != tinkHdr+n+tinkTag*nseg {
		return l, fmt.Errorf("ciphertext length %d != 40+%d+16*%d", t, n, nseg)
	}
	if int(rawb[l.ctOff]) != tinkHdr {
		return l, fmt.Errorf("tink header length byte %d", rawb[l.ctOff])
	}
	for j := 0; j < nseg; j++ {
		a := j * tinkCSS
		if j == 0 {
			a = tinkHdr
		}
		b := (j + 1) * tinkCSS
		if b > t {
			b = t
		}
		l.segs = append(l.segs, [2]int{l.ctOff + a, l.ctOff + b})
	}
	return l, nil
}

type mutation struct {
	Family string
	Sub    string
	Class  string // H = confined to the plaintext part header, C = ciphertext region, L = stored length changed, X = other part id
	Desc   string
	apply  func(rawb []byte) []byte
	cross  string // "", "other-part", "absent-id"
}

func xorAt(off int, mask byte) func([]byte) []byte {
	return func(b []byte) []byte { o := append([]byte{}, b...); o[off] ^= mask; return o }
}

func nzMask(rg *vkit.Rand) byte {
	for {
		m := byte(rg.Uint64())
		if m != 0 && m != 1 {
			return m
		}
	}
}

func c16Mutations(l tinkLayout, rawb []byte, n int, detail, huge, slowStore bool, sampleN int, rg *vkit.Rand) []mutation {
	var ms []mutation
	flip := func(fam, sub, class string, off int, mask byte) {
		ms = append(ms, mutation{Family: fam, Sub: sub, Class: class, Desc: fmt.Sprintf("xor off=%d mask=0x%02x", off, mask), apply: xorAt(off, mask)})
	}
	// (1) JSON part header
	if detail {
		for o := l.jsonOff; o < l.ctOff; o++ {
			if !slowStore || o%2 == 0 {
				flip("flip", "json-header", "H", o, 0x01)
			}
			if !slowStore || o%2 == 1 {
				flip("flip", "json-header", "H", o, nzMask(rg))
			}
		}
	} else {
		for i := 0; i < sampleN; i++ {
			flip("flip", "json-header", "H", l.jsonOff+rg.Intn(l.hdrLen), []byte{0x01, 0x20, nzMask(rg)}[i%3])
		}
		flip("flip", "json-header", "H", l.jsonOff, 0x01)
		flip("flip", "json-header", "H", l.ctOff-1, 0x01)
	}
	// (2) length prefix
	// The most significant byte scales the header allocation by 16 MiB per bit:
	// tink.go allocates make([]byte, headerLen) unchecked. Gigabyte-sized values
	// are not driven (paging in that much fresh memory takes minutes in this
	// sandbox); 256 MiB is driven once per stack in the thorough tier.
	for o := l.base; o < l.base+4; o++ {
		masks := []byte{0x01, 0x80, nzMask(rg)}
		if o == l.base {
			masks = []byte{0x01}
			if detail {
				masks = append(masks, 0x02)
				if huge {
					masks = append(masks, 0x10) // 256 MiB header allocation
				}
			}
		}
		for _, m := range masks {
			flip("flip", "length-prefix", "H", o, m)
		}
	}
	// (3) tink stream header
	if detail {
		for o := l.ctOff; o < l.ctOff+tinkHdr; o++ {
			flip("flip", "tink-header", "C", o, 0x01)
			flip("flip", "tink-header", "C", o, nzMask(rg))
		}
	} else {
		for _, d := range []int{0, 1, 17, 32, 33, 39} {
			flip("flip", "tink-header", "C", l.ctOff+d, nzMask(rg))
		}
	}
	// (4) first / last byte of every segment body and of every tag
	for _, s := range l.segs {
		a, b := s[0], s[1]
		if b-a > tinkTag {
			flip("flip", "segment-data", "C", a, 0x01)
			flip("flip", "segment-data", "C", b-tinkTag-1, nzMask(rg))
		}
		flip("flip", "segment-tag", "C", b-tinkTag, nzMask(rg))
		flip("flip", "segment-tag", "C", b-1, 0x01)
	}
	for i := 0; i < 6; i++ {
		flip("flip", "ciphertext-random", "C", l.ctOff+tinkHdr+rg.Intn(len(rawb)-l.ctOff-tinkHdr), nzMask(rg))
	}
	// (5) truncations
	type tr struct {
		at  int
		sub string
	}
	trs := []tr{{0, "to-zero-bytes"}, {l.base, "to-zero-bytes-of-tink-blob"}, {l.base + 2, "inside-length-prefix"}, {l.base + 4, "after-length-prefix"},
		{l.jsonOff + l.hdrLen/2, "inside-json-header"}, {l.ctOff, "at-ciphertext-start"}, {l.ctOff + 1, "inside-tink-header"}, {l.ctOff + tinkHdr - 1, "inside-tink-header"},
		{l.ctOff + tinkHdr, "after-tink-header"}, {l.ctOff + tinkHdr + 1, "inside-first-tag"}, {l.ctOff + tinkHdr + tinkTag - 1, "inside-first-tag"},
		{l.ctOff + tinkHdr + tinkTag, "to-tink-header-plus-one-tag"}, {l.ctOff + tinkHdr + tinkTag + 1, "mid-segment"}}
	for j := 1; j < len(l.segs); j++ {
		bnd := l.segs[j][0]
		trs = append(trs, tr{bnd - 1, "segment-boundary-minus-1"}, tr{bnd, "at-segment-boundary"}, tr{bnd + 1, "segment-boundary-plus-1..15"}, tr{bnd + tinkTag - 1, "segment-boundary-plus-1..15"},
			tr{bnd + tinkTag, "segment-boundary-plus-16"}, tr{bnd + tinkTag + 1, "mid-segment"})
	}
	trs = append(trs, tr{len(rawb) - 1, "last-byte-removed"}, tr{len(rawb) - tinkTag, "last-tag-removed"}, tr{len(rawb) - tinkTag - 1, "mid-segment"},
		tr{l.ctOff + tinkHdr + rg.Intn(len(rawb)-l.ctOff-tinkHdr), "random-point"})
	seenTr := map[int]bool{}
	for _, t := range trs {
		if t.at < 0 || t.at >= len(rawb) || seenTr[t.at] {
			continue
		}
		seenTr[t.at] = true
		at := t.at
		ms = append(ms, mutation{Family: "truncate", Sub: t.sub, Class: "L", Desc: fmt.Sprintf("truncate stored %d -> %d bytes", len(rawb), at),
			apply: func(b []byte) []byte { return append([]byte{}, b[:at]...) }})
	}
	// (6) extensions
	ext := func(sub, desc string, tail func(b []byte) []byte) {
		ms = append(ms, mutation{Family: "extend", Sub: sub, Class: "L", Desc: desc, apply: func(b []byte) []byte { return append(append([]byte{}, b...), tail(b)...) }})
	}
	rb := rg.Bytes(16)
	ext("1-byte", "append 0x00", func([]byte) []byte { return []byte{0} })
	ext("1-byte", fmt.Sprintf("append 0x%02x", rb[0]|1), func([]byte) []byte { return []byte{rb[0] | 1} })
	ext("16-bytes", "append 16 PRNG bytes", func([]byte) []byte { return rb })
	last := l.segs[len(l.segs)-1]
	ext("copied-segment", "append a copy of the last segment", func(b []byte) []byte { return b[last[0]:last[1]] })
	ext("copied-segment", "append a copy of the first segment", func(b []byte) []byte { return b[l.segs[0][0]:l.segs[0][1]] })
	// (7) reorder / duplicate / drop whole segments (re-concatenated)
	rebuild := func(order []int) func(b []byte) []byte {
		return func(b []byte) []byte {
			o := append([]byte{}, b[:l.segs[0][0]]...)
			for _, j := range order {
				o = append(o, b[l.segs[j][0]:l.segs[j][1]]...)
			}
			return o
		}
	}
	ident := func() []int {
		o := make([]int, len(l.segs))
		for i := range o {
			o[i] = i
		}
		return o
	}
	if k := len(l.segs); k >= 2 {
		pairs := [][2]int{{0, 1}, {k - 2, k - 1}}
		if k >= 3 {
			pairs = append(pairs, [2]int{1, 2}, [2]int{0, k - 1})
		}
		seenP := map[[2]int]bool{}
		for _, p := range pairs {
			if seenP[p] {
				continue
			}
			seenP[p] = true
			o := ident()
			o[p[0]], o[p[1]] = o[p[1]], o[p[0]]
			ms = append(ms, mutation{Family: "swap-segments", Class: "C", Desc: fmt.Sprintf("swap segments %d and %d", p[0], p[1]), apply: rebuild(o)})
			d := ident()
			d[p[1]] = p[0]
			ms = append(ms, mutation{Family: "duplicate-segment", Sub: "replace", Class: "C", Desc: fmt.Sprintf("segment %d replaced by a copy of segment %d", p[1], p[0]), apply: rebuild(d)})
		}
		for _, j := range []int{0, k / 2, k - 1} {
			ins := append(append(append([]int{}, ident()[:j+1]...), j), ident()[j+1:]...)
			ms = append(ms, mutation{Family: "duplicate-segment", Sub: "insert", Class: "L", Desc: fmt.Sprintf("segment %d inserted twice", j), apply: rebuild(ins)})
			if k >= 2 {
				drop := append(append([]int{}, ident()[:j]...), ident()[j+1:]...)
				ms = append(ms, mutation{Family: "drop-segment", Class: "L", Desc: fmt.Sprintf("segment %d removed", j), apply: rebuild(drop)})
			}
		}
	} else {
		ms = append(ms, mutation{Family: "duplicate-segment", Sub: "insert", Class: "L", Desc: "segment 0 inserted twice", apply: rebuild([]int{0, 0})})
	}
	// (8) ciphertext of part A presented under another part id
	ms = append(ms, mutation{Family: "cross-id", Sub: "other-part", Class: "X", Desc: "stored bytes of part A written under the id of part B (same length)", cross: "other-part"})
	ms = append(ms, mutation{Family: "cross-id", Sub: "absent-id", Class: "X", Desc: "stored bytes of part A written under a never-written id", cross: "absent-id"})
	return ms
}

type c16ctx struct {
	rec   recorder
	spec  *childSpec
	stack string
	db    database.Database
	ps    partstore.PartStore
	raw   rawAccess
	base  int
	txFree bool
	idx   int
	rot   int
}

func (c *c16ctx) do(d c16Case, f func(d c16Case)) {
	i := c.idx
	c.idx++
	if !c.spec.selected(i) {
		return
	}
	d.Idx = i
	d.Stack = c.stack
	c.rec.Case(i, d)
	c.rec.Eval(fmt.Sprintf("%s|n=%d|%s|%s|%s|%s", c.stack, d.N, d.Phase, d.Family, d.Sub, d.Desc))
	withWatchdog(c.rec, 120*time.Second, fmt.Sprintf("C16 case %d on %s", i, c.stack), func() { f(d) })
}

// withReader opens the part in the given read mode and hands the reader to f.
func (c *c16ctx) withReader(id partstore.PartId, mode string, f func(rc io.ReadCloser) error) error {
	if mode == "nil" {
		rc, err := c.ps.GetPart(bg, nil, id)
		if err != nil {
			return err
		}
		defer rc.Close()
		return f(rc)
	}
	return inTx(c.db, true, func(ctx context.Context, tx database.Tx) error {
		rc, err := c.ps.GetPart(ctx, tx, id)
		if err != nil {
			return err
		}
		defer rc.Close()
		return f(rc)
	})
}

func (c *c16ctx) nextMode() string {
	c.rot++
	if c.txFree && c.rot%2 == 0 {
		return "nil"
	}
	return "rotx"
}

func (c *c16ctx) readAll(id partstore.PartId, mode string) (data []byte, seekable bool, err error) {
	defer func() {
		if p := recover(); p != nil {
			err = fmt.Errorf("PANIC: %v", p)
		}
	}()
	err = c.withReader(id, mode, func(rc io.ReadCloser) error {
		_, seekable = rc.(io.Seeker)
		var e error
		data, e = io.ReadAll(rc)
		return e
	})
	return
}

type seekStep struct {
	Whence int   `json:"whence"`
	Off    int64 `json:"off"`
	Read   int   `json:"read"`
}

// runSeeks executes the steps on one reader and compares with the plaintext.
func (c *c16ctx) runSeeks(id partstore.PartId, mode string, P []byte, steps []seekStep, d c16Case) {
	n := int64(len(P))
	pos := int64(0)
	fail := func(sig, what string) {
		c.rec.Violation("seekable/"+sig, what, map[string]any{"case": d, "steps": steps, "read_mode": mode})
	}
	err := c.withReader(id, mode, func(rc io.ReadCloser) error {
		s, ok := rc.(io.Seeker)
		if !ok {
			return fmt.Errorf("reader is not seekable")
		}
		for si, st := range steps {
			var abs int64
			switch st.Whence {
			case io.SeekStart:
				abs = st.Off
			case io.SeekCurrent:
				abs = pos + st.Off
			case io.SeekEnd:
				abs = n + st.Off
			}
			got, err := s.Seek(st.Off, st.Whence)
			if err != nil {
				fail("seek-error", fmt.Sprintf("step %d: Seek(%d,%d) to absolute offset %d of a %d-byte part failed: %v", si, st.Off, st.Whence, abs, n, err))
				return nil
			}
			if abs > n {
				// beyond the end is not "an offset of the part": only the (empty)
				// suffix is checked, a clamped position is accepted
				if got < n {
					fail("seek-position", fmt.Sprintf("step %d: Seek(%d,%d) beyond the end returned %d, inside the %d-byte part", si, st.Off, st.Whence, got, n))
					return nil
				}
				abs = got
			} else if got != abs {
				fail("seek-position", fmt.Sprintf("step %d: Seek(%d,%d) returned %d, expected %d", si, st.Off, st.Whence, got, abs))
				return nil
			}
			pos = abs
			c.rec.Count("seeks", 1)
			if st.Read > 0 {
				buf := make([]byte, st.Read)
				k, rerr := io.ReadFull(rc, buf)
				if rerr != nil && rerr != io.EOF && rerr != io.ErrUnexpectedEOF {
					fail("read-error-after-seek", fmt.Sprintf("step %d: read after seek to %d failed: %v", si, abs, rerr))
					return nil
				}
				var want []byte
				if pos < n {
					e := pos + int64(st.Read)
					if e > n {
						e = n
					}
					want = P[pos:e]
				}
				if !bytes.Equal(buf[:k], want) {
					fail("wrong-bytes-after-seek", fmt.Sprintf("step %d: %d bytes read at offset %d differ from plaintext[%d:%d] (got %d bytes, first diff %d)", si, st.Read, pos, pos, pos+int64(len(want)), k, firstDiff(buf[:k], want)))
					return nil
				}
				pos += int64(k)
			}
		}
		rest, rerr := io.ReadAll(rc)
		if rerr != nil {
			fail("read-error-after-seek", fmt.Sprintf("ReadAll from offset %d failed: %v", pos, rerr))
			return nil
		}
		var want []byte
		if pos < n {
			want = P[pos:]
		}
		if !bytes.Equal(rest, want) {
			fail("wrong-suffix-after-seek", fmt.Sprintf("suffix from offset %d: got %d bytes, want %d (first diff %d)", pos, len(rest), len(want), firstDiff(rest, want)))
		}
		return nil
	})
	if err != nil {
		fail("open-error", "cannot open untampered part for seeking: "+errStr(err))
	}
}

func seekOffsets(n int, rg *vkit.Rand) []int {
	if n <= 64 {
		o := make([]int, 0, n+3)
		for i := 0; i <= n+2; i++ {
			o = append(o, i)
		}
		return o
	}
	set := map[int]bool{0: true, 1: true, n - 1: true, n: true, n + 1: true, n / 2: true}
	for b := tinkFirstPlain; b <= n+1; b += tinkPlain {
		set[b-1], set[b], set[b+1] = true, true, true
	}
	for i := 0; i < 6; i++ {
		set[rg.Intn(n)] = true
	}
	var o []int
	for k := range set {
		if k >= 0 && k <= n+2 {
			o = append(o, k)
		}
	}
	sortInts(o)
	return o
}

func sortInts(a []int) {
	for i := 1; i < len(a); i++ {
		for j := i; j > 0 && a[j-1] > a[j]; j-- {
			a[j-1], a[j] = a[j], a[j-1]
		}
	}
}

func randomSeekSeq(n int, rg *vkit.Rand) []seekStep {
	k := 1 + rg.Intn(6)
	pos := 0
	var steps []seekStep
	bnd := []int{0, n, tinkFirstPlain, tinkFirstPlain + tinkPlain, tinkFirstPlain + 2*tinkPlain}
	for i := 0; i < k; i++ {
		var target int
		switch rg.Intn(3) {
		case 0:
			target = rg.Intn(n + 2)
		case 1:
			target = bnd[rg.Intn(len(bnd))] + rg.Intn(3) - 1
		default:
			target = pos + rg.Intn(2001) - 1000
		}
		if target < 0 {
			target = 0
		}
		if target > n {
			target = n
		}
		st := seekStep{}
		switch rg.Intn(3) {
		case 0:
			st.Whence, st.Off = io.SeekStart, int64(target)
		case 1:
			st.Whence, st.Off = io.SeekCurrent, int64(target-pos)
		default:
			st.Whence, st.Off = io.SeekEnd, int64(target-n)
		}
		pos = target
		if rg.Chance(70) {
			st.Read = 1 + rg.Intn(5000)
			if rg.Chance(15) {
				st.Read = 1 + rg.Intn(140000)
			}
			adv := st.Read
			if pos >= n {
				adv = 0
			} else if pos+adv > n {
				adv = n - pos
			}
			pos += adv
		}
		steps = append(steps, st)
	}
	return steps
}

// plaintextWindowInStored reports the first offset i such that P[i:i+32] occurs
// anywhere in the stored bytes (-1 if none).
func plaintextWindowInStored(P, stored []byte) int {
	if len(P) < 32 || len(stored) < 32 {
		return -1
	}
	idx := make(map[uint64][]int32, len(stored))
	for i := 0; i+32 <= len(stored); i++ {
		k := binary.LittleEndian.Uint64(stored[i:])
		idx[k] = append(idx[k], int32(i))
	}
	for i := 0; i+32 <= len(P); i++ {
		for _, j := range idx[binary.LittleEndian.Uint64(P[i:])] {
			if bytes.Equal(P[i:i+32], stored[j:int(j)+32]) {
				return i
			}
		}
	}
	return -1
}

// c16Signature classifies an undetected mutation. A few narrow (reader path,
// mutation place, outcome) classes get a root-cause name; everything else keeps
// the fully detailed signature, so an unknown failure can never hide behind a
// recorded one.
func c16Signature(path string, m mutation, n, gotLen int, out string) string {
	detailed := fmt.Sprintf("%s/%s:%s/%s", path, m.Family, m.Sub, out)
	if n == 0 {
		detailed += "/empty-plaintext"
	}
	if m.Family == "truncate" && gotLen == 0 {
		switch m.Sub {
		case "to-zero-bytes", "to-zero-bytes-of-tink-blob", "after-length-prefix":
			// the stored blob ends before / inside the part header: bare io.EOF of io.ReadFull
			return path + "/cut-inside-part-header-reads-as-clean-eof"
		case "at-ciphertext-start", "after-tink-header":
			if path == "sequential" {
				return "sequential/cut-at-or-after-tink-stream-header-reads-as-clean-eof"
			}
		case "to-tink-header-plus-one-tag":
			if path == "seekable" {
				return "seekable/zero-length-plaintext-never-authenticated"
			}
		}
	}
	if path == "seekable" && m.Family == "flip" && m.Class == "C" && n == 0 && gotLen == 0 {
		return "seekable/zero-length-plaintext-never-authenticated"
	}
	if m.Family == "truncate" && out == "prefix-returned" && (m.Sub == "segment-boundary-plus-1..15" || m.Sub == "segment-boundary-plus-16") {
		if path == "seekable" {
			return "seekable/trailing-partial-segment-not-authenticated-prefix-returned"
		}
		if m.Sub == "segment-boundary-plus-1..15" {
			return "sequential/cut-one-byte-past-segment-boundary-prefix-returned"
		}
	}
	return detailed
}

func outcomeOf(got, P []byte) string {
	switch {
	case bytes.Equal(got, P):
		return "same-plaintext"
	case len(got) == 0:
		return "empty-returned"
	case len(got) < len(P) && bytes.Equal(got, P[:len(got)]):
		return "prefix-returned"
	default:
		return "other-bytes"
	}
}

func (c *c16ctx) runLength(li, n int, detail bool, tier string, rgAll *vkit.Rand) {
	rg := rgAll.Fork(fmt.Sprintf("len-%d-%d", li, n))
	dataSeed := rg.Uint64()
	P := vkit.NewRand(dataSeed).Bytes(n)
	P2 := vkit.NewRand(dataSeed ^ 0x77).Bytes(n)
	idA, idB, idZ := newID(rg), newID(rg), newID(rg)
	base := c16Case{LenIdx: li, N: n, DataSeed: dataSeed}
	put := func(id partstore.PartId, b []byte) error {
		return inTx(c.db, false, func(ctx context.Context, tx database.Tx) error { return c.ps.PutPart(ctx, tx, id, bytes.NewReader(b)) })
	}
	if err := put(idA, P); err != nil {
		c.rec.Inconclusive("setup PutPart failed: " + err.Error())
		return
	}
	if err := put(idB, P2); err != nil {
		c.rec.Inconclusive("setup PutPart failed: " + err.Error())
		return
	}
	rawA, err := c.raw.read(idA)
	if err != nil {
		c.rec.Inconclusive("cannot read stored bytes: " + err.Error())
		return
	}
	rawB, _ := c.raw.read(idB)
	c.rec.Seen("plaintext_lengths", fmt.Sprint(n))
	tbase := c.base
	mutable := true
	if c.base == 32 {
		if len(rawA) < 32 || !bytes.Equal(rawA[:16], compMagic[:]) || rawA[17] != 0 {
			mutable = false // the compression layer below tink compressed the ciphertext blob
			c.rec.Count("lengths_stored_compressed_not_mutated", 1)
		}
	}
	var lay tinkLayout
	if mutable {
		lay, err = parseTinkLayout(rawA, n, tbase)
		if err != nil {
			c.rec.Inconclusive(fmt.Sprintf("stored layout of a %d-byte part on %s differs from the documented format: %v", n, c.stack, err))
			return
		}
		c.rec.Seen("segments_per_part", fmt.Sprint(len(lay.segs)))
	}
	path := "sequential"

	// ---- (a) untampered round trip + confidentiality smoke test
	d := base
	d.Phase = "roundtrip"
	c.do(d, func(d c16Case) {
		modes := []string{"rotx"}
		if c.txFree {
			modes = append(modes, "nil")
		}
		for _, m := range modes {
			got, _, err := c.readAll(idA, m)
			if err != nil || !bytes.Equal(got, P) {
				c.rec.Violation("roundtrip:"+c.stack, fmt.Sprintf("untampered read (%s) of a %d-byte part: err=%v, %d bytes, first diff %d", m, n, err, len(got), firstDiff(got, P)), map[string]any{"case": d})
			}
			c.rec.Count("untampered_full_reads", 1)
		}
		if w := plaintextWindowInStored(P, rawA); w >= 0 {
			c.rec.Violation("plaintext-at-rest:"+c.stack, fmt.Sprintf("plaintext[%d:%d] occurs verbatim in the stored bytes", w, w+32), map[string]any{"case": d})
		}
		if n >= 32 {
			c.rec.Count("confidentiality_windows_checked", int64(n-31))
		}
	})
	_, seekable, _ := c.readAll(idA, "rotx")
	if seekable {
		path = "seekable"
	}
	c.rec.Seen("reader_paths", c.stack+":"+path)

	// ---- (b) seeking on the untampered part
	if seekable {
		d = base
		d.Phase, d.Path = "seek-sweep", path
		offs := seekOffsets(n, rg)
		c.do(d, func(d c16Case) {
			for k, o := range offs {
				c.runSeeks(idA, c.nextMode(), P, []seekStep{{Whence: io.SeekStart, Off: int64(o)}}, d)
				if k%3 == 0 {
					c.runSeeks(idA, c.nextMode(), P, []seekStep{{Whence: io.SeekEnd, Off: int64(o - n)}}, d)
				}
				if k%4 == 0 && o > 0 {
					c.runSeeks(idA, c.nextMode(), P, []seekStep{{Whence: io.SeekStart, Off: int64(o / 2), Read: 1}, {Whence: io.SeekCurrent, Off: int64(o - o/2 - 1)}}, d)
				}
				c.rec.Count("seek_offsets_checked", 1)
			}
		})
		nseq := 12
		if tier == "thorough" {
			nseq = 60
		}
		for q := 0; q < nseq; q++ {
			steps := randomSeekSeq(n, rg)
			d = base
			d.Phase, d.Path = "seek-sequence", path
			d.Desc = fmt.Sprintf("%v", steps)
			mode := c.nextMode()
			c.do(d, func(d c16Case) {
				c.runSeeks(idA, mode, P, steps, d)
				c.rec.Count("seek_sequences", 1)
				c.rec.Seen("seek_sequence_lengths", fmt.Sprint(len(steps)))
			})
		}
	} else {
		c.rec.Count("lengths_on_non_seekable_reader", 1)
	}

	// ---- (c) mutation catalogue on the stored bytes
	if mutable {
		sampleN := 24
		if tier == "thorough" {
			sampleN = 120
		}
		for _, m := range c16Mutations(lay, rawA, n, detail, tier == "thorough" && n == 37, tier != "thorough" && path == "sequential", sampleN, rg) {
			m := m
			d = base
			d.Phase, d.Family, d.Sub, d.Class, d.Desc, d.Path = "mutation", m.Family, m.Sub, m.Class, m.Desc, path
			mode := c.nextMode()
			prng := rg.Uint64()
			c.do(d, func(d c16Case) {
				target := idA
				var err error
				switch m.cross {
				case "other-part":
					target = idB
					err = c.raw.write(idB, rawA)
				case "absent-id":
					target = idZ
					err = c.raw.write(idZ, rawA)
				default:
					err = c.raw.write(idA, m.apply(rawA))
				}
				if err != nil {
					c.rec.Inconclusive("cannot write mutated bytes: " + err.Error())
					return
				}
				fam := m.Family
				c.rec.Count("mutations_applied:"+fam, 1)
				c.rec.Seen("mutation_kinds", fam+"/"+m.Sub)
				got, _, rerr := c.readAll(target, mode)
				w := map[string]any{"case": d, "read_mode": mode, "got": vkit.Brief(got), "want": vkit.Brief(P)}
				sig := func(out string) string { return c16Signature(path, m, n, len(got), out) }
				switch {
				case rerr != nil && strings.HasPrefix(rerr.Error(), "PANIC"):
					c.rec.Violation(sig("panic"), "reading mutated stored bytes panicked: "+errStr(rerr), w)
				case rerr != nil:
					c.rec.Count("mutations_detected:"+fam, 1)
					c.rec.Seen("rejection_errors", errClass(rerr))
				case m.Class == "H":
					if bytes.Equal(got, P) {
						// ciphertext untouched, nothing false returned: observation
						c.rec.Count("header_mutations_read_back_identical", 1)
						c.rec.Seen("header_mutations_without_effect", m.Sub+":"+m.Desc[strings.Index(m.Desc, "mask"):])
					} else {
						c.rec.Violation(sig(outcomeOf(got, P)), fmt.Sprintf("part-header mutation (%s) made a full read return %d bytes different from the %d-byte plaintext without error", m.Desc, len(got), n), w)
					}
				default:
					c.rec.Violation(sig(outcomeOf(got, P)), fmt.Sprintf("%s (%s) was not detected: full read of the tampered part completed without error (%s, %d of %d bytes)", m.Family+"/"+m.Sub, m.Desc, outcomeOf(got, P), len(got), n), w)
				}
				// partial read at an offset of tampered storage: whatever is returned must be original plaintext
				if seekable && m.cross == "" && n > 0 && (m.Class == "C" || m.Class == "L") {
					o := int64(vkit.NewRand(prng).Intn(n))
					_ = c.withReader(idA, mode, func(rc io.ReadCloser) error {
						s, ok := rc.(io.Seeker)
						if !ok {
							return nil
						}
						if _, e := s.Seek(o, io.SeekStart); e != nil {
							c.rec.Count("tampered_partial_reads_failed", 1)
							return nil
						}
						buf := make([]byte, 4096)
						k, e := io.ReadFull(rc, buf)
						if e != nil && e != io.EOF && e != io.ErrUnexpectedEOF {
							c.rec.Count("tampered_partial_reads_failed", 1)
							return nil
						}
						e2 := o + int64(k)
						if e2 > int64(n) || !bytes.Equal(buf[:k], P[o:e2]) {
							c.rec.Violation(fmt.Sprintf("seekable/%s:%s/partial-read-wrong-bytes", m.Family, m.Sub), fmt.Sprintf("after %s a Seek(%d)+Read returned %d bytes that are not plaintext[%d:...]", m.Desc, o, k, o), w)
						} else {
							c.rec.Count("tampered_partial_reads_correct_slice", 1)
						}
						return nil
					})
				}
				// ONE reader that keeps being used after failed reads: it visits the start of every
				// segment and returns to every earlier one (0,1,0,2,0,1,...). Each Seek+Read either
				// fails or returns original plaintext - also right after a read that failed.
				if seekable && m.cross == "" && n > 0 && (m.Class == "C" || m.Class == "L") {
					segStart := func(j int) int64 {
						if j == 0 {
							return 0
						}
						return int64(tinkFirstPlain + (j-1)*tinkPlain)
					}
					segs := tinkSegments(n)
					if segs > 5 {
						segs = 5
					}
					var visits []int
					for j := 0; j < segs; j++ {
						visits = append(visits, j)
						for i := 0; i < j; i++ {
							visits = append(visits, i)
						}
					}
					_ = c.withReader(idA, mode, func(rc io.ReadCloser) error {
						sk, ok := rc.(io.Seeker)
						if !ok {
							return nil
						}
						failedBefore := false
						for vi, j := range visits {
							o := segStart(j)
							if o >= int64(n) {
								continue
							}
							if _, e := sk.Seek(o, io.SeekStart); e != nil {
								failedBefore = true
								continue
							}
							buf := make([]byte, 96)
							k, e := io.ReadFull(rc, buf)
							if e != nil && e != io.EOF && e != io.ErrUnexpectedEOF {
								failedBefore = true
								c.rec.Count("reused_reader_reads_failed", 1)
								continue
							}
							e2 := o + int64(k)
							if e2 > int64(n) || !bytes.Equal(buf[:k], P[o:e2]) {
								after := "before any failure"
								if failedBefore {
									after = "after an earlier read on the same reader had failed"
								}
								c.rec.Violation(fmt.Sprintf("seekable/%s:%s/reused-reader-wrong-bytes", m.Family, m.Sub), fmt.Sprintf("after %s, visit %d of one reader (segment %d, %s): Seek(%d)+Read returned %d bytes that are not plaintext[%d:...] without error", m.Desc, vi, j, after, o, k, o), w)
								break
							}
							c.rec.Count("reused_reader_reads_correct_slice", 1)
							if failedBefore {
								c.rec.Count("reused_reader_correct_after_failure", 1)
							}
						}
						return nil
					})
				}
				// restore
				switch m.cross {
				case "other-part":
					_ = c.raw.write(idB, rawB)
				case "absent-id":
					_ = c.raw.remove(idZ)
				default:
					_ = c.raw.write(idA, rawA)
				}
			})
		}
		// harness self-check: the restore must give the original part back
		if got, _, err := c.readAll(idA, "rotx"); err != nil || !bytes.Equal(got, P) {
			c.rec.Inconclusive(fmt.Sprintf("restoring the original stored bytes did not restore the part on %s (n=%d): %v", c.stack, n, err))
		}
	}
	_ = inTx(c.db, false, func(ctx context.Context, tx database.Tx) error {
		_ = c.ps.DeletePart(ctx, tx, idA)
		return c.ps.DeletePart(ctx, tx, idB)
	})
}

func errClass(err error) string {
	s := err.Error()
	for _, k := range []string{"decryption failed", "message authentication failed", "unexpected EOF", "invalid character", "cipher", "shorter", "base64", "header", "decapsulate", "part not found", "too short", "EOF"} {
		if strings.Contains(s, k) {
			return k
		}
	}
	if len(s) > 40 {
		s = s[:40]
	}
	return s
}

func c16Child(rec recorder, spec *childSpec) {
	stack := spec.C16.Stack
	env, err := vkit.OpenEnv(spec.Dir + "/env")
	if err != nil {
		rec.Inconclusive("cannot open env: " + err.Error())
		return
	}
	var leaf partstore.PartStore
	leafKind := ""
	env.WrapLeaf = func(kind string, ps partstore.PartStore) partstore.PartStore { leaf, leafKind = ps, kind; return ps }
	ps, err := env.BuildPartStore(stack)
	if err != nil {
		rec.Inconclusive("cannot build " + stack + ": " + err.Error())
		return
	}
	if err := ps.Start(bg); err != nil {
		rec.Inconclusive("cannot start " + stack + ": " + err.Error())
		return
	}
	c := &c16ctx{rec: rec, spec: spec, stack: stack, db: env.DB, ps: ps, txFree: partstore.CapabilitiesOf(ps).Has(partstore.CapabilityTxFreeGetPart)}
	if leafKind == "fs" {
		c.raw = fsRaw{dir: env.FSDirs[0]}
	} else {
		c.raw = sqlRaw{db: env.DB, leaf: leaf}
	}
	if strings.Contains(stack, "tink>zstd") || strings.Contains(stack, "tinkpq>zstd") {
		c.base = 32
	}
	rec.Seen("stacks", stack)
	rgAll := vkit.NewRand(spec.Seed).Fork("c16/" + stack)
	lengths := c16Lengths(spec.Tier, vkit.NewRand(spec.Seed).Fork("c16-lengths"))
	for li, n := range lengths {
		detail := n == 37 || (n == tinkFirstPlain+1 && leafKind == "fs")
		c.runLength(li, n, detail, spec.Tier, rgAll)
	}
	_ = ps.Stop(bg)
	env.Close()
}

func runC16(tier, replay string) {
	r := vkit.Begin("C16", "fault_enumeration", tier)
	pr := newParentRec(r)
	r.SetRule("case = (stack, plaintext length, phase): untampered round trip + plaintext-window search in the stored bytes; seek sweep over all (small) or boundary+-1 (large) offsets with SeekStart/SeekEnd/SeekCurrent; PRNG seek sequences of 1-6 seeks with interleaved reads; one case per mutation of the stored bytes from the catalogue {flip JSON header / length prefix / tink header / first+last byte of every segment and tag / random ciphertext byte, truncate at every structural boundary +-1, extend, swap / duplicate / drop segments, present under another part id}. distinct = distinct (stack,length,phase,mutation) tuples")
	r.Assume("stored format as documented in tink.go/seekable.go; the monitor verifies the layout of every stored part with its own arithmetic before mutating it (mismatch = inconclusive)")
	r.Assume("verdict for mutations confined to the plaintext JSON part header / its length prefix: error = fine, exact original plaintext = observation, other bytes without error = violation; every other mutation must make the full read fail")
	r.Assume("local KMS (scrypt-derived KEK) and the ML-KEM-1024 hybrid path; Vault/AWS/TPM key back ends are not reachable offline")
	r.SetExhaustive(false)
	if replay != "" {
		b, err := os.ReadFile(replay)
		if err != nil {
			fmt.Println("cannot read replay:", err)
			os.Exit(3)
		}
		var w struct {
			Seed    uint64 `json:"seed"`
			Tier    string `json:"tier"`
			Witness struct {
				Case c16Case `json:"case"`
			} `json:"witness"`
		}
		_ = json.Unmarshal(b, &w)
		only := w.Witness.Case.Idx
		runJobs(pr, []job{{name: w.Witness.Case.Stack, spec: childSpec{Prop: "C16", Tier: w.Tier, Seed: w.Seed, Only: &only, C16: &c16Spec{Stack: w.Witness.Case.Stack}}}}, 1, 5*time.Minute)
		if pr.Fired() > 0 {
			fmt.Println("replay: reproduced")
		} else {
			fmt.Println("replay: not reproduced")
		}
		r.Finish()
	}
	var jobs []job
	for _, s := range c16Stacks {
		jobs = append(jobs, job{name: s, spec: childSpec{Prop: "C16", Tier: r.Tier, Seed: r.Seed, C16: &c16Spec{Stack: s}}})
	}
	runJobs(pr, jobs, 5, 4*time.Minute)
	if r.SeenCount("stacks") != len(c16Stacks) {
		r.Inconclusive("not every encryption stack was exercised")
	}
	if r.Counter("seek_offsets_checked") == 0 || r.Counter("mutations_applied:flip") == 0 || r.Counter("mutations_applied:truncate") == 0 {
		r.Inconclusive("seek or mutation phases observed nothing")
	}
	var applied, detected int64
	for _, f := range []string{"flip", "truncate", "extend", "swap-segments", "duplicate-segment", "drop-segment", "cross-id"} {
		applied += r.Counter("mutations_applied:" + f)
		detected += r.Counter("mutations_detected:" + f)
	}
	r.SetExtra("mutations_total", map[string]int64{"applied": applied, "rejected_with_error": detected})
	r.Sample(c16Case{Stack: "tink>fs", N: tinkFirstPlain + 1, Phase: "mutation", Family: "truncate", Sub: "segment-boundary-plus-1..15", Class: "L"})
	r.Sample(c16Case{Stack: "tinkpq>sql", N: 37, Phase: "mutation", Family: "flip", Sub: "json-header", Class: "H", Desc: "xor off=9 mask=0x01"})
	pr.flushMaxes()
	r.Finish()
}
