package main

import (
	"bytes"
	"context"
	"database/sql"
	"encoding/binary"
	"encoding/hex"
	"errors"
	"hash/crc64"
	"io"
	"os"
	"path/filepath"

	"github.com/jdillenkofer/pithos/internal/storage/database"
	"github.com/jdillenkofer/pithos/internal/storage/metadatapart/partstore"
	"github.com/jdillenkofer/pithos/internal/verif/vkit"
)

var bg = context.Background()

func newID(rg *vkit.Rand) partstore.PartId {
	id, err := partstore.NewPartIdFromBytes(rg.Bytes(16))
	if err != nil {
		panic(err)
	}
	return *id
}

func idHex(id partstore.PartId) string { return hex.EncodeToString(id.Bytes()) }

func idFromHex(s string) partstore.PartId {
	b, err := hex.DecodeString(s)
	if err != nil {
		panic(err)
	}
	id, err := partstore.NewPartIdFromBytes(b)
	if err != nil {
		panic(err)
	}
	return *id
}

func fsPath(dir string, id partstore.PartId) string { return filepath.Join(dir, idHex(id)) }

// inTx runs fn in a committed transaction (rolled back when fn fails).
func inTx(db database.Database, readOnly bool, fn func(ctx context.Context, tx database.Tx) error) error {
	return database.WithTx(bg, db, &sql.TxOptions{ReadOnly: readOnly}, fn)
}

// ---- hostile but legal io.Readers handed to PutPart

// dribbleReader returns the data in pieces of PRNG sizes, sometimes zero-length
// reads, and delivers the last piece together with io.EOF when eofWithData.
type dribbleReader struct {
	data        []byte
	rg          *vkit.Rand
	max         int
	eofWithData bool
}

func (d *dribbleReader) Read(p []byte) (int, error) {
	if len(d.data) == 0 {
		return 0, io.EOF
	}
	if len(p) == 0 {
		return 0, nil
	}
	n := 1 + d.rg.Intn(d.max)
	if n > len(p) {
		n = len(p)
	}
	if n > len(d.data) {
		n = len(d.data)
	}
	copy(p, d.data[:n])
	d.data = d.data[n:]
	if len(d.data) == 0 && d.eofWithData {
		return n, io.EOF
	}
	return n, nil
}

// plainReader hides every optional interface of bytes.Reader (Seeker, WriterTo...).
type plainReader struct{ r io.Reader }

func (p plainReader) Read(b []byte) (int, error) { return p.r.Read(b) }

func putReader(kind int, data []byte, seed uint64) io.Reader {
	switch kind % 4 {
	case 0:
		return bytes.NewReader(data)
	case 1:
		return plainReader{bytes.NewReader(data)}
	case 2:
		return &dribbleReader{data: data, rg: vkit.NewRand(seed), max: 9000}
	default:
		return &dribbleReader{data: data, rg: vkit.NewRand(seed), max: 70000, eofWithData: true}
	}
}

// ---- content generators (pure functions of (kind,size,seed))

var (
	compMagic = [16]byte{0x4d, 0x2b, 0x0a, 0xdc, 0xee, 0x7c, 0x44, 0xa8, 0xb0, 0x49, 0x98, 0x06, 0x7b, 0x5b, 0x84, 0x50}
	ecmaTable = crc64.MakeTable(crc64.ECMA)
)

// compressionHeader builds a byte-exact, checksum-valid header of the
// compression middleware (written from its documented layout, not imported).
func compressionHeader(alg byte) []byte {
	h := make([]byte, 32)
	copy(h, compMagic[:])
	h[16] = 1
	h[17] = alg
	binary.BigEndian.PutUint64(h[24:], crc64.Checksum(h[:24], ecmaTable))
	return h
}

const sampleSize = 64 * 1024

func textFill(b []byte, seed uint64) {
	pat := []byte("the quick brown fox jumps over the lazy dog 0123456789 ")
	o := int(seed % uint64(len(pat)))
	for i := range b {
		b[i] = pat[(i+o)%len(pat)]
	}
}

func genContent(kind string, size int, seed uint64) []byte {
	rg := vkit.NewRand(seed)
	switch kind {
	case "empty":
		return []byte{}
	case "zero":
		return make([]byte, size)
	case "prng", "one":
		return rg.Bytes(size)
	case "mixed-ci": // compressible head (covers the 64 KiB sample when large), incompressible tail
		b := rg.Bytes(size)
		h := size / 2
		if size > sampleSize {
			h = sampleSize
		}
		textFill(b[:h], seed)
		return b
	case "mixed-ic": // incompressible head, compressible tail
		b := rg.Bytes(size)
		h := size / 2
		if size > sampleSize {
			h = sampleSize
		}
		textFill(b[h:], seed)
		return b
	case "edge": // compression ratio of the sample close to the 0.95 decision threshold
		b := rg.Bytes(size)
		n := size
		if n > sampleSize {
			n = sampleSize
		}
		z := n * (4 + int(seed%4)) / 100
		for i := 0; i < z; i++ {
			b[i] = 0
		}
		return b
	case "magic": // body starts with a valid compression-middleware header
		b := rg.Bytes(size)
		copy(b, compressionHeader(byte(seed%3)))
		return b
	}
	panic("unknown content kind " + kind)
}

func readAllClose(rc io.ReadCloser) ([]byte, error) {
	b, err := io.ReadAll(rc)
	cerr := rc.Close()
	if err == nil && cerr != nil {
		// a failing Close after a clean read is reported but not as a read error
		return b, nil
	}
	return b, err
}

func isNotFound(err error) bool { return errors.Is(err, partstore.ErrPartNotFound) }

func firstDiff(a, b []byte) int {
	n := len(a)
	if len(b) < n {
		n = len(b)
	}
	for i := 0; i < n; i++ {
		if a[i] != b[i] {
			return i
		}
	}
	if len(a) != len(b) {
		return n
	}
	return -1
}

func errStr(err error) string {
	if err == nil {
		return ""
	}
	s := err.Error()
	if len(s) > 200 {
		s = s[:200]
	}
	return s
}

func fileSize(path string) int64 {
	st, err := os.Stat(path)
	if err != nil {
		return -1
	}
	return st.Size()
}
