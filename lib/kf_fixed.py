#!/usr/bin/env python3
"""usage: lib/kf_fixed.py <property> <commit> <signature-substring> [<what>]  — moves matching findings to 'fixed' (developer tool)"""
import fcntl, json, sys, os
path = os.path.join(os.path.dirname(os.path.abspath(__file__)), '..', 'known_findings.json')
prop, commit, sub = sys.argv[1:4]
what = sys.argv[4] if len(sys.argv) > 4 else None
with open(path + '.lock', 'w') as lk:
    fcntl.flock(lk, fcntl.LOCK_EX)
    d = json.load(open(path))
    keep, n = [], 0
    for f in d['findings']:
        if f['property'] == prop and sub in f['signature']:
            d['fixed'].append(f"fixed: property={prop} {commit} {what or f['what']} (signature {f['signature']})")
            n += 1
        else:
            keep.append(f)
    if n == 0 and what:
        d['fixed'].append(f"fixed: property={prop} {commit} {what} (signature {sub})")
    d['findings'] = keep
    tmp = path + '.tmp'
    json.dump(d, open(tmp, 'w'), indent=1)
    os.replace(tmp, path)
    print(n, 'moved')
