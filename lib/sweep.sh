#!/bin/bash
# usage: lib/sweep.sh <tier> <seed> [ids...]   — runs checks sequentially, one line per check
cd "$(dirname "$0")/.."
TIER=${1:-quick}; SEED=${2:-1}; shift 2
IDS=${*:-$(python3 -c "import json;print(' '.join(json.loads(l)['id'] for l in open('properties.jsonl')))")}
for id in $IDS; do
  s=$(date +%s)
  out=$(VERIF_SEED=$SEED ./check $id $TIER 2>&1)
  rc=$?
  e=$(( $(date +%s) - s ))
  nk=$(echo "$out" | grep -c '^KNOWN-FINDING')
  nv=$(echo "$out" | grep -c '^VIOLATION')
  echo "$id seed=$SEED rc=$rc wall=${e}s known=$nk violations=$nv $(echo "$out" | grep -E '^(RESULT|INCONCLUSIVE)' | tail -1 | cut -c1-140)"
done
