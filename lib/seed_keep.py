#!/usr/bin/env python3
"""usage: lib/seed_keep.py <PROP> <n> <demo-dir> <demo-regex> <caught_by(comma)> <missed_by_initially(comma or -)> <needs...>
Stores a confirmed seeded change under /verif/seeded/<PROP>-<n>/ (patch.diff, demo_test.go, notes.md excerpt, meta.json)."""
import json, os, shutil, sys, subprocess
prop, n, demodir, rx, caught, missed = sys.argv[1:7]
needs = ' '.join(sys.argv[7:])
src = os.environ.get('SEEDSRC', '/tmp/seedout') + f'/{prop}'
keepn = os.environ.get('KEEPN', n)
dst = f'/verif/seeded/{prop}-{keepn}'
os.makedirs(dst, exist_ok=True)
shutil.copy(f'{src}/change{n}.diff', f'{dst}/patch.diff')
shutil.copy(f'{src}/demo{n}_test.go', f'{dst}/demo_test.go')
notes = f'{src}/notes-round2.md' if int(n) > 2 and os.path.exists(f'{src}/notes-round2.md') else f'{src}/notes.md'
if os.path.exists(notes):
    shutil.copy(notes, f'{dst}/notes.md')
head = subprocess.run(['git', '-C', '/repo', 'rev-parse', '--short', 'HEAD'], capture_output=True, text=True).stdout.strip()
meta = {
    "id": f"{prop}-{keepn}", "breaks_property": prop,
    "origin": "independent sub-agent given only the property text and a scratch worktree",
    "needs_to_manifest": needs,
    "demo": {"file": "demo_test.go", "place_in": demodir, "run": f"go1.27.0 test -vet=off -count=1 -run '{rx}' ./{demodir}/"},
    "confirmed": "lib/seedtest.sh: patch applies, go build ok, demo passes on pristine tree and fails with the patch, repository suite passes with the patch",
    "confirmed_at_repo_head": head,
    "caught_by_checks": [c for c in caught.split(',') if c and c != '-'],
    "initially_missed_by": [c for c in missed.split(',') if c and c != '-'],
    "ran": f"VERIF_REPO=<worktree with patch> ./check <ID> quick",
}
json.dump(meta, open(f'{dst}/meta.json', 'w'), indent=1)
print('kept', dst)
