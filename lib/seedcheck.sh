#!/bin/bash
# usage: lib/seedcheck.sh <patch-file> <check-id> [tier]   — runs one check against a scratch worktree with the patch applied
set -uo pipefail
PATCH=$(readlink -f "$1"); C=$2; TIER=${3:-quick}
WT=/tmp/sc-$C-$$
git -C /repo worktree add -q --detach $WT HEAD || exit 3
( cd $WT && git apply "$PATCH" ) || { echo "PATCH DOES NOT APPLY"; git -C /repo worktree remove --force $WT; exit 4; }
cd "$(dirname "$0")/.."
VERIF_REPO=$WT ./check $C $TIER 2>&1 | cut -c1-300 | grep -v "^  sig" | head -${LINES_MAX:-8}
git -C /repo worktree remove --force $WT; rm -rf .work/alt-$(echo $WT | md5sum | cut -c1-8)
