#!/usr/bin/env python3
"""Rewrites DESIGN.md section 10 from /verif/seeded/*/meta.json."""
import glob, json, os, re
root = os.path.abspath(os.path.join(os.path.dirname(__file__), '..'))
rows = []
for m in sorted(glob.glob(root + '/seeded/*/meta.json')):
    d = json.load(open(m))
    rows.append(d)
out = ["## 10. Seeded-change catch matrix\n",
       "Every entry was written by an independent sub-agent that was given only the property text and a scratch",
       "worktree (nothing from /verif), and was kept only after the lead confirmed on a fresh worktree that the patch",
       "applies and builds, the repository suite still passes with it, and its demonstration fails with the patch and",
       "passes without (`lib/seedtest.sh`). Files: `/verif/seeded/<id>/{patch.diff,demo_test.go,notes.md,meta.json}`.",
       "\"initially missed\" = the quick tier of that check did not fire before the check was strengthened; the",
       "strengthening is described in the last column / in section 8.\n",
       "| id | breaks | needs to manifest | caught by (quick tier) | initially missed by |",
       "|---|---|---|---|---|"]
for d in rows:
    out.append(f"| {d['id']} | {d['breaks_property']} | {d['needs_to_manifest']} | {', '.join(d['caught_by_checks']) or '— (not caught)'} | {', '.join(d['initially_missed_by']) or '—'} |")
out.append("")
text = open(root + '/DESIGN.md').read()
i = text.index('## 10. Seeded-change catch matrix')
j = text.find('\n## 11.', i)
tail = text[j:] if j >= 0 else ''
open(root + '/DESIGN.md', 'w').write(text[:i] + '\n'.join(out) + tail)
print(len(rows), 'seeded changes')
