#!/bin/bash
# usage: lib/seedtest.sh <PROP> <n> <demo-target-dir> <demo-run-regex> [check-ids...]
# Confirms a seeded change (from /tmp/seedout/<PROP>/change<n>.diff): builds, existing suite passes,
# demo fails with / passes without the change; then runs the given checks (default: <PROP>) against it.
set -uo pipefail
P=$1; N=$2; DIR=$3; RX=$4; shift 4
CHECKS=${*:-$P}
SRC=${SEEDSRC:-/tmp/seedout}/$P
WT=/tmp/sv-$P-$N
export GOFLAGS=-mod=mod GOPROXY=off GOSUMDB=off GOTOOLCHAIN=local
git -C /repo worktree remove --force $WT 2>/dev/null
git -C /repo worktree add -q --detach $WT HEAD || exit 3
cd $WT
cp $SRC/demo${N}_test.go $DIR/zz_seed_demo_test.go
echo "== demo on pristine tree (must pass)"
go1.27.0 test -vet=off -count=1 -run "$RX" ./$DIR/ 2>&1 | tail -3
git apply $SRC/change$N.diff || { echo "PATCH DOES NOT APPLY"; exit 4; }
echo "== build with change"; go1.27.0 build ./... || exit 5
echo "== demo with change (must fail)"
go1.27.0 test -vet=off -count=1 -run "$RX" ./$DIR/ 2>&1 | tail -4
rm $DIR/zz_seed_demo_test.go
echo "== existing suite with change"
go1.27.0 test -vet=off -count=1 -timeout 25m ./... 2>&1 | grep -v "^ok\|no test files" | head -5
git checkout go.sum 2>/dev/null
cd /verif
for c in $CHECKS; do
  echo "== ./check $c quick against the change"
  VERIF_REPO=$WT ./check $c quick 2>&1 | cut -c1-260 | grep -v "^  sig\|^KNOWN-FINDING" | head -6
done
git -C /repo worktree remove --force $WT; rm -rf /verif/.work/alt-$(echo $WT | md5sum | cut -c1-8)
