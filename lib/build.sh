#!/bin/bash
# usage: lib/build.sh <engine> [race]   -> prints path of built binary
# Rebuilds harness engine <engine> (sources in /verif/harness/<engine> + vkit)
# *inside* the pithos module at /repo's current working tree via -overlay,
# with the "verif" build tag (hooks enabled). Nothing is written into /repo.
set -euo pipefail
VERIF=${VERIF_ROOT:-$(cd "$(dirname "$0")/.." && pwd)}
REPO=${VERIF_REPO:-/repo}
ENGINE=$1
RACE=${2:-}
export GOFLAGS=-mod=mod GOPROXY=off GOSUMDB=off GOTOOLCHAIN=local CGO_ENABLED=1
WORK=$VERIF/.work
# one build area per repository path, so a scratch worktree (VERIF_REPO=...)
# never disturbs builds against /repo
if [ "$REPO" != /repo ]; then WORK=$WORK/alt-$(echo "$REPO" | md5sum | cut -c1-8); fi
mkdir -p "$WORK/bin" "$WORK/mod"
(
flock 9
python3 - "$VERIF" "$REPO" "$WORK" <<'PY'
import json,os,sys,glob
verif,repo,work=sys.argv[1:4]
ov={}
for d in sorted(glob.glob(verif+'/harness/*')):
    if not os.path.isdir(d): continue
    pkg=os.path.basename(d)
    for f in sorted(glob.glob(d+'/*.go')):
        ov[f"{repo}/internal/verif/{pkg}/{os.path.basename(f)}"]=f
def put(path,content):
    try:
        if open(path).read()==content: return
    except OSError: pass
    tmp=path+'.tmp%d'%os.getpid()
    open(tmp,'w').write(content); os.replace(tmp,path)
put(work+'/overlay.json',json.dumps({"Replace":ov},indent=0,sort_keys=True))
gm=open(repo+'/go.mod').read()
if 'anishathalye/porcupine' not in gm:
    gm+='\nrequire github.com/anishathalye/porcupine v1.3.0\n'
put(work+'/mod/go.mod',gm)
# go.sum: repo's + porcupine lines (kept in /verif/lib/extra.sum)
gs=open(repo+'/go.sum').read()
try: gs+=open(verif+'/lib/extra.sum').read()
except OSError: pass
put(work+'/mod/go.sum',gs)
PY
) 9>"$WORK/build.lock"
OUT="$WORK/bin/$ENGINE${RACE:+.race}"
TMPOUT="$OUT.tmp$$"
cd "$REPO"
go1.27.0 build -tags verif ${RACE:+-race} -overlay "$WORK/overlay.json" -modfile "$WORK/mod/go.mod" -o "$TMPOUT" "./internal/verif/$ENGINE/" >&2
mv -f "$TMPOUT" "$OUT"
echo "$OUT"
