#!/usr/bin/env python3
"""prints the prompt for an independent seeding sub-agent: only the property text + a scratch worktree"""
import json, sys
pid = sys.argv[1]
for l in open('/verif/properties.jsonl'):
    p = json.loads(l)
    if p['id'] == pid:
        break
rnd = sys.argv[2] if len(sys.argv) > 2 else ""
wt = f"/tmp/seed{rnd}-{pid}"
out = f"/tmp/seedout{rnd}/{pid}"
extra = ""
if rnd:
    extra = " Avoid the first idea that comes to mind: look for the less obvious parts of the mechanism - boundary conditions, error and recovery paths, rarely used options and configuration variants, code shared with neighbouring features."
print(f"""You are a software engineer working on the Go repository jdillenkofer/pithos (a self-hosted S3-compatible object storage server). You have your own scratch git worktree of it at {wt} (work ONLY there; never touch /repo, and do not read or use anything under /verif - your work must be independent of it).

Here is a semantic property the project is supposed to guarantee:

  Title: {p['title']}
  Statement: {p['statement']}
  It must hold over: {p['quantifier']['text']}
  Code it is anchored in: {', '.join(p['anchors']['files'])}

Your task: produce ONE realistic source change (a small patch to non-test files under {wt}/internal or {wt}/cmd, the kind of slip or "optimisation"/"refactoring" a developer could plausibly commit) that BREAKS this property while the project still compiles and ALL existing tests still pass. The change must need something specific to manifest - a particular interleaving, a crash or fault at a particular point, a multi-step sequence of operations, an unusual input or configuration, or two cooperating sites that each look fine alone - NOT something that ordinary use or a basic smoke test would expose at once.{extra} Do not touch test files, go.mod/go.sum, or the package internal/verifhook and the `verifhook.` call sites / `*_verif.go` files (they are inert instrumentation).

Deliver, under {out}/ (create it):
  - change1.diff : `git diff` of the change alone against the worktree's HEAD (apply-able with `git apply` at the repository root);
  - demo1_test.go : a demonstration, preferably a Go test file placed in an existing package directory of the repository (state the directory in notes.md) that FAILS with the change and PASSES without it (it may be probabilistic if the bug is a race - then loop enough to be reliable and say so); a small program is fine if a test is impractical;
  - notes.md : what it breaks, why existing tests do not notice, exactly what is needed for it to manifest, the target directory of the demo file and the exact command you ran.

Verify everything yourself: (1) with the change applied `go build ./...` succeeds and the package tests of every package you touched plus `./internal/storage/... ./internal/http/...` still pass; (2) the demo fails with the change and passes on the pristine worktree (save your change with `git diff > {out}/wip.diff` then `git checkout -- .`, and `git apply` it back; NEVER use `git stash`: the stash is shared by all worktrees of the repository and other agents use it concurrently). Leave the worktree clean (pristine HEAD, no untracked files) when you are done - the deliverables live only in {out}/.

Toolchain (no network in this sandbox): use `go1.27.0` (not plain `go`) and run every command with
  export GOFLAGS=-mod=mod GOPROXY=off GOSUMDB=off GOTOOLCHAIN=local
go commands may add lines to go.sum in the worktree: run `git checkout go.sum` before producing diffs. Tests use SQLite (cgo) and run offline; Postgres/Docker based tests are skipped automatically. A full `go1.27.0 test -vet=off -count=1 ./...` takes about 1-3 minutes; prefer package-level runs while iterating. The machine is shared: do not start more than one test run at a time.

You have about 20 minutes of wall-clock time: pick an idea quickly, keep the demo small, and deliver as soon as both verifications are done. Finish with a short report: one paragraph (what, where, what it needs to manifest) and the verification you did.""")
