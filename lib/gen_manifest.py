#!/usr/bin/env python3
"""Regenerates /verif/MANIFEST.json from harness/*/checks.json fragments + lib/not_applicable.json."""
import glob, json, os, subprocess
root = os.path.join(os.path.dirname(os.path.abspath(__file__)), '..')
root = os.path.abspath(root)
props = [json.loads(l)['id'] for l in open(root + '/properties.jsonl')]
checks, engines = [], []
for frag in sorted(glob.glob(root + '/harness/*/checks.json')):
    eng = os.path.basename(os.path.dirname(frag))
    d = json.load(open(frag))
    served = []
    for c in d['checks']:
        pid = c['property_id']
        served.append(pid)
        checks.append({
            "property_id": pid,
            "quick_cmd": f"./check {pid} quick",
            "thorough_cmd": f"./check {pid} thorough",
            "evidence_file": f"/verif/evidence/{pid}.json",
            "replay_cmd_template": f"./check {pid} --replay {{path}}",
            "engine": eng,
            "level_claimed": {"category": c['level'], "text": c['text'], "design_ref": c.get('design_ref', f"DESIGN.md §2 {pid}")},
            "level_note": c['note'],
            "technique": c['technique'],
        })
    engines.append({"name": eng, "path": f"/verif/harness/{eng}", "serves_properties": served, "kind_free_text": d.get('kind', '')})
checks.sort(key=lambda c: c['property_id'])
claimed = {c['property_id'] for c in checks}
na_path = root + '/lib/not_applicable.json'
na_given = {e['property_id']: e['reason'] for e in (json.load(open(na_path)) if os.path.exists(na_path) else [])}
na = []
for p in props:
    if p not in claimed:
        na.append({"property_id": p, "reason": na_given.get(p, "no check registered yet (machinery under construction)")})
hooks_commits = subprocess.run(['git', '-C', '/repo', 'log', '--format=%H', '--grep=^verif hooks'], capture_output=True, text=True).stdout.split()
m = {
    "version": 1,
    "setup_cmd": "./setup.sh",
    "hooks": {
        "guard": "verif",
        "enable": "go build tag 'verif' (go1.27.0 build -tags verif -overlay ...), see lib/build.sh; harness sources are overlaid into the module, nothing is written into /repo",
        "baseline_off_cmd": "cd /repo && GOFLAGS=-mod=mod GOPROXY=off GOSUMDB=off GOTOOLCHAIN=local go1.27.0 test -json -vet=off -count=1 -timeout 25m ./...",
        "source_commits": hooks_commits,
        "add_only": True,
    },
    "engines": engines,
    "checks": checks,
    "notes": "All checks are runtime monitors: oracles observing executions of the real code (see DESIGN.md). Exit 2 + 'INCONCLUSIVE' = watchdog/too little observed, never folded into 'held'.",
    "not_applicable": na,
}
json.dump(m, open(root + '/MANIFEST.json', 'w'), indent=1)
print(f"{len(checks)} checks, {len(na)} not claimed")
