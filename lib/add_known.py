#!/usr/bin/env python3
"""usage: lib/add_known.py <property> <signature> <what fails>   (developer tool, never run by a check)"""
import fcntl, json, sys, os
path = os.path.join(os.path.dirname(os.path.abspath(__file__)), '..', 'known_findings.json')
prop, sig, what = sys.argv[1], sys.argv[2], sys.argv[3]
with open(path + '.lock', 'w') as lk:
    fcntl.flock(lk, fcntl.LOCK_EX)
    try:
        d = json.load(open(path))
    except FileNotFoundError:
        d = {"findings": [], "fixed": []}
    for f in d["findings"]:
        if f["property"] == prop and f["signature"] == sig:
            f["what"] = what
            break
    else:
        d["findings"].append({"property": prop, "signature": sig, "what": what})
    d["findings"].sort(key=lambda f: (f["property"], f["signature"]))
    tmp = path + '.tmp'
    json.dump(d, open(tmp, 'w'), indent=1)
    os.replace(tmp, path)
