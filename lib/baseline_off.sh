#!/bin/bash
# Runs the repository's own test suite with the verif guard OFF (no -tags verif),
# against a private copy of go.mod/go.sum so /repo's tree is not touched.
set -uo pipefail
export GOPROXY=off GOSUMDB=off GOTOOLCHAIN=local
W=/verif/.work/mod-base
mkdir -p "$W"
cp /repo/go.mod "$W/go.mod"; cp /repo/go.sum "$W/go.sum"
cd /repo && go1.27.0 test -mod=mod -modfile="$W/go.mod" -json -vet=off -count=1 -timeout 25m ./... "$@"
