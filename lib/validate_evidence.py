import json, sys
import jsonschema
schema = json.load(open('/root/.vp/EVIDENCE.schema.json'))
ev = json.load(open(sys.argv[1]))
try:
    jsonschema.validate(ev, schema)
except jsonschema.ValidationError as e:
    print("evidence schema error:", e.message, file=sys.stderr)
    sys.exit(1)
