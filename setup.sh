#!/bin/bash
# Builds every engine (both variants where a property uses the race build) to warm the build cache. Offline.
set -uo pipefail
cd "$(dirname "$0")"
mkdir -p .work evidence
rc=0
for d in harness/*/; do
  e=$(basename "$d")
  [ -f "$d/props.tsv" ] || continue
  ./lib/build.sh "$e" >/dev/null || rc=1
  if awk '$3=="y"||$4=="y"' "$d/props.tsv" | grep -q .; then
    ./lib/build.sh "$e" race >/dev/null || rc=1
  fi
done
exit $rc
